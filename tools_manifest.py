#!/usr/bin/env python3
"""regenerates MANIFEST.json from the table below (keeps it valid at all times)"""
import json, os
HERE = os.path.dirname(os.path.abspath(__file__))
props = [json.loads(l) for l in open(os.path.join(HERE, "properties.jsonl"))]
from manifest_table import TABLE, NOT_YET
checks, na = [], []
for p in props:
    pid = p["id"]
    if pid in TABLE:
        t = TABLE[pid]
        checks.append({
            "property_id": pid,
            "quick_cmd": "./check %s --tier quick" % pid,
            "thorough_cmd": "./check %s --tier thorough" % pid,
            "evidence_file": "/verif/evidence/%s.json" % pid,
            "replay_cmd_template": "./check %s --replay {path}" % pid,
            "engine": "mc",
            "level_claimed": {"category": "model_checking", "text": t["text"], "design_ref": t["ref"]},
            "level_note": t["note"],
            "technique": t["technique"],
        })
    else:
        na.append({"property_id": pid, "reason": NOT_YET.get(pid, "check not built yet in this session; see DESIGN.md section 4")})
m = {
    "version": 1,
    "setup_cmd": "./check selftest",
    "hooks": {"guard": "QUARA_VERIF", "enable": "no source hooks: checks import /repo's working tree directly (PYTHONPATH=/verif/mc/site:/verif:/repo, fresh PYTHONPYCACHEPREFIX); QUARA_VERIF=1 is exported but no source reads it",
              "baseline_off_cmd": "cd /repo && /venv/bin/python -m pytest -ra -q -p no:cacheprovider --timeout=900 --continue-on-collection-errors",
              "source_commits": [], "add_only": True},
    "engines": [{"name": "mc", "path": "/verif/mc", "serves_properties": sorted(TABLE),
                 "kind_free_text": "hand-written explicit-state / bounded-exhaustive explorers in Python running the real quara code against a numpy reference model (E1 product enumerator, E2 BFS over operation histories, E3 deviation-bounded choice explorer, lock-step iteration monitors)"}],
    "checks": checks,
    "notes": "All checks: ./check Cxx --tier quick|thorough ; exit 0 held / 1 VIOLATION / 2 harness error. Known findings in /verif/known_findings.json.",
    "not_applicable": na,
}
json.dump(m, open(os.path.join(HERE, "MANIFEST.json"), "w"), indent=1)
print("checks:", [c["property_id"] for c in checks], "not claimed:", [x["property_id"] for x in na])
