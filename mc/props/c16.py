"""C16 Outcome-probability bookkeeping obeys probability theory.

E1 (product enumeration, exhaustive inside the stated bounds):

index_maps     every shape in the bound: every serial index and every multi-index, both directions, against
               the lexicographic enumeration rank (= row-major by definition) and the mixed-radix formula;
               round trips; wrong-length multi-indices must raise ValueError.
distributions  every shape x four tensors (all entries distinct / exact zeros / entries below and above the zero
               threshold / everything below the threshold): constructor zeroing + renormalisation (also with
               explicit eps_zero), __getitem__ by int and tuple, marginalize for every ordered subset of retained
               variables, conditionalize for every subset of conditioned variables and every assignment,
               joint = marginal x conditional through the indexed accessors of the library's own results.
validate       validate_prob_dist over a ladder around its eps (sum defect and negative entries).
ensembles      measurement processes with 2..4 outcomes (also with a (2,2) outcome shape) applied once / twice
               (/ three times in thorough) to states: shape, prob_dist[outcome], state(outcome) by tuple and int
               against the time-ordered reference branches; a POVM on the ensemble gives the joint distribution
               whose marginal is the ensemble distribution and whose conditionals are the Born probabilities of
               state(outcome).

The reference side is pure python over dicts keyed by multi-indices (no reshape, no quara code).
"""
import contextlib
import hashlib
import io
import itertools
import math

import numpy as np

from mc import alphabet as A, refmodel as R
from mc.core import Out, inner

ID = "C16"
RULE = ("every shape (tuple of variable sizes) in the bound x every serial / multi index; every shape x 4 tensor "
        "kinds x every ordered retained subset (marginalize) x every conditioned subset and assignment "
        "(conditionalize); every (system, state, instrument sequence of length 1..2(3)) x every outcome; a case is "
        "non-trivial when some variable has more than one value; distinct = distinct (shape, tensor kind, call "
        "arguments) resp. (system, instruments, state, outcome)")
ASSUMPTIONS = [
    "indices are python ints inside their range; out-of-range / negative indices are not explored",
    "distributions over zero variables (retain nothing / condition on every variable) cannot be represented by the "
    "library (shape ()); the observed behaviour is only recorded (counters degenerate_*)",
    "derived distributions (marginal, conditional) are judged with the documented default threshold 1e-8; an "
    "explicit eps_zero is only checked on the constructor",
    "threshold verdicts are asserted only for entries outside (eps/10, 10 eps)",
    "validate_prob_dist: the verdict for negative entries inside [-eps/10, 0) is recorded, not asserted "
    "(docstring and code disagree there)",
    "ensembles: instruments / states / POVMs of the shared alphabet on 1 qubit, 1 qutrit (and 2 qubits in thorough); "
    "mode_sampling=False only; post-measurement states are compared only for outcomes with probability >= 1e-7",
    "MProcess o MProcess composition is not used (C06 covers it); ensembles are built as m2 o (m1 o state)",
    "when compose_qoperations(MProcess, State) rejects its own renormalised post-measurement state as unphysical and "
    "the reference shows a conditional outcome probability below 1e-2 (rounding amplified by 1/p above the library's "
    "atol), the case is only counted (ens_illconditioned_physicality_rejection): a conditioning matter of composition, "
    "not of the outcome bookkeeping",
]
BOUNDS = {
    "quick": "index maps: 1..4 variables of 1..5 values (780 shapes, all indices); distributions: 1..4 variables of "
             "1..5 values (780 shapes) x 4 tensors, all ordered retained subsets, all conditioned subsets x assignments; "
             "ensembles: 1 qubit and 1 qutrit, instrument sequences of length 1 and 2 over 13 instruments (2..4 outcomes, "
             "4 also as 2x2) x all alphabet states x 2 POVMs; validate ladder 4 eps x lengths 1..5",
    "thorough": "index maps: 1..5 variables of 1..6 values and 6 variables of 1..4 values (13426 shapes); distributions: "
                "1..4 variables of 1..6 values (1554 shapes) and 5 variables of 1..4 values (1024 shapes) x 4 tensors; "
                "ensembles: 1 qubit, 1 qutrit, 2 qubits length 1 and 2; 1 qubit and 1 qutrit length 3",
}
EXHAUSTIVE = {"quick": True, "thorough": True}
CASE_TIMEOUT = 600
CHUNK = 8            # heavy shapes are contiguous in the case list: small chunks balance the tail

TOL = 1e-10          # exact algebraic identities on numbers <= 1
TOL_STATE = 1e-9
EPS_DEFAULT = 1e-8   # documented default of eps_zero / eps


# ------------------------------------------------------------------------------------------------ helpers

class Hasher:
    def __init__(self):
        self.h = hashlib.sha1()

    def add(self, *xs):
        for x in xs:
            self.h.update(np.ascontiguousarray(np.asarray(x, dtype=np.float64)).tobytes())

    def hex(self):
        return self.h.hexdigest()[:12]


def multis(shape):
    """all multi-indices in lexicographic order (last variable fastest) = row-major order by definition"""
    return itertools.product(*[range(s) for s in shape])


def prod(shape):
    n = 1
    for s in shape:
        n *= s
    return n


def shape_class(shape):
    if len(shape) <= 1:
        return "1var"
    return "sizes-equal" if len(set(shape)) == 1 else "sizes-unequal"


def ishape(s):
    return tuple(int(x) for x in s)


def jitter(seed, n, salt):
    a = R.angles(seed, n, salt)
    return [0.45 * math.sin(x) ** 2 for x in a]


# ------------------------------------------------------------------------------------------------ families

def all_shapes(kmax, vmax, kmin=1):
    out = []
    for k in range(kmin, kmax + 1):
        out.extend(itertools.product(range(1, vmax + 1), repeat=k))
    return out


KINDS = ("distinct", "zeros", "subeps", "allsub")


def families(tier, seed):
    fams = []
    if tier == "quick":
        idx = [{"nvars": k, "first": f, "vmax": 5} for k in range(1, 5) for f in range(1, 6)]
        dshapes = all_shapes(4, 5)
        ens_sys, ens3 = ["Q1", "Q3"], []
    else:
        idx = [{"nvars": k, "first": f, "vmax": 6} for k in range(1, 5) for f in range(1, 7)]
        idx += [{"nvars": 5, "first": f, "second": s, "vmax": 6} for f in range(1, 7) for s in range(1, 7)]
        idx += [{"nvars": 6, "first": f, "second": s, "vmax": 4} for f in range(1, 5) for s in range(1, 5)]
        dshapes = all_shapes(4, 6) + all_shapes(5, 4, kmin=5)
        ens_sys, ens3 = ["Q1", "Q3", "Q2"], ["Q1", "Q3"]
    fams.append(("index_maps", idx))
    fams.append(("distributions", [{"shape": list(s), "kind": kd} for s in dshapes for kd in KINDS]))
    fams.append(("validate", [{"eps": e, "n": n} for e in ("none", "1e-8", "1e-4", "1e-12") for n in range(1, 6)]))
    ens = []
    for tag in ens_sys:
        names = instrument_names(tag)
        for a in names:
            ens.append({"sys": tag, "seq": [a]})
        for a in names:
            for b in names:
                ens.append({"sys": tag, "seq": [a, b]})
    for tag in ens3:
        names = instrument_names(tag)
        for a in names:
            for b in names:
                for c in names:
                    ens.append({"sys": tag, "seq": [a, b, c]})
    fams.append(("ensembles", ens))
    return fams


def guards(summary):
    g = []
    info = summary["info"]
    need = ["idx_serial_checked", "idx_multi_checked", "idx_unequal_shapes", "idx_wrong_length_rejected",
            "ctor_entries_zeroed", "ctor_renormalised", "ctor_zero_dist", "ctor_eps_custom", "getitem_int", "getitem_tuple",
            "marg_calls", "marg_permuted_distinguishable", "marg_zero_entry", "cond_positive", "cond_zero_event_raises",
            "cond_reordered", "joint_identity_terms", "joint_unequal_shapes",
            "val_accept", "val_reject_sum", "val_reject_negative", "val_warning_only",
            "ens_once", "ens_twice", "ens_unequal_counts", "ens_multidim_instrument", "ens_zero_prob_outcome",
            "ens_states_compared", "ens_int_access", "ens_povm_joint", "ens_povm_conditional"]
    for k in need:
        if info.get(k, 0) < 1:
            g.append("never observed: %s" % k)
    return g


def execute(family, params, seed):
    return {"index_maps": ex_index, "distributions": ex_dist, "validate": ex_validate,
            "ensembles": ex_ensemble}[family](params, seed)


# ------------------------------------------------------------------------------------------------ index maps

def ex_index(p, seed):
    from quara.utils import index_util as iu
    to_multi = iu.index_multi_dimensional_from_index_serial
    to_serial = iu.index_serial_from_index_multi_dimensional
    out = Out()
    k, vmax = p["nvars"], p["vmax"]
    fixed = (p["first"],) + ((p["second"],) if "second" in p else ())
    nshape = 0
    nidx = 0
    hs = Hasher()
    for rest in itertools.product(range(1, vmax + 1), repeat=k - len(fixed)):
        shape = fixed + rest
        nshape += 1
        cls = "nvars=%d:%s" % (k, shape_class(shape))
        if len(set(shape)) > 1:
            out.count("idx_unequal_shapes")
        for rank, multi in enumerate(multis(shape)):
            # two independent descriptions of "row-major": enumeration rank and the mixed-radix formula
            if R.row_major_index(multi, shape) != rank or R.row_major_multi(rank, shape) != multi:
                raise AssertionError("harness: the two row-major references disagree")
            nidx += 1
            for form, nl in (("list", list(shape)), ("tuple", tuple(shape))):
                ok, got = A.call(to_multi, nl, rank)
                out.ops += 1
                out.traces += 1
                if not ok:
                    out.fail("index_multi_dimensional_from_index_serial:raises:%s" % cls,
                             "shape %r (%s) serial %d: %s" % (shape, form, rank, A.fmt_exc(got)))
                    got_m = None
                else:
                    got_m = tuple(got) if isinstance(got, (tuple, list)) else got
                    if got_m != multi:
                        out.fail("index_multi_dimensional_from_index_serial:not-row-major:%s" % cls,
                                 "shape %r serial %d: got %r, row-major %r" % (shape, rank, got, multi))
                    out.count("idx_serial_checked")
                ok2, got2 = A.call(to_serial, nl, multi)
                out.ops += 1
                out.traces += 1
                if not ok2:
                    out.fail("index_serial_from_index_multi_dimensional:raises:%s" % cls,
                             "shape %r (%s) multi %r: %s" % (shape, form, multi, A.fmt_exc(got2)))
                else:
                    if got2 != rank:
                        out.fail("index_serial_from_index_multi_dimensional:not-row-major:%s" % cls,
                                 "shape %r multi %r: got %r, row-major %d" % (shape, multi, got2, rank))
                    out.count("idx_multi_checked")
                    # mutually inverse, on the library's own outputs
                    ok3, back = A.call(to_multi, nl, got2)
                    out.ops += 1
                    if not ok3 or tuple(back) != multi:
                        out.fail("index_util:roundtrip:multi->serial->multi:%s" % cls,
                                 "shape %r multi %r -> %r -> %r" % (shape, multi, got2, back))
                if ok and got_m is not None and isinstance(got_m, tuple) and len(got_m) == k:
                    ok4, back = A.call(to_serial, nl, got_m)
                    out.ops += 1
                    if not ok4 or back != rank:
                        out.fail("index_util:roundtrip:serial->multi->serial:%s" % cls,
                                 "shape %r serial %d -> %r -> %r" % (shape, rank, got_m, back))
            hs.add(multi)
        # wrong-length multi-indices
        zero = (0,) * k
        for tag, bad in (("short", zero[:-1]), ("long", zero + (0,)), ("long2", zero + (0, 0))):
            ok, got = A.call(to_serial, list(shape), bad)
            out.ops += 1
            if ok:
                out.fail("index_serial_from_index_multi_dimensional:wrong-length-accepted:%s" % tag,
                         "shape %r multi %r returned %r" % (shape, bad, got))
            elif not isinstance(got, ValueError):
                out.fail("index_serial_from_index_multi_dimensional:wrong-length-wrong-exception:%s" % tag,
                         "shape %r multi %r: %s" % (shape, bad, A.fmt_exc(got)))
            else:
                out.count("idx_wrong_length_rejected")
    inner(out, nshape + nidx - 1, nidx - nshape)
    out.nontrivial = any(s > 1 for s in fixed) or vmax > 1
    out.outcome = "ok" if not out.fails else "fail"
    out.digest = hs.hex()
    return out


# ------------------------------------------------------------------------------------------------ tensors (reference side)

def base_weights(shape, seed):
    """dict multi -> positive weight, all distinct, depending on the multi-index (not on a serial index)"""
    k = len(shape)
    ints = {}
    for m in multis(shape):
        ints[m] = sum((m[i] + 1) * 7 ** (k - 1 - i) for i in range(k))
    vals = sorted(set(ints.values()))
    if len(vals) != len(ints):
        raise AssertionError("harness: weights not distinct")
    jit = jitter(seed, 64, salt=k)
    w = {m: v + jit[v % 64] for m, v in ints.items()}
    if len(set(w.values())) != len(w):
        raise AssertionError("harness: weights not distinct")
    tot = math.fsum(w.values())
    return {m: v / tot for m, v in w.items()}


def make_tensor(shape, kind, seed, eps=EPS_DEFAULT):
    """input tensor as dict multi -> value (given to the constructor in lexicographic order)"""
    w = base_weights(shape, seed)
    order = list(multis(shape))
    jit = jitter(seed, 64, salt=11)
    if kind == "distinct":
        return w
    if kind == "zeros":
        t = {}
        for rank, m in enumerate(order):
            z = (shape[0] > 1 and m[0] == 0) or rank % 3 == 1
            t[m] = 0.0 if z else w[m]
        if all(v == 0.0 for v in t.values()):
            t[order[-1]] = w[order[-1]]
        return t        # not normalised on purpose: the constructor has to renormalise
    if kind == "subeps":
        t, small = {}, 0.0
        for rank, m in enumerate(order):
            if shape[-1] > 1 and m[-1] == 0:
                t[m] = 0.04 * eps * (1 + jit[rank % 64])       # <= eps/10 : must become 0
            elif rank % 4 == 2:
                t[m] = 30 * eps * (1 + jit[rank % 64])         # >= 10 eps : must stay
            else:
                t[m] = None
                continue
            small += t[m]
        big = [m for m in order if t[m] is None]
        if not big:
            raise AssertionError("harness: no large entry")
        totbig = math.fsum(w[m] for m in big)
        for m in big:
            t[m] = w[m] / totbig * (1 - small)
        return t
    if kind == "allsub":
        return {m: 0.04 * eps * (1 + jit[rank % 64]) for rank, m in enumerate(order)}
    raise ValueError(kind)


def ref_construct(t, eps):
    """documented constructor semantics: entries below eps are zero; the rest is renormalised.
    returns (dict, is_zero_dist, n_zeroed, renormalised)"""
    for v in t.values():
        if v < 0 or eps / 10 < v < 10 * eps:
            raise AssertionError("harness: entry inside the threshold band (or negative)")
    z = {m: (0.0 if v < eps else v) for m, v in t.items()}
    nz = sum(1 for m in t if t[m] != 0.0 and z[m] == 0.0)
    if all(v == 0.0 for v in z.values()):
        return z, True, nz, False
    if any(v == 0.0 for v in z.values()):
        tot = math.fsum(z.values())
        return {m: v / tot for m, v in z.items()}, False, nz, abs(tot - 1) > 1e-12
    return z, False, nz, False


def ref_marginal(t, keep):
    """dict keyed by the kept variables in the order given by `keep`"""
    acc = {}
    for m, v in t.items():
        acc.setdefault(tuple(m[i] for i in keep), []).append(v)
    return {k: math.fsum(v) for k, v in acc.items()}


def flat_of(d, shape):
    return [d[m] for m in multis(shape)]


def close_list(a, b, tol=TOL):
    if len(a) != len(b):
        return False
    for x, y in zip(a, b):
        if not (abs(x - y) <= tol):     # nan-safe
            return False
    return True


def lib_flat(dist):
    return [float(x) for x in np.asarray(dist.ps).ravel()]


# ------------------------------------------------------------------------------------------------ distributions

def ex_dist(p, seed):
    from quara.objects.multinomial_distribution import MultinomialDistribution as MD
    out = Out()
    shape = tuple(p["shape"])
    kind = p["kind"]
    k = len(shape)
    n = prod(shape)
    cls = "%s:nvars=%d:%s" % (kind, k, shape_class(shape))
    hs = Hasher()
    nel = 0
    order = list(multis(shape))

    t_in = make_tensor(shape, kind, seed)
    ref, ref_zero, nzeroed, renorm = ref_construct(t_in, EPS_DEFAULT)

    # ---- constructor (default threshold); shape=None is the documented 1-variable form
    def build(tin, eps_kw, use_none_shape=False):
        arr = np.array(flat_of(tin, shape), dtype=np.float64)
        kw = {} if eps_kw is None else {"eps_zero": eps_kw}
        if use_none_shape:
            return A.call(MD, arr, **kw)
        return A.call(MD, arr, shape, **kw)

    def check_ctor(dist, refd, refzero, tag, eps_expected):
        good = True
        if ishape(dist.shape) != shape:
            out.fail("MultinomialDistribution.__init__:shape:%s" % tag, "shape %r stored as %r" % (shape, dist.shape))
            good = False
        got = lib_flat(dist)
        want = flat_of(refd, shape)
        out.traces += 1
        if not close_list(got, want):
            bad = [(m, g, w_) for m, g, w_ in zip(order, got, want) if not abs(g - w_) <= TOL][:4]
            zero_issue = any((w_ == 0.0) != (g == 0.0) for _, g, w_ in bad)
            out.fail("MultinomialDistribution.__init__:%s:%s" % ("zeroing" if zero_issue else "values", tag),
                     "shape %r kind %s: (multi, got, expected) %r" % (shape, kind, bad))
            good = False
        s = math.fsum(got)
        if refzero:
            if not dist.is_zero_dist:
                out.fail("MultinomialDistribution.__init__:is_zero_dist:%s" % tag, "all entries below the threshold but is_zero_dist is False")
                good = False
        else:
            if dist.is_zero_dist:
                out.fail("MultinomialDistribution.__init__:is_zero_dist:%s" % tag, "is_zero_dist True for a non-zero tensor")
                good = False
            if not abs(s - 1) <= TOL:
                out.fail("MultinomialDistribution.__init__:not-normalised:%s" % tag, "shape %r kind %s: sum %r" % (shape, kind, s))
                good = False
        if eps_expected is not None and dist.eps_zero != eps_expected:
            out.fail("MultinomialDistribution.eps_zero:accessor:%s" % tag, "given %r, accessor %r" % (eps_expected, dist.eps_zero))
        return good

    ok, dist = build(t_in, None)
    out.ops += 1
    nel += 1
    if not ok:
        out.fail("MultinomialDistribution.__init__:raises:%s" % cls, "shape %r kind %s: %s" % (shape, kind, A.fmt_exc(dist)))
        out.outcome = "ctor-raises"
        inner(out, nel - 1)
        return out
    base_ok = check_ctor(dist, ref, ref_zero, cls, None)
    hs.add(lib_flat(dist))
    if dist.eps_zero != EPS_DEFAULT:
        out.fail("MultinomialDistribution.eps_zero:default:%s" % cls, "default threshold reported as %r" % (dist.eps_zero,))
    out.count("ctor_entries_zeroed", nzeroed)
    out.count("ctor_renormalised", 1 if renorm else 0)
    out.count("ctor_zero_dist", 1 if ref_zero else 0)
    if k == 1:
        ok1, d1 = build(t_in, None, use_none_shape=True)
        out.ops += 1
        nel += 1
        if not ok1:
            out.fail("MultinomialDistribution.__init__:raises:shape-none:%s" % cls, A.fmt_exc(d1))
        else:
            check_ctor(d1, ref, ref_zero, "shape-none:" + cls, None)

    # ---- constructor with an explicit threshold
    if kind == "subeps":
        for eps in (1e-12, 1e-6):
            tin = make_tensor(shape, "subeps", seed, eps=eps)
            r2, z2, _, _ = ref_construct(tin, eps)
            ok2, d2 = build(tin, eps)
            out.ops += 1
            nel += 1
            tag = "eps_zero=%g:%s" % (eps, cls)
            if not ok2:
                out.fail("MultinomialDistribution.__init__:raises:%s" % tag, A.fmt_exc(d2))
            else:
                check_ctor(d2, r2, z2, tag, eps)
                out.count("ctor_eps_custom")
        # an explicit threshold 0.0: nothing is below it, the (normalised) input must be kept
        if any(0.0 < v < EPS_DEFAULT for v in t_in.values()):
            ok3, d3 = build(t_in, 0.0)
            out.ops += 1
            nel += 1
            if not ok3:
                out.fail("MultinomialDistribution.__init__:raises:eps_zero=0:%s" % cls, A.fmt_exc(d3))
            else:
                got = lib_flat(d3)
                want = flat_of(t_in, shape)
                if d3.eps_zero != 0.0 or any((w_ > 0) != (g > 0) for g, w_ in zip(got, want)):
                    nb = sum(1 for g, w_ in zip(got, want) if (w_ > 0) != (g > 0))
                    out.fail("MultinomialDistribution.__init__:eps_zero=0:explicit-threshold-replaced-by-default",
                             "shape %r: eps_zero=0.0 given, accessor reports %r, %d positive entries (e.g. %r) were set to zero"
                             % (shape, d3.eps_zero, nb, min(v for v in want if v > 0)))
                elif not close_list(got, want):
                    out.fail("MultinomialDistribution.__init__:values:eps_zero=0:%s" % cls, "shape %r" % (shape,))

    if not base_ok:
        out.outcome = "ctor-wrong"
        inner(out, nel - 1)
        return out

    # ---- __getitem__ by int and by tuple
    for rank, m in enumerate(order):
        ok, v = A.call(dist.__getitem__, rank)
        out.ops += 1
        if not ok or not abs(v - ref[m]) <= TOL:
            out.fail("MultinomialDistribution.__getitem__:int:%s" % cls, "shape %r [%d]: %r, expected %r" % (shape, rank, v, ref[m]))
        out.count("getitem_int")
        ok, v = A.call(dist.__getitem__, m)
        out.ops += 1
        if not ok or not abs(v - ref[m]) <= TOL:
            out.fail("MultinomialDistribution.__getitem__:tuple:%s" % cls, "shape %r [%r]: %r, expected %r" % (shape, m, v, ref[m]))
        out.count("getitem_tuple")
    nel += 2 * n
    out.traces += 2 * n

    # ---- marginalize: every ordered subset of retained variables
    marg_lib = {}     # ascending subset -> library result (for the joint identity)
    for r in range(0, k + 1):
        for keep in itertools.permutations(range(k), r):
            nel += 1
            ok, res = A.call(dist.marginalize, list(keep))
            out.ops += 1
            if r == 0:
                out.count("degenerate_marginal_raises" if not ok else "degenerate_marginal_returns")
                continue
            out.count("marg_calls")
            is_sorted = list(keep) == sorted(keep)
            kshape = tuple(shape[i] for i in keep)
            ashape = tuple(shape[i] for i in sorted(keep))
            ocls = "%s:order=%s:%s" % (kind, "ascending" if is_sorted else "permuted",
                                       "kept-sizes-unequal" if len(set(kshape)) > 1 else "kept-sizes-equal")
            if not ok:
                out.fail("marginalize:raises:%s" % ocls, "shape %r keep %r: %s" % (shape, keep, A.fmt_exc(res)))
                continue
            out.traces += 1
            got_shape = ishape(res.shape)
            got = lib_flat(res)
            hs.add(got)
            ref_asc = ref_marginal(ref, tuple(sorted(keep)))
            ref_req = ref_marginal(ref, keep)
            layouts = []
            if got_shape == ashape and close_list(got, flat_of(ref_asc, ashape)):
                layouts.append("ascending")
            if got_shape == kshape and close_list(got, flat_of(ref_req, kshape)):
                layouts.append("requested")
            if not layouts:
                if got_shape not in (ashape, kshape):
                    what = "shape"
                elif len(got) == prod(got_shape) and close_list(sorted(got), sorted(ref_asc.values())):
                    what = "layout"
                else:
                    what = "values"
                out.fail("marginalize:%s:%s" % (what, ocls),
                         "shape %r kind %s keep %r: got shape %r ps %r; reference (ascending variable order) shape %r ps %r"
                         % (shape, kind, keep, got_shape, got[:12], ashape, flat_of(ref_asc, ashape)[:12]))
                continue
            if not is_sorted and ashape != kshape:
                out.count("marg_permuted_distinguishable")
                out.count("marg_layout_" + layouts[0])
            if any(v == 0.0 for v in ref_asc.values()) and not ref_zero:
                out.count("marg_zero_entry")
            s = math.fsum(got)
            if ref_zero:
                if not res.is_zero_dist:
                    out.fail("marginalize:is_zero_dist:%s" % ocls, "marginal of the zero distribution is not flagged zero")
            elif not abs(s - 1) <= TOL:
                out.fail("marginalize:not-normalised:%s" % ocls, "shape %r keep %r: sum %r" % (shape, keep, s))
            if is_sorted:
                marg_lib[keep] = res

    # ---- conditionalize: every subset of conditioned variables x every assignment
    npos = nzero = 0
    for r in range(0, k + 1):
        for cond in itertools.combinations(range(k), r):
            rest = tuple(i for i in range(k) if i not in cond)
            rshape = tuple(shape[i] for i in rest)
            cshape = tuple(shape[i] for i in cond)
            ccls = "%s:nvars=%d:ncond=%d:%s" % (kind, k, r, shape_class(shape))
            pm = ref_marginal(ref, cond)
            mlib = marg_lib.get(cond)
            for vals in multis(cshape):
                nel += 1
                ok, res = A.call(dist.conditionalize, list(cond), list(vals))
                out.ops += 1
                if r == k:
                    # zero remaining variables: not representable (shape ()); record only
                    out.count("degenerate_conditional_raises" if not ok else "degenerate_conditional_returns")
                    continue
                pc = pm[vals]
                if pc == 0.0:
                    nzero += 1
                    if ok:
                        out.fail("conditionalize:zero-probability-event-not-rejected:%s" % ccls,
                                 "shape %r kind %s: conditioning on variables %r = %r (probability 0) returned ps %r"
                                 % (shape, kind, cond, vals, lib_flat(res)[:8]))
                    else:
                        out.count("cond_zero_event_raises")
                    continue
                npos += 1
                if not ok:
                    out.fail("conditionalize:raises:%s" % ccls, "shape %r kind %s: variables %r = %r (probability %r): %s"
                             % (shape, kind, cond, vals, pc, A.fmt_exc(res)))
                    continue
                out.count("cond_positive")
                out.traces += 1
                got_shape = ishape(res.shape)
                got = lib_flat(res)
                hs.add(got)
                want = []
                for rm in multis(rshape):
                    full = [0] * k
                    for i, v in zip(cond, vals):
                        full[i] = v
                    for i, v in zip(rest, rm):
                        full[i] = v
                    want.append(ref[tuple(full)] / pc)
                if got_shape != rshape:
                    out.fail("conditionalize:shape:%s" % ccls, "shape %r cond %r=%r: shape %r, expected %r" % (shape, cond, vals, got_shape, rshape))
                    continue
                if not close_list(got, want):
                    what = "layout" if close_list(sorted(got), sorted(want)) else (
                        "not-renormalised" if close_list([g / max(math.fsum(got), 1e-300) for g in got], want) else "values")
                    out.fail("conditionalize:%s:%s" % (what, ccls), "shape %r kind %s cond %r=%r: got %r expected %r"
                             % (shape, kind, cond, vals, got[:12], want[:12]))
                    continue
                if not abs(math.fsum(got) - 1) <= TOL:
                    out.fail("conditionalize:not-normalised:%s" % ccls, "shape %r cond %r=%r: sum %r" % (shape, cond, vals, math.fsum(got)))
                # joint = marginal x conditional, through the indexed accessors of the library's own results
                if r == 0:
                    pmv = 1.0
                elif mlib is None:
                    continue        # the marginal already failed above
                else:
                    pmv = mlib[vals]
                for rm in multis(rshape):
                    full = [0] * k
                    for i, v in zip(cond, vals):
                        full[i] = v
                    for i, v in zip(rest, rm):
                        full[i] = v
                    j = dist[tuple(full)]
                    c = res[rm]
                    out.ops += 2
                    if not abs(j - pmv * c) <= TOL:
                        out.fail("joint-identity:marginal-x-conditional:%s" % ccls,
                                 "shape %r kind %s: p%r = %r but marginal%r[%r] x conditional[%r] = %r x %r"
                                 % (shape, kind, tuple(full), j, cond, vals, rm, pmv, c))
                        break
                    out.count("joint_identity_terms")
                    if len(set(shape)) > 1:
                        out.count("joint_unequal_shapes")
                # the order in which the conditioned variables are listed must not matter
                if r >= 2:
                    ok2, res2 = A.call(dist.conditionalize, list(reversed(cond)), list(reversed(vals)))
                    out.ops += 1
                    nel += 1
                    if not ok2:
                        out.fail("conditionalize:raises:reordered-arguments:%s" % ccls, A.fmt_exc(res2))
                    elif ishape(res2.shape) != rshape or not close_list(lib_flat(res2), want):
                        out.fail("conditionalize:reordered-arguments:%s" % ccls, "shape %r cond %r=%r listed in reverse order gives %r %r"
                                 % (shape, cond, vals, res2.shape, lib_flat(res2)[:12]))
                    else:
                        out.count("cond_reordered")
    inner(out, nel - 1, (nel - 1) if n > 1 else 0)
    out.nontrivial = n > 1
    out.outcome = "%s:%s:zero-events=%s" % ("ok" if not out.fails else "fail", kind, "yes" if nzero else "no")
    out.digest = hs.hex()
    return out


# ------------------------------------------------------------------------------------------------ validate_prob_dist

BASES = {1: [1.0], 2: [0.5, 0.5], 3: [0.5, 0.25, 0.25], 4: [0.5, 0.25, 0.125, 0.125], 5: [0.25, 0.25, 0.25, 0.125, 0.125]}
LADDER = (0.0, 0.01, 0.1, 10.0, 100.0)


def ex_validate(p, seed):
    from quara.math.probability import validate_prob_dist
    out = Out()
    eps = None if p["eps"] == "none" else float(p["eps"])
    e = EPS_DEFAULT if eps is None else eps
    n = p["n"]
    base = BASES[n]
    nel = 0

    def run(vec, **kw):
        buf = io.StringIO()
        with contextlib.redirect_stdout(buf):
            ok, val = A.call(validate_prob_dist, np.array(vec, dtype=np.float64), eps, **kw)
        return ok, val, buf.getvalue()

    def expect(vec, want, what, **kw):
        """want: 'accept' | 'reject' | None (record only)"""
        nonlocal nel
        nel += 1
        ok, val, txt = run(vec, **kw)
        out.ops += 1
        out.traces += 1
        tag = "%s:eps=%s" % (what, p["eps"])
        if want == "accept":
            if not ok:
                out.fail("validate_prob_dist:rejected-valid:%s" % tag, "vec %r kw %r: %s" % (vec, kw, A.fmt_exc(val)))
            elif txt:
                out.fail("validate_prob_dist:warns-on-valid:%s" % tag, "vec %r kw %r: printed %r" % (vec, kw, txt[:100]))
            else:
                out.count("val_accept")
        elif want == "reject":
            if kw.get("raise_error", True):
                if ok:
                    out.fail("validate_prob_dist:accepted-invalid:%s" % tag, "vec %r kw %r" % (vec, kw))
                elif not isinstance(val, ValueError):
                    out.fail("validate_prob_dist:wrong-exception:%s" % tag, A.fmt_exc(val))
                else:
                    out.count("val_reject_" + ("negative" if what.startswith("negative") else "sum"))
            else:
                if not ok:
                    out.fail("validate_prob_dist:raises-despite-raise_error-false:%s" % tag, A.fmt_exc(val))
                elif "Warning" not in txt:
                    out.fail("validate_prob_dist:no-warning-on-invalid:%s" % tag, "vec %r kw %r" % (vec, kw))
                else:
                    out.count("val_warning_only")
        else:
            out.count("val_band_" + ("accepted" if ok else "rejected"))

    for pos in range(n):
        for mult in LADDER:
            for sign in ((1,) if mult == 0 else (1, -1)):
                delta = sign * mult * e
                vec = list(base)
                vec[pos] += delta
                if vec[pos] < 0:
                    continue
                far = mult >= 10
                expect(vec, "reject" if far else "accept", "sum-defect")
                expect(vec, "accept", "sum-not-validated", validate_sum=False)
                expect(vec, "reject" if far else "accept", "sum-defect-warning", raise_error=False)
        # negative entries (the sum is kept at 1 by the neighbour so that only the sign matters)
        if n >= 2:
            for mult in (0.01, 0.1, 10.0, 100.0):
                vec = list(base)
                other = (pos + 1) % n
                vec[other] += vec[pos] + mult * e
                vec[pos] = -mult * e
                want = "reject" if mult >= 10 else None
                expect(vec, want, "negative-entry")
                expect(vec, want, "negative-entry-sum-not-validated", validate_sum=False)
                if want:
                    expect(vec, want, "negative-entry-warning", raise_error=False)
    inner(out, nel - 1)
    out.outcome = "ok" if not out.fails else "fail"
    return out


# ------------------------------------------------------------------------------------------------ ensembles

_POOL = {}
MS = (2, 3, 4)


def instrument_names(tag):
    d = {"Q1": 2, "Q3": 3, "Q2": 4}[tag]
    names = []
    for m in MS:
        for kind in ("luders", "feedback", "multikraus"):
            names.append("%s_m%d" % (kind, m))
            if m == 4:
                names.append("%s_m%d@2x2" % (kind, m))
    names.append("comp_m%d" % d)
    if d == 4:
        names.append("comp_m4@2x2")
    return names


def pool(tag, seed):
    key = (tag, seed)
    if key in _POOL:
        return _POOL[key]
    from quara.objects.mprocess import MProcess
    c = A.make_system(tag)
    d = c.dim
    ins = A.instruments_ref(d, seed, ms=MS)
    instr = {}
    for name in instrument_names(tag):
        basename, _, shp = name.partition("@")
        inst = ins[basename]
        if shp:
            q = MProcess(c, [A.hs_of_kraus(c, ks) for ks in inst], shape=(2, 2))
            instr[name] = (inst, (2, 2), q)
        else:
            instr[name] = (inst, (len(inst),), A.q_mprocess(c, inst))
    st = A.states_ref(d, seed)
    states = {nm: (rho, A.q_state(c, rho)) for nm, rho in st.items()}
    pv = A.povms_ref(d, seed)
    povms = {nm: (pv[nm], A.q_povm(c, pv[nm])) for nm in ("generic_m2", "generic_m3")}
    _POOL[key] = (c, instr, states, povms)
    return _POOL[key]


def conditioning(pref):
    """(smallest positive conditional probability p(x_k | x_1..x_{k-1}) along the chain,
    whether some prefix probability lies in (0, 1e-6), i.e. near the truncation threshold)"""
    pref = np.asarray(pref, dtype=float)
    L = pref.ndim
    prefix = [pref.sum(axis=tuple(range(k, L))) if k < L else pref for k in range(1, L + 1)]
    min_cond, tiny = 1.0, False
    prev = None
    for pk in prefix:
        for idx in np.ndindex(*pk.shape):
            v = float(pk[idx])
            if 0.0 < v < 1e-6:
                tiny = True
            parent = 1.0 if prev is None else float(prev[idx[:-1]])
            if v > 1e-300 and parent > 1e-300:
                min_cond = min(min_cond, v / parent)
        prev = pk
    return max(min_cond, 1e-12), tiny


def ex_ensemble(p, seed):
    from quara.objects.operators import compose_qoperations
    from quara.objects.state_ensemble import StateEnsemble
    from quara.objects.multinomial_distribution import MultinomialDistribution as MD
    out = Out()
    c, instr, states, povms = pool(p["sys"], seed)
    seq = p["seq"]
    insts = [instr[nm] for nm in seq]
    shapes = [x[1] for x in insts]
    counts = [len(x[0]) for x in insts]
    L = len(seq)
    time_shape = tuple(s for sh in shapes for s in sh)
    rev_shape = tuple(s for sh in reversed(shapes) for s in sh)
    where = "mprocess_on_state" if L == 1 else "mprocess_on_ensemble"
    cls = "%s:%s:%s" % (p["sys"], "len=%d" % L, "counts-unequal" if len(set(time_shape)) > 1 else "counts-equal")
    hs = Hasher()
    nel = 0
    out.count("ens_once" if L == 1 else "ens_twice" if L == 2 else "ens_thrice")
    if len(set(counts)) > 1:
        out.count("ens_unequal_counts")
    if any(len(sh) > 1 for sh in shapes):
        out.count("ens_multidim_instrument")

    def key_of(multi, order):
        """multi-index of the ensemble (layout `order` = 'time' or 'reverse') -> time-ordered tuple of per-instrument serials"""
        shs = shapes if order == "time" else list(reversed(shapes))
        pos, ser = 0, []
        for sh in shs:
            sub = multi[pos:pos + len(sh)]
            pos += len(sh)
            ser.append(R.row_major_index(sub, sh))
        return tuple(ser) if order == "time" else tuple(reversed(ser))

    for sname, (rho, qs) in states.items():
        nel += 1
        ops = [("mprocess", inst[0]) for inst in insts]
        pref, branches = R.run_chain(rho, ops)
        # the library call: m_L o ( ... o (m_1 o state))
        min_cond, tiny = conditioning(pref)
        tolp = TOL if not tiny else 1e-7
        tols = TOL_STATE + 1e-13 / min_cond
        cur = qs
        failed = False
        for inst in insts:
            ok, cur = A.call(compose_qoperations, inst[2], cur)
            out.ops += 1
            if not ok:
                if isinstance(cur, ValueError) and "not physically correct" in str(cur) and min_cond < 1e-2:
                    # the library divides by a small conditional probability and then validates the quotient at its
                    # absolute atol: a numerical-conditioning matter of composition (C06), not of the bookkeeping
                    out.count("ens_illconditioned_physicality_rejection")
                else:
                    out.fail("compose:%s:raises:%s" % (where, cls), "state %s seq %r: %s" % (sname, seq, A.fmt_exc(cur)))
                failed = True
                break
        if failed:
            continue
        ens = cur
        if type(ens) is not StateEnsemble or type(ens.prob_dist) is not MD:
            out.fail("compose:%s:type:%s" % (where, cls), "got %r" % (type(ens),))
            continue
        out.traces += 1
        got_shape = ishape(ens.prob_dist.shape)
        ntot = prod(time_shape)
        if got_shape not in (time_shape, rev_shape):
            out.fail("compose:%s:shape:%s" % (where, cls), "state %s seq %r: prob_dist.shape %r, instruments (time order) %r"
                     % (sname, seq, got_shape, shapes))
            continue
        if len(ens.states) != ntot or len(lib_flat(ens.prob_dist)) != ntot:
            out.fail("compose:%s:length:%s" % (where, cls), "%d states, %d probabilities, shape %r" % (
                len(ens.states), len(lib_flat(ens.prob_dist)), got_shape))
            continue
        hs.add(lib_flat(ens.prob_dist))
        cands = [o for o, sh in (("time", time_shape), ("reverse", rev_shape)) if sh == got_shape]
        if L == 1:
            cands = ["time"]
        okP, okS, detail = [], [], {}
        for order in cands:
            pgood = sgood = True
            ncmp = 0
            for serial, multi in enumerate(multis(got_shape)):
                key = key_of(multi, order)
                pr = float(pref[key])
                ok1, pg = A.call(ens.prob_dist.__getitem__, multi)
                ok2, sg = A.call(ens.state, multi)
                ok3, pi = A.call(ens.prob_dist.__getitem__, serial)
                ok4, si = A.call(ens.state, serial)
                out.ops += 4
                if not (ok1 and ok2 and ok3 and ok4):
                    out.fail("StateEnsemble:indexed-accessor-raises:%s" % cls, "outcome %r / %d: %r" % (
                        multi, serial, [A.fmt_exc(x) for o_, x in ((ok1, pg), (ok2, sg), (ok3, pi), (ok4, si)) if not o_]))
                    pgood = sgood = False
                    break
                if si is not sg or not pi == pg:
                    out.fail("StateEnsemble:int-and-tuple-access-differ:%s" % cls, "state %s seq %r outcome %r / serial %d"
                             % (sname, seq, multi, serial))
                out.count("ens_int_access")
                if pr <= EPS_DEFAULT / 10:
                    if pg != 0.0:
                        pgood = False
                        detail.setdefault(order + ":p", (multi, pg, pr))
                    out.count("ens_zero_prob_outcome")
                    continue
                if pr < 10 * EPS_DEFAULT:
                    # inside the threshold band: truncated to 0 or kept
                    if not (pg == 0.0 or abs(pg - pr) <= tolp):
                        pgood = False
                        detail.setdefault(order + ":p", (multi, pg, pr))
                    continue
                if not abs(pg - pr) <= tolp:
                    pgood = False
                    detail.setdefault(order + ":p", (multi, pg, pr))
                if pr >= 1e-7:
                    want = branches[key] / pr
                    gotm = A.rho_of(sg)
                    ncmp += 1
                    if not np.abs(gotm - want).max() <= tols:
                        sgood = False
                        detail.setdefault(order + ":s", (multi, float(np.abs(gotm - want).max())))
            if pgood:
                okP.append(order)
            if sgood:
                okS.append(order)
            if pgood and sgood:
                out.count("ens_states_compared", ncmp)
                out.count("ens_layout_" + order)
        common = [o for o in okP if o in okS]
        if not common:
            if okP and okS:
                what = "states-and-probabilities-use-different-layouts"
            elif okP:
                what = "states-do-not-match-outcomes"
            elif okS:
                what = "probabilities-do-not-match-outcomes"
            else:
                what = "states-and-probabilities-wrong"
            out.fail("compose:%s:%s:%s" % (where, what, cls),
                     "state %s seq %r shape %r: layouts matching probabilities %r, matching states %r; first mismatches %r"
                     % (sname, seq, got_shape, okP, okS, detail))
            continue
        layout = common[0]

        # ---- a POVM on the ensemble: joint distribution over (ensemble outcomes, POVM outcome)
        nv = len(got_shape)
        for pname, (Ms, qp) in povms.items():
            nel += 1
            ok, joint = A.call(compose_qoperations, qp, ens)
            out.ops += 1
            pcls = "%s:povm=%s" % (cls, pname)
            if not ok:
                out.fail("compose:povm_on_ensemble:raises:%s" % pcls, "state %s seq %r: %s" % (sname, seq, A.fmt_exc(joint)))
                continue
            if type(joint) is not MD:
                out.fail("compose:povm_on_ensemble:type:%s" % pcls, "got %r" % (type(joint),))
                continue
            out.traces += 1
            my = len(Ms)
            if ishape(joint.shape) != got_shape + (my,):
                out.fail("compose:povm_on_ensemble:shape:%s" % pcls, "ensemble shape %r, POVM outcomes %d, joint shape %r"
                         % (got_shape, my, joint.shape))
                continue
            hs.add(lib_flat(joint))
            bad = None
            for multi in multis(got_shape):
                key = key_of(multi, layout)
                for y in range(my):
                    want = float(np.trace(Ms[y] @ branches[key]).real)
                    g = joint[multi + (y,)]
                    out.ops += 1
                    if not abs(g - want) <= max(1e-9, 3 * tolp):
                        bad = bad or (multi, y, g, want)
            if bad:
                out.fail("compose:povm_on_ensemble:joint-values:%s" % pcls, "state %s seq %r: joint%r = %r, reference %r"
                         % (sname, seq, bad[0] + (bad[1],), bad[2], bad[3]))
                continue
            out.count("ens_povm_joint")
            # marginal over the POVM outcome = the ensemble's distribution
            okm, mg = A.call(joint.marginalize, list(range(nv)))
            out.ops += 1
            if not okm:
                out.fail("compose:povm_on_ensemble:marginalize-raises:%s" % pcls, A.fmt_exc(mg))
            elif ishape(mg.shape) != got_shape or not close_list(lib_flat(mg), lib_flat(ens.prob_dist), max(1e-9, 3 * tolp)):
                out.fail("compose:povm_on_ensemble:marginal-is-not-ensemble-distribution:%s" % pcls,
                         "marginal %r %r, ensemble %r %r" % (mg.shape, lib_flat(mg)[:8], got_shape, lib_flat(ens.prob_dist)[:8]))
            # conditional on the ensemble outcome = Born probabilities of state(outcome)
            for multi in multis(got_shape):
                pr = float(pref[key_of(multi, layout)])
                okc, cd = A.call(joint.conditionalize, list(range(nv)), list(multi))
                out.ops += 1
                if pr <= EPS_DEFAULT / 10:
                    if okc:
                        out.fail("compose:povm_on_ensemble:zero-probability-outcome-conditional-not-rejected:%s" % pcls,
                                 "outcome %r has probability 0 but the conditional is %r" % (multi, lib_flat(cd)))
                    continue
                if pr < 1e-7:
                    continue
                if not okc:
                    out.fail("compose:povm_on_ensemble:conditionalize-raises:%s" % pcls, "outcome %r (p=%r): %s" % (multi, pr, A.fmt_exc(cd)))
                    continue
                rho_x = A.rho_of(ens.state(multi))
                want = [float(np.trace(M @ rho_x).real) for M in Ms]
                if ishape(cd.shape) != (my,) or not close_list(lib_flat(cd), want, 1e-8):
                    out.fail("compose:povm_on_ensemble:conditional-is-not-born-of-state(outcome):%s" % pcls,
                             "state %s seq %r outcome %r: conditional %r, Born rule on ensemble.state(outcome) %r"
                             % (sname, seq, multi, lib_flat(cd), want))
                else:
                    out.count("ens_povm_conditional")
    inner(out, nel - 1)
    out.outcome = "ok" if not out.fails else "fail"
    out.digest = hs.hex()
    return out
