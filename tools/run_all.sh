#!/bin/bash
# usage: run_all.sh [props...]  - runs the quick (or $TIER) check of each property, prints one summary line each
cd /verif
PROPS="${@:-$(/venv/bin/python -c "import json;print(' '.join(c['property_id'] for c in json.load(open('MANIFEST.json'))['checks']))")}"
for P in $PROPS; do
  s=$(date +%s)
  ./check $P --tier "${TIER:-quick}" > /tmp/runall.${TAG:-q}.$P.log 2>&1; rc=$?
  e=$(date +%s)
  echo "$P exit=$rc wall=$((e-s))s known=$(grep -c '^KNOWN-FINDING' /tmp/runall.${TAG:-q}.$P.log) viol=$(grep -c '^VIOLATION' /tmp/runall.${TAG:-q}.$P.log) :: $(tail -1 /tmp/runall.${TAG:-q}.$P.log | cut -c1-160)"
done
