"""C11 reference side: tomography configurations (testers as reference matrices), the Born-rule forward model in the
isometric frame of mc/frames.py, enumerated datasets, reference losses / gradients computed from the forward model read
as data (calc_matA / calc_vecB), KKT gap bound of a constrained minimiser, competitor lists.
No quara loss object, projection or conversion is called here; quara is used only to build testers / tomography objects
through public constructors."""
import itertools
import math

import numpy as np

from mc import alphabet as A, refmodel as R
from mc.core import HarnessError
from mc.frames import frame
from mc.props import c05

EPS_Q = 1e-10        # documented clipping parameters of the relative entropy (quara.math.entropy)
EPS_P = 1e-10
GAMMA = 0.3          # documented default of the backtracking option

_SETUP = {}


# ---------------------------------------------------------------- configurations

CFGS = {
    "qst:Q1": ("state", "Q1", None),
    "povmt:Q1:m=2": ("povm", "Q1", 2),
    "povmt:Q1:m=3": ("povm", "Q1", 3),
    "qpt:Q1": ("gate", "Q1", None),
    "qst:Q3": ("state", "Q3", None),
}


def _proj(v):
    v = np.asarray(v, dtype=np.complex128)
    v = v / np.linalg.norm(v)
    return np.outer(v, v.conj())


def tester_povms_ref(d, seed):
    """informationally complete set of projective measurements in bases rotated by the seed's generic unitary"""
    U = R.generic_unitary(d, seed, salt=2)
    if d == 2:
        s = 1 / math.sqrt(2)
        bases = [np.array([[s, s], [s, -s]]), np.array([[s, s], [1j * s, -1j * s]]), np.eye(2)]
    elif d == 3:
        w = np.exp(2j * math.pi / 3)
        Fm = R.fourier_unitary(3)
        bases = [np.eye(3), Fm, np.diag([1, w, w]) @ Fm, np.diag([1, w * w, w * w]) @ Fm]
    else:
        raise ValueError(d)
    out = []
    for Bs in bases:
        V = U @ np.asarray(Bs, dtype=np.complex128)
        out.append([_proj(V[:, k]) for k in range(d)])
    return out


def tester_states_ref(d, seed):
    U = R.generic_unitary(d, seed, salt=4)
    s = 1 / math.sqrt(2)
    kets = [[1, 0], [0, 1], [s, s], [s, 1j * s]]
    return [_proj(U @ np.array(k, dtype=np.complex128)) for k in kets]


class Setup:
    pass


def setup(cfg, seed):
    key = (cfg, seed)
    if key in _SETUP:
        return _SETUP[key]
    from quara.protocol.qtomography.standard.standard_qst import StandardQst
    from quara.protocol.qtomography.standard.standard_povmt import StandardPovmt
    from quara.protocol.qtomography.standard.standard_qpt import StandardQpt
    kind, systag, m = CFGS[cfg]
    F = frame(kind, systag, m)
    c = F.c_sys
    d = F.d
    S = Setup()
    S.cfg, S.kind, S.F, S.d, S.m = cfg, kind, F, d, m
    rows = []
    sizes = []
    if kind == "state":
        povms = tester_povms_ref(d, seed)
        for Ms in povms:
            sizes.append(len(Ms))
            for M in Ms:
                rows.append(F.from_blocks([M]))
        mk = lambda flag: StandardQst([A.q_povm(c, Ms) for Ms in povms], on_para_eq_constraint=flag, schedules="all")
    elif kind == "povm":
        states = tester_states_ref(d, seed)
        Z = np.zeros((d, d), dtype=np.complex128)
        for rho in states:
            sizes.append(m)
            for j in range(m):
                rows.append(F.from_blocks([rho if k == j else Z for k in range(m)]))
        mk = lambda flag: StandardPovmt([A.q_state(c, r) for r in states], m, on_para_eq_constraint=flag, schedules="all")
    elif kind == "gate":
        states = tester_states_ref(d, seed)
        povms = tester_povms_ref(d, seed)
        for rho in states:
            for Ms in povms:
                sizes.append(len(Ms))
                for M in Ms:
                    rows.append(F.from_blocks([np.kron(M, rho.T)]))
        mk = lambda flag: StandardQpt([A.q_state(c, r) for r in states], [A.q_povm(c, Ms) for Ms in povms],
                                      on_para_eq_constraint=flag, schedules="all")
    else:
        raise ValueError(kind)
    S.G = np.array(rows)                  # Born rule: p = G @ stacked
    S.sizes = sizes
    S.nsched = len(sizes)
    S.offsets = np.concatenate([[0], np.cumsum(sizes)])
    S.mk = mk
    S.qt = {}
    S.AB = {}
    S.trace_bound = float(d) if kind != "state" else 1.0
    # affine embedding of the reduced variables: stacked = s0 + E v
    S.emb = {}
    for flag in (False, True):
        nv = F.num_var(flag)
        s0 = F.stacked_from_var(np.zeros(nv), flag)
        E = np.array([F.stacked_from_var(e, flag) - s0 for e in np.eye(nv)]).T
        S.emb[flag] = (s0, E)
    # reference origin object (start point of the algorithms)
    if kind == "state":
        S.origin = F.from_blocks([np.eye(d) / d])
    elif kind == "povm":
        S.origin = F.from_blocks([np.eye(d) / m] * m)
    else:
        S.origin = F.from_blocks([np.eye(d * d) / d])
    S.phys = c05.physical_points(F, seed)
    for n, x in S.phys.items():
        if F.eq_defect(x) > 1e-10 or F.min_eig(x) < -1e-10:
            raise HarnessError("alphabet object %s of %s is not physical" % (n, cfg))
    if np.linalg.matrix_rank(S.G @ S.emb[True][1]) != F.num_var(True):
        raise HarnessError("tester set of %s is not informationally complete" % cfg)
    _SETUP[key] = S
    return S


def qt_of(S, flag):
    """quara tomography object and its forward model read as data"""
    if flag not in S.qt:
        qt = S.mk(flag)
        S.qt[flag] = qt
        S.AB[flag] = (np.array(qt.calc_matA(), dtype=float), np.array(qt.calc_vecB(), dtype=float).ravel())
    return S.qt[flag], S.AB[flag]


# ---------------------------------------------------------------- datasets

def truths(S, tier):
    names = list(S.phys)
    return names


def core_truths(S):
    """(boundary truth, interior truth)"""
    if S.kind == "state":
        return "pure_generic", "mixed_generic"
    if S.kind == "povm":
        return ("projective_m2", "generic_m2") if S.m == 2 else ("rank1_m3", "generic_m3")
    return "unitary_generic", "depolarizing"


def apportion(w, N):
    """largest-remainder rounding of N*w (w a probability vector) to integer counts summing to N"""
    w = np.clip(np.asarray(w, float), 0, None)
    w = w / w.sum()
    base = np.floor(N * w + 1e-12).astype(int)
    rem = N * w - base
    k = int(N - base.sum())
    order = sorted(range(len(w)), key=lambda i: (-rem[i], i))
    for i in order[:k]:
        base[i] += 1
    return base


def shots_dataset(S, truth, N, seed):
    """deterministic 'typical' N-shot data: exact probabilities displaced by one standard deviation times a fixed
    irrational-angle pattern, rounded to counts (no sampling)"""
    p = S.G @ S.phys[truth]
    a = R.angles(seed, len(p), salt=11)
    qs = []
    for i in range(S.nsched):
        sl = slice(S.offsets[i], S.offsets[i + 1])
        pi = np.clip(p[sl], 0, 1)
        bump = np.array([math.cos(3 * a[k] + 0.7 * k + 0.1 * math.log10(N)) for k in range(sl.start, sl.stop)])
        bump = bump - bump.mean()
        w = pi + bump * np.sqrt(np.clip(pi * (1 - pi), 0, None) / N + 0.25 / (N * N))
        cnt = apportion(np.clip(w, 0, None) + 1e-15, N)
        qs.append(cnt / float(N))
    return qs


def tables(S, N, max_weight=None):
    """all count tables with N shots per schedule (optionally: at most max_weight schedules differ from (N,0,..,0))"""
    per = []
    for i in range(S.nsched):
        per.append(list(R.compositions(N, S.sizes[i])))
    out = []
    for combo in itertools.product(*[range(len(pp)) for pp in per]):
        tab = [per[i][j] for i, j in enumerate(combo)]
        if max_weight is not None:
            wgt = sum(1 for i, t in enumerate(tab) if t[0] != N)
            if wgt > max_weight:
                continue
        out.append(tab)
    return out


def dataset(S, name, seed):
    """name -> (N, [q_i])"""
    parts = name.split("|")
    if parts[0] == "exact":
        p = S.G @ S.phys[parts[1]]
        return 1000, [np.clip(p[S.offsets[i]:S.offsets[i + 1]], 0, None) for i in range(S.nsched)]
    if parts[0] == "shots":
        N = int(parts[2])
        return N, shots_dataset(S, parts[1], N, seed)
    if parts[0] == "table":
        N = int(parts[1])
        flat = [int(t) for t in parts[2].split(",")]
        qs = []
        k = 0
        for i in range(S.nsched):
            qs.append(np.array(flat[k:k + S.sizes[i]], float) / N)
            k += S.sizes[i]
        return N, qs
    raise ValueError(name)


def table_name(N, tab):
    return "table|%d|%s" % (N, ",".join(str(c) for t in tab for c in t))


# ---------------------------------------------------------------- reference losses

class Loss:
    """f(v) for v in the variable space of (A, B); kind 'se' = sum (p-q)^2, 're' = sum q log(q/p) with the documented
    clipping (terms with q < 1e-10 dropped, p replaced by max(p, 1e-10))"""

    def __init__(self, kind, Am, Bv, q):
        self.kind, self.A, self.B, self.q = kind, Am, Bv, np.asarray(q, float)
        self.mask = self.q >= EPS_Q
        self.qlogq = float(np.sum(self.q[self.mask] * np.log(self.q[self.mask])))

    def p(self, v):
        return self.A @ v + self.B

    def value(self, v):
        p = self.p(v)
        if self.kind == "se":
            r = p - self.q
            return float(r @ r)
        pc = np.where(p > EPS_P, p, EPS_P)
        ratio = self.q[self.mask] / pc[self.mask]
        ratio = np.where(ratio > EPS_P, ratio, EPS_P)
        return float(np.sum(self.q[self.mask] * np.log(ratio)))

    def grad(self, v):
        p = self.p(v)
        if self.kind == "se":
            return 2 * self.A.T @ (p - self.q)
        pc = np.where(p > EPS_P, p, EPS_P)
        return -self.A.T @ (np.where(self.mask, self.q, 0.0) / pc)

    def clip_margin(self, v):
        """smallest model probability among the outcomes that carry data (relative entropy only)"""
        if self.kind == "se":
            return 1.0
        p = self.p(v)
        return float(p[self.mask].min()) if self.mask.any() else 1.0

    def strong_convexity(self):
        """a global modulus sigma with f(w) >= f(x*) + sigma/2 |w - x*|^2 on the feasible set (p <= 1)"""
        if self.kind == "se":
            H = 2 * self.A.T @ self.A
        else:
            H = self.A.T @ (np.where(self.mask, self.q, 0.0)[:, None] * self.A)
        return float(np.linalg.eigvalsh((H + H.T) / 2).min())


# ---------------------------------------------------------------- optimality certificate

def gap_bound(S, flag, v, g, grad_embed=None):
    """KKT certificate of 'v minimises f over the physical set' (DESIGN section 3: nearest-point certificate with
    x0 - x* replaced by -grad f).  Returns (bound on f(v) - min f for an exactly feasible v, certificate dict).
    The stacked gradient is g on the kept coordinates and 0 on the implied ones (any other choice differs by an
    element of range(C^T), which the multiplier absorbs)."""
    F = S.F
    xs = F.stacked_from_var(v, flag)
    if grad_embed is None:
        if flag:
            Gs = np.zeros(F.n)
            keep = np.setdiff1d(np.arange(F.n), F.dropped_indices())
            Gs[keep] = g
        else:
            Gs = np.asarray(g, float)
    else:
        Gs = grad_embed
    c = R.nearest_point_certificate(xs - Gs, xs, F.to_blocks, F.from_blocks, F.C, F.b)
    y = c["y"]
    bound = c["slack"] + max(0.0, -c["dual_min_eig"]) * S.trace_bound + float(np.abs(y).sum()) * c["eq_res"]
    return float(bound), c


def competitors(S, truth=None):
    """physical competitor points (stacked): origin, every alphabet object"""
    out = {"origin": S.origin}
    for n, x in S.phys.items():
        out["alphabet:" + n] = x
    if truth is not None:
        out["truth"] = S.phys[truth]
    return out


def projected_linear(S, q):
    """reference projected-linear estimate: least-squares solution of G x = q on the affine set, then the certified
    nearest physical point"""
    F = S.F
    s0, E = S.emb[True]
    v, *_ = np.linalg.lstsq(S.G @ E, q - S.G @ s0, rcond=None)
    x_lin = s0 + E @ v
    key = ("c11-plin", S.cfg, A.digest(x_lin))
    xs, good, cert = c05.ref_projection(F, x_lin, key)
    c05._REF.pop(key, None)
    if not good:
        return None
    return xs


def ref_project_var(S, flag, z):
    """reference projection of a variable vector: stacked form -> certified nearest physical point -> variables"""
    F = S.F
    zs = F.stacked_from_var(z, flag)
    key = ("c11-step", S.cfg, flag, A.digest(zs))
    xs, good, cert = c05.ref_projection(F, zs, key)
    c05._REF.pop(key, None)
    return F.var_from_stacked(xs, flag), good, cert


# ---------------------------------------------------------------- independent convex solve (own formulation)

def psd_constraints(F, x):
    import cvxpy as cp
    cons = [F.C @ x == F.b]
    M = F.Bm if F.kind in ("state", "povm") else F.T
    nb = F.nblocks()
    per = F.n // nb
    bd = F.block_dim()
    for k in range(nb):
        Hre = cp.reshape(x[k * per:(k + 1) * per] @ M.real, (bd, bd), order="C")
        Him = cp.reshape(x[k * per:(k + 1) * per] @ M.imag, (bd, bd), order="C")
        cons.append(cp.bmat([[Hre, -Him], [Him, Hre]]) >> 0)
    return cons


def independent_solve(S, kind, q, solver="CLARABEL", tight=True):
    """min f over the physical set in the stacked frame with the Born-rule matrix G; returns the certified-feasible
    polished point (reference projection of the solver output) or None"""
    import cvxpy as cp
    F = S.F
    x = cp.Variable(F.n)
    p = S.G @ x
    q = np.asarray(q, float)
    if kind == "se":
        obj = cp.sum_squares(p - q)
    else:
        idx = np.where(q >= EPS_Q)[0]
        obj = -cp.sum(cp.multiply(q[idx], cp.log(p[idx])))
    prob = cp.Problem(cp.Minimize(obj), psd_constraints(F, x))
    try:
        if solver == "CLARABEL":
            t = 1e-13 if tight else 1e-10
            prob.solve(solver=cp.CLARABEL, tol_gap_abs=t, tol_gap_rel=t, tol_feas=t, max_iter=500)
        else:
            prob.solve(solver=cp.SCS, eps=1e-9, max_iters=200000)
    except Exception:
        return None
    if prob.status not in ("optimal", "optimal_inaccurate") or x.value is None:
        return None
    xv = np.asarray(x.value, float)
    key = ("c11-ind", S.cfg, A.digest(xv))
    xs, good, cert = c05.ref_projection(F, xv, key)
    c05._REF.pop(key, None)
    return xs if good else None
