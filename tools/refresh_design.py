#!/usr/bin/env python3
"""re-generates the seed table between the markers in DESIGN.md"""
import subprocess, os, re
here = os.path.dirname(os.path.abspath(__file__))
tab = subprocess.check_output(["python3", os.path.join(here, "seed_table.py")]).decode()
p = os.path.join(here, "..", "DESIGN.md")
s = open(p).read()
s = re.sub(r"<!-- SEED-TABLE-BEGIN -->.*<!-- SEED-TABLE-END -->", "<!-- SEED-TABLE-BEGIN -->\n" + tab + "<!-- SEED-TABLE-END -->", s, flags=re.S)
open(p, "w").write(s)
print("seed table rows:", tab.count("\n") - 2)
