"""Shared helpers of the C17 check: cached systems, fast dense linear algebra written from the textbook
formulas (validated against mc.refmodel in the `selftest` family), comparison helpers."""
import numpy as np

from mc import alphabet as A, refmodel as R
from mc.core import HarnessError

TOL = 1e-9          # exact algebraic identities (entries are O(1))
VTOL = 1e-9         # reference verdicts: catalogue objects are exactly physical, violations would be O(1)

_SYS = {}

DIMS = {"Q1": (2,), "D2,2": (2, 2), "D2,2,2": (2, 2, 2), "Q3": (3,), "D3,3": (3, 3), "D2,3": (2, 3)}


def tag_of_dims(dims):
    dims = tuple(dims)
    for t, d in DIMS.items():
        if d == dims:
            return t
    raise KeyError(dims)


def sysinfo(tag, names=None):
    """cached (c_sys, dense basis list, Bmat [rows = row-major vec of B_a], d) for a system tag"""
    key = (tag, tuple(names) if names else None)
    if key in _SYS:
        return _SYS[key]
    mtag = {"Q1": "Q1", "Q3": "Q3"}.get(tag, tag)
    c = A.make_system(mtag, list(names) if names else None)
    B = R.basis_mats(c)
    Bmat = np.array([b.reshape(-1) for b in B])
    G = Bmat.conj() @ Bmat.T
    if not np.allclose(G, np.eye(len(B)), atol=1e-12):
        raise HarnessError("basis of %s is not orthonormal" % tag)
    d = B[0].shape[0]
    _SYS[key] = (c, B, Bmat, d)
    return _SYS[key]


def second_system(tag, names=None):
    """a SECOND composite system of the same shape and names (a distinct instance, built once per process)"""
    key = ("second", tag, tuple(names) if names else None)
    if key not in _SYS:
        mtag = {"Q1": "Q1", "Q3": "Q3"}.get(tag, tag)
        _SYS[key] = A.make_system(mtag, list(names) if names else None)
    return _SYS[key]


def check_bound_system(k, what, obj, c, regen, value_of):
    """the generated object belongs to the system it was requested on, and requesting the same name on a second system of
    the same shape yields an equal object that belongs to THAT system (a memoised object would stay with the first)"""
    k.true(what + ":composite_system-is-the-requested-one", obj.composite_system is c,
           "the object generated for one composite system refers to another CompositeSystem instance")
    ok, c2, obj2 = regen()
    if not ok:
        k.true(what + ":second-system:raises", False, "generating the same name on a second system of the same shape: %s" % A.fmt_exc(obj2))
        return
    k.true(what + ":second-system:composite_system-is-the-requested-one", obj2.composite_system is c2,
           "the same name requested on a second CompositeSystem returns an object bound to %s" % (
               "the first system" if obj2.composite_system is c else "some other system"))
    k.close(what + ":second-system:value", value_of(obj2), value_of(obj))


def coeffs_fast(M, Bmat):
    return Bmat.conj() @ np.asarray(M, dtype=np.complex128).reshape(-1)


def mat_from_coeffs_fast(c, Bmat, d):
    return (np.asarray(c, dtype=np.complex128) @ Bmat).reshape(d, d)


def superop_of_kraus(ks):
    """row-major vec: vec(K X K^+) = (K (x) conj K) vec(X)"""
    return sum(np.kron(K, K.conj()) for K in ks)


def hs_of_kraus_fast(ks, Bmat):
    return Bmat.conj() @ superop_of_kraus(ks) @ Bmat.T


def hs_of_commutator_fast(H, Bmat):
    """HS matrix of X -> -i [H, X]"""
    d = H.shape[0]
    I = np.eye(d)
    S = -1j * (np.kron(H, I) - np.kron(I, H.T))
    return Bmat.conj() @ S @ Bmat.T


def choi_of_hs(hs, Bmat, d):
    """Choi matrix sum_jl G(E_jl) (x) E_jl from an HS matrix w.r.t. an orthonormal basis"""
    S = Bmat.T @ np.asarray(hs, dtype=np.complex128) @ Bmat.conj()
    return S.reshape(d, d, d, d).transpose(0, 2, 1, 3).reshape(d * d, d * d)


def tp_defect_of_choi(Cm, d):
    C4 = Cm.reshape(d, d, d, d)
    return float(np.abs(np.einsum("ijil->jl", C4) - np.eye(d)).max())


def ref_channel_verdict(hs, Bmat, d):
    """(is CP, is TP, min eig of Choi, TP defect) from the reference side"""
    Cm = choi_of_hs(hs, Bmat, d)
    me = R.min_eig(Cm)
    tp = tp_defect_of_choi(Cm, d)
    return me >= -VTOL, tp <= VTOL, me, tp


def ref_state_verdict(rho):
    rho = np.asarray(rho, dtype=np.complex128)
    herm = float(np.abs(rho - rho.conj().T).max())
    return herm <= VTOL and abs(np.trace(rho) - 1) <= VTOL and R.min_eig(rho) >= -VTOL


def ref_povm_verdict(mats):
    d = mats[0].shape[0]
    ok = all(np.abs(M - M.conj().T).max() <= VTOL and R.min_eig(M) >= -VTOL for M in mats)
    return bool(ok and np.abs(sum(mats) - np.eye(d)).max() <= VTOL)


def dist(a, b):
    """max abs difference; inf when shapes differ or the value is not array-like"""
    try:
        a = np.asarray(a, dtype=np.complex128)
        b = np.asarray(b, dtype=np.complex128)
    except Exception:
        return float("inf")
    if a.shape != b.shape:
        return float("inf")
    if a.size == 0:
        return 0.0
    return float(np.abs(a - b).max())


def list_dist(xs, ys):
    try:
        xs, ys = list(xs), list(ys)
    except Exception:
        return float("inf")
    if len(xs) != len(ys):
        return float("inf")
    return max([dist(x, y) for x, y in zip(xs, ys)] + [0.0])


def proportional(U, Uref):
    """|Tr(Uref^+ U)| = d  <=>  U = phase * Uref for unitaries; returns the defect"""
    U = np.asarray(U, dtype=np.complex128)
    if U.shape != Uref.shape:
        return float("inf")
    d = Uref.shape[0]
    return float(abs(abs(np.trace(Uref.conj().T @ U)) - d) + np.abs(U @ U.conj().T - np.eye(d)).max())


def vec_proportional(v, vref):
    v = np.asarray(v, dtype=np.complex128).reshape(-1)
    if v.shape != vref.shape:
        return float("inf")
    return float(abs(abs(np.vdot(vref, v)) - 1) + abs(np.linalg.norm(v) - 1))


class Chk:
    """small wrapper: library call that must yield a value; records failure with a stable signature"""

    def __init__(self, out, prefix):
        self.out = out
        self.prefix = prefix

    def must(self, what, fn, *a, **k):
        ok, val = A.call(fn, *a, **k)
        self.out.ops += 1
        if not ok:
            self.out.fail("%s:%s:raises:%s" % (self.prefix, what, type(val).__name__),
                          "%s must yield an object, got %s" % (what, A.fmt_exc(val)))
            return False, None
        return True, val

    def close(self, what, got, want, tol=TOL, listy=False):
        self.out.traces += 1
        dv = list_dist(got, want) if listy else dist(got, want)
        if not dv <= tol:
            self.out.fail("%s:%s" % (self.prefix, what), "%s differs by %g (tol %g)" % (what, dv, tol))
            return False
        return True

    def true(self, what, cond, msg=""):
        self.out.traces += 1
        if not cond:
            self.out.fail("%s:%s" % (self.prefix, what), msg or what)
            return False
        return True
