# Compatibility shim living in /verif (not in /repo): quara/objects/composite_system.py
# does an unused `from scipy.linalg import kron`, which scipy >= 1.15 no longer has.
# Being a sitecustomize on PYTHONPATH it is inherited by joblib/loky workers too.
try:
    import scipy.linalg as _sl
    if not hasattr(_sl, "kron"):
        import numpy as _np
        _sl.kron = _np.kron
except Exception:  # pragma: no cover
    pass
