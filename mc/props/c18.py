"""C18 Lindbladian generators decompose, recompose and exponentiate correctly.

E1 (product enumeration) + linearity.  The builders generate_*_from_h / _k / _hk / _hjk are linear in
(H, J, K) and the extractors calc_{h,j,k}_mat / calc_*_part are linear in the generator, so both are
decided on complete bases of their argument spaces (plus generic representatives and explicit
additivity / homogeneity); the jump-operator builders are additive over the operators of a set and are
walked over every set of the stated pool.  Verdicts, projections, exponentiation and the var
conversion are walked over the Hermitian alphabet x the violation ladder.

Reference side: GKSL from the textbook definition applied to every element of an operator basis
(hs[a,b] = Tr(B_a^+ L(B_b))), decomposition through the process matrix chi of the map in the basis
{B_a . B_b^+} (no quara conversion is called; basis matrices are read as data only).

Failures that coincide with the prediction of one specific wrong formula get that formula's name in
the signature (e.g. "...:basis-from-1:..." = calc_j_mat enumerating basis[1:], "...:j-part-uses-c-not-cdagc"),
everything else gets ":mismatch", so an independent defect at the same call site stays visible.
"""
import itertools
import math

import numpy as np

from mc import alphabet as A, refmodel as R
from mc.core import Out, inner

ID = "C18"
RULE = ("complete Hermitian bases of the H, J and K argument spaces (d^2, d^2 and 2 (d^2-1)^2 elements) plus generic "
        "representatives for every builder; every set of 1..d^2 jump operators from the stated pool; all d^4 real HS "
        "matrix units plus generic real generators for the extractors; K over the Hermitian alphabet (spectra x "
        "eigenbases) x first-row / negative-eigenvalue violation ladder x 3 tolerances for the verdicts; 4 times x 4 "
        "strengths for the exponentiation; a case (= one chunk of such elements) is non-trivial when its generator is "
        "non-zero; distinct = distinct (system, element) pairs")
ASSUMPTIONS = [
    "numpy/LAPACK (eigvalsh, matmul, einsum) are trusted on the reference side; the reference matrix exponential is the "
    "shared scaling-and-squaring Taylor routine, not scipy",
    "linearity of the builders / extractors is itself checked only on the enumerated generic pairs (additivity, "
    "homogeneity over the 4 strengths); the for-all conclusion over H, J, K and generators rests on it",
    "verdicts are asserted only outside the band (atol/10, 10*atol) around the tolerance",
    "systems: 1 qubit (Pauli), 1 qutrit (Gell-Mann), 2 qubits; thorough adds the generalised Gell-Mann qutrit; d > 4 and other "
    "bases with B_0 = I/sqrt(d) not explored (at d = 6 the library's own 1e-13 truncation of HS entries moves a rank-one K "
    "by about atol, i.e. into the band where no verdict is asserted)",
    "jump operator sets are sets (no repetitions, one order); for 2 qubits only sets of size <= 3 (thorough: 4) plus one nested chain up to 16",
    "calc_proj_ineq_constraint is additionally compared with the documented K' = U max(Lambda,0) U^+ (tutorial), which is more "
    "than 'returns a PSD K'; that comparison has its own signature (k-not-psd-part-of-input)",
    "the statement does not name the var conversion; the family 'var' follows the planned check (round trips) and has its own signatures",
]
BOUNDS = {
    "quick": "systems Q1, Q3, Q2 (1 qubit, 1 qutrit, 2 qubits); all H / J / K / generator bases complete; jump pools of 7 (Q1, every "
             "set of size 1..4), 13 (Q3, every set of size 1..9) and 21 (Q2, every set of size 1..3 + one nested chain of sizes "
             "4..16) operators; K alphabet = all spectra x {id, fourier, generic} eigenbases; 3 tolerances; 4 times x 4 strengths",
    "thorough": "quick + every Q2 jump set of size 4 + system Q3g (qutrit in the generalised Gell-Mann basis, all families complete) "
                "+ 8 instead of 3 generic representatives for the builders / extractors",
}
EXHAUSTIVE = {"quick": True, "thorough": True}
CASE_TIMEOUT = 900

SCALES = (1e-2, 1e-1, 1.0, 1e1)
ATOLS = (None, 1e-9, 1e-5)
MODES = ("hermitian_basis", "comp_basis")
REL = 1e-9
NGEN, NGEN_QUICK = 8, 3     # generic representatives per builder / extractor: the item lists end with NGEN of them, quick walks the first 3


def el():
    import quara.objects.effective_lindbladian as m
    return m


# ------------------------------------------------------------------------------------ reference side

_SYS = {}


def hs_on(action, Xs):
    """matrix of a linear map on operators w.r.t. an orthonormal operator basis: M[a,b] = Tr(X_a^+ action(X_b))"""
    Y = np.array([action(x) for x in Xs])
    return np.einsum("aij,bij->ab", Xs.conj(), Y)


def act_h(H):
    return lambda X: -1j * (H @ X - X @ H)


def act_j(J):
    """the documented anti-commutator part  J (x) I + I (x) conj(J)  acting on row-major vec(X):  X -> J X + X J^+"""
    return lambda X: J @ X + X @ J.conj().T


def act_k(K, Bs1):
    """X -> sum_ab K_ab B_a X B_b^+   over the traceless basis elements"""
    def f(X):
        T = np.einsum("aij,jk->aik", Bs1, X)
        S = np.einsum("ab,aik->bik", K, T)
        return np.einsum("bik,blk->il", S, Bs1.conj())
    return f


def j_of_k(K, Bs1):
    """J = -1/2 sum_ab K_ab B_b^+ B_a"""
    return -0.5 * np.einsum("ab,bji,ajk->ik", K, Bs1.conj(), Bs1)


def act_hjk(H, J, K, Bs1):
    fh, fj, fk = act_h(H), act_j(J), act_k(K, Bs1)
    return lambda X: fh(X) + fj(X) + fk(X)


def action_of(hs, Bs):
    """the map with HS matrix hs in the orthonormal basis Bs"""
    def f(X):
        c = np.einsum("aij,ij->a", Bs.conj(), X)
        return np.einsum("a,aij->ij", hs @ c, Bs)
    return f


def decompose(hs, info):
    """(H, J, K) of the map with (real) HS matrix hs: expand in {B_a . B_b^+} (process matrix chi), the terms
    with a = 0 or b = 0 are G X + X G^+ with G = J - iH, the rest is K."""
    d, Bs = info["d"], info["Bs"]
    Lmat = np.einsum("ab,bij,akl->klij", np.asarray(hs, dtype=np.complex128), Bs.conj(), Bs)  # L(E_ij)[k,l]
    chi = np.einsum("aki,blj,klij->ab", Bs.conj(), Bs, Lmat)
    G = chi[0, 0] / (2 * d) * np.eye(d, dtype=np.complex128)
    G = G + np.einsum("a,aij->ij", chi[1:, 0], Bs[1:]) / math.sqrt(d)
    J = (G + G.conj().T) / 2
    H = 1j * (G - G.conj().T) / 2
    return H, J, chi[1:, 1:].copy()


def jdef(J, info):
    """prediction of the specific wrong formula 'enumerate(basis[1:])' in calc_j_mat: identity component dropped,
    first traceless component halved"""
    c = np.einsum("aij,ij->a", info["Bs"].conj(), J)
    c = c.copy()
    c[0] = 0
    c[1] = c[1] / 2
    return np.einsum("a,aij->ij", c, info["Bs"])


def coef(M, info):
    return np.einsum("aij,ij->a", info["Bs"].conj(), M)


def traceless(H):
    d = H.shape[0]
    return H - np.trace(H) / d * np.eye(d)


def real_of(M, what):
    if np.abs(M.imag).max(initial=0.0) > 1e-10 * max(1.0, np.abs(M).max(initial=0.0)):
        raise AssertionError("harness: reference %s is not real (%g)" % (what, np.abs(M.imag).max()))
    return np.ascontiguousarray(M.real, dtype=np.float64)


def sysinfo(tag):
    if tag in _SYS:
        return _SYS[tag]
    base, _, hist = tag.partition("@")
    c = A.make_system(base)
    B = R.basis_mats(c)
    hist_defect = None
    if hist == "col":
        # history variant: the FIRST computational-basis request on this system is the column-major one (public API only)
        from quara.objects.gate import get_i
        cm = R.basis_mats(c.comp_basis(mode="column_major"))
        get_i(c).convert_to_comp_basis(mode="column_major")
        units = R.matrix_units(c.dim)
        dd = c.dim
        if not all(np.array_equal(cm[j * dd + i], units[i * dd + j]) for i in range(dd) for j in range(dd)):
            hist_defect = "comp_basis(mode='column_major') is not the column-major ordering of the matrix units"
        elif not all(np.array_equal(x, y) for x, y in zip(R.basis_mats(c.comp_basis()), units)):
            hist_defect = "comp_basis() after a column-major request is not the row-major ordering of the matrix units"
        CB = units
    else:
        CB = R.basis_mats(c.comp_basis())
    d = c.dim
    Bs, CBs = np.array(B), np.array(CB)
    info = {"tag": tag, "c": c, "d": d, "n": d * d - 1, "B": B, "Bs": Bs, "Bs1": Bs[1:], "CB": CB, "CBs": CBs, "hist_defect": hist_defect}
    # harness sanity (data the reference relies on; not the property)
    if not np.allclose(np.einsum("aij,bij->ab", Bs.conj(), Bs), np.eye(d * d), atol=1e-12):
        raise AssertionError("harness: basis not orthonormal")
    if not all(np.allclose(b, b.conj().T, atol=1e-14) for b in B) or not np.allclose(B[0], np.eye(d) / math.sqrt(d), atol=1e-14):
        raise AssertionError("harness: basis not Hermitian with B_0 = I/sqrt(d)")
    if not hist and not all(np.array_equal(x, y) for x, y in zip(CB, R.matrix_units(d))):
        raise AssertionError("harness: comp basis is not the row-major matrix units")
    # tie the vectorised reference to the shared loop reference and to its own inverse
    n = d * d - 1
    K = gen_k(n, 0, 5, psd=False)
    H = gen_h(d, 0, 6)
    a1 = hs_on(R.gksl_action_hk(H, K, B), Bs)
    a2 = hs_on(act_hjk(H, j_of_k(K, Bs[1:]), K, Bs[1:]), Bs)
    if np.abs(a1 - a2).max() > 1e-12 * max(1.0, np.abs(a1).max()):
        raise AssertionError("harness: vectorised GKSL reference disagrees with refmodel.gksl_action_hk")
    Jg = gen_h(d, 0, 8)
    a3 = hs_on(act_hjk(H, Jg, K, Bs[1:]), Bs)
    H2, J2, K2 = decompose(real_of(a3, "sanity"), info)
    if max(np.abs(H2 - traceless(H)).max(), np.abs(J2 - Jg).max(), np.abs(K2 - K).max()) > 1e-12 * max(1.0, np.abs(a3).max()):
        raise AssertionError("harness: reference decomposition is not the inverse of the reference build")
    _SYS[tag] = info
    return info


def gen_h(d, seed, salt):
    M = R.generic_matrix(d, seed, salt=salt)
    H = (M + M.conj().T) / 2
    return H / np.linalg.norm(H, 2)


def gen_k(n, seed, salt, psd=True):
    G = R.generic_matrix(n, seed, salt=salt)
    K = G @ G.conj().T if psd else (G + G.conj().T) / 2
    return K / np.linalg.norm(K, 2)


def psd_basis(n):
    """n^2 rank-one projectors spanning the real space of Hermitian n x n matrices"""
    out = []
    for a in range(n):
        v = np.zeros(n, dtype=np.complex128)
        v[a] = 1
        out.append(np.outer(v, v.conj()))
    for a in range(n):
        for b in range(a + 1, n):
            for ph in (1.0, 1j):
                v = np.zeros(n, dtype=np.complex128)
                v[a] = 1 / math.sqrt(2)
                v[b] = ph / math.sqrt(2)
                out.append(np.outer(v, v.conj()))
    return out


_BASES = {}


def bases(n):
    if n not in _BASES:
        _BASES[n] = (R.hermitian_basis_ref(n), psd_basis(n))
    return _BASES[n]


def tol_of(*arrs):
    return REL * max([1e-3] + [float(np.abs(a).max(initial=0.0)) for a in arrs])


def dist(a, b):
    a, b = np.asarray(a), np.asarray(b)
    if a.shape != b.shape:
        return float("inf")
    return float(np.abs(a - b).max(initial=0.0))


class Agg:
    """one failure record per (case, signature): first message + number of elements"""

    def __init__(self, out):
        self.out, self.first, self.n = out, {}, {}
        self.dig = []
        self.elements = self.nontrivial = 0

    def element(self, generator=None):
        """account for one enumerated element; trivial (by RULE) when its generator is the zero map"""
        self.elements += 1
        if generator is None or np.abs(generator).max(initial=0.0) > 0:
            self.nontrivial += 1

    def fail(self, sig, msg):
        if sig not in self.first:
            self.first[sig] = msg
        self.n[sig] = self.n.get(sig, 0) + 1

    def flush(self):
        for sig in sorted(self.first):
            self.out.fail(sig, "%d element(s) of this case; first: %s" % (self.n[sig], self.first[sig]))
        self.out.outcome = "ok" if not self.first else "fail:" + ",".join(sorted(s.split(":")[0] for s in self.first))[:80]
        if self.dig:
            self.out.digest = A.digest(*self.dig)
        self.out.nontrivial = self.nontrivial > 0
        inner(self.out, max(0, self.elements - 1), max(0, self.nontrivial - 1))


def excsig(val):
    return type(val).__name__


# ------------------------------------------------------------------------------------ extraction oracle (shared)

def judge_j(agg, out, site, obs, Jref, info, tol, ctx):
    """calc_j_mat against the reference J; the 'basis[1:]' formula gets its own signature"""
    out.ops += 1
    if dist(obs, Jref) <= tol:
        return True
    cr = coef(Jref, info)
    if dist(obs, jdef(Jref, info)) <= tol:
        sym = []
        if abs(cr[0]) > tol:
            sym.append("identity-dropped")
        if abs(cr[1]) > 2 * tol:
            sym.append("b1-halved")
        agg.fail("%s:basis-from-1:%s" % (site, "+".join(sym)),
                 "%s: J differs from the reference exactly as 'enumerate(basis[1:])' predicts; reference coefficients [0..2]=%s, "
                 "observed %s" % (ctx, np.round(cr[:3].real, 6), np.round(coef(obs, info)[:3].real, 6)))
    else:
        agg.fail("%s:mismatch" % site, "%s: |J - Jref| = %.3g" % (ctx, dist(obs, Jref)))
    return False


def check_mats(agg, out, info, L, Href, Jref, Kref, tol, ctx):
    """calc_h_mat / calc_j_mat / calc_k_mat of the object L against the reference (H traceless);
    returns the three observed matrices (None where the call raised)"""
    mats = []
    ok, h = A.call(L.calc_h_mat)
    out.ops += 1
    mats.append(h if ok else None)
    if not ok:
        agg.fail("calc_h_mat:raises:%s" % excsig(h), "%s: %s" % (ctx, A.fmt_exc(h)))
    elif dist(h, Href) > tol:
        agg.fail("calc_h_mat:mismatch", "%s: |H - Href| = %.3g" % (ctx, dist(h, Href)))
    ok, j = A.call(L.calc_j_mat)
    mats.append(j if ok else None)
    if not ok:
        out.ops += 1
        agg.fail("calc_j_mat:raises:%s" % excsig(j), "%s: %s" % (ctx, A.fmt_exc(j)))
    else:
        judge_j(agg, out, "calc_j_mat", j, Jref, info, tol, ctx)
    ok, k = A.call(L.calc_k_mat)
    out.ops += 1
    mats.append(k if ok else None)
    if not ok:
        agg.fail("calc_k_mat:raises:%s" % excsig(k), "%s: %s" % (ctx, A.fmt_exc(k)))
    elif dist(k, Kref) > tol:
        agg.fail("calc_k_mat:mismatch", "%s: |K - Kref| = %.3g" % (ctx, dist(k, Kref)))
    c = coef(Jref, info)
    if abs(c[0]) > 1e-6 * max(1e-3, np.abs(c).max()):
        out.count("seen_j_identity_component")
    if abs(c[1]) > 1e-6 * max(1e-3, np.abs(c).max()):
        out.count("seen_j_b1_component")
    return mats


# ------------------------------------------------------------------------------------ family: build

def build_items(info):
    d, n = info["d"], info["n"]
    it = []
    for i in range(d * d):
        for s in range(4):
            it.append(("h", i, s))
    for i in range(n * n):
        it.append(("k_herm", i, i % 4))
        it.append(("k_psd", i, (i + 1) % 4))
    for i in range(d * d):
        it.append(("hk_h", i, (i + 2) % 4))
    for i in range(n * n):
        it.append(("hk_k", i, (i + 3) % 4))
    for i in range(d * d):
        it.append(("hjk_h", i, i % 4))
        it.append(("hjk_j", i, (i + 1) % 4))
    for i in range(n * n):
        it.append(("hjk_k", i, (i + 2) % 4))
    for g in range(NGEN):
        for s in range(4):
            it.append(("generic", g, s))
    return it


def run_builder(agg, out, info, which, H, J, K, physical, ctx):
    """one builder (hs function + object function) against the reference; then build-then-extract"""
    m = el()
    c, d, n, Bs, Bs1 = info["c"], info["d"], info["n"], info["Bs"], info["Bs1"]
    Href = H if H is not None else np.zeros((d, d), dtype=np.complex128)
    Kref = K if K is not None else np.zeros((n, n), dtype=np.complex128)
    Jref = J if J is not None else j_of_k(Kref, Bs1)
    ref = real_of(hs_on(act_hjk(Href, Jref, Kref, Bs1), Bs), "build " + which)
    tol = tol_of(ref)
    args = {"h": (H,), "k": (K,), "hk": (H, K), "hjk": (H, J, K)}[which]
    out.traces += 1
    ok, hs = A.call(getattr(m, "generate_hs_from_" + which), c, *args)
    out.ops += 1
    hs_lib = hs if ok else None
    if not ok:
        agg.fail("generate_hs_from_%s:raises:%s" % (which, excsig(hs)), "%s: %s" % (ctx, A.fmt_exc(hs)))
    else:
        agg.dig.append(hs)
        if dist(hs, ref) > tol:
            agg.fail("generate_hs_from_%s:not-gksl" % which, "%s: |hs - reference GKSL| = %.3g (scale %.3g)" % (ctx, dist(hs, ref), np.abs(ref).max()))
    ok, L = A.call(getattr(m, "generate_effective_lindbladian_from_" + which), c, *args, is_physicality_required=physical)
    out.ops += 1
    if not ok:
        if physical and isinstance(L, ValueError) and "physically" in str(L):
            rejected_physical(agg, out, info, hs_lib, "generate_effective_lindbladian_from_%s:rejected-physical" % which, "%s: %s" % (ctx, A.fmt_exc(L)))
        else:
            agg.fail("generate_effective_lindbladian_from_%s:raises:%s" % (which, excsig(L)), "%s: %s" % (ctx, A.fmt_exc(L)))
        return ref, None
    if physical:
        out.count("build_physical_accepted")
    if dist(L.hs, ref) > tol:
        agg.fail("generate_effective_lindbladian_from_%s:not-gksl" % which, "%s: |hs - reference GKSL| = %.3g" % (ctx, dist(L.hs, ref)))
        return ref, None
    # build-then-extract is the identity (H up to its trace)
    check_mats(agg, out, info, L, traceless(Href), Jref, Kref, tol, "build-then-extract " + ctx)
    return ref, L


def ex_build(p, seed):
    out = Out()
    agg = Agg(out)
    info = sysinfo(p["sys"])
    d, n = info["d"], info["n"]
    if "@" in p["sys"]:
        out.count("build_after_column_major_request")
        if info["hist_defect"]:
            out.fail("composite_system.comp_basis:mode-ignored-after-history", "%s: %s" % (p["sys"], info["hist_defect"]))
    HB, _ = bases(d)
    KB, KP = bases(n)
    items = build_items(info)[p["lo"]:p["hi"]]
    gH, gJ = gen_h(d, seed, 11), gen_h(d, seed, 12)
    gKp, gKh = gen_k(n, seed, 13, True), gen_k(n, seed, 14, False)
    for kind, i, si in items:
        s = SCALES[si]
        ctx = "%s %s[%d] x %g" % (p["sys"], kind, i, s)
        out.count("build_scale_%g" % s)
        gen = None
        if kind == "h":
            gen, _ = run_builder(agg, out, info, "h", s * HB[i], None, None, True, ctx)
        elif kind == "k_herm":
            out.count("build_k_not_psd")
            gen, _ = run_builder(agg, out, info, "k", None, None, s * KB[i], i == 0, ctx)   # KB[0] = I/sqrt(n) is PSD
        elif kind == "k_psd":
            gen, _ = run_builder(agg, out, info, "k", None, None, s * KP[i], True, ctx)
        elif kind == "hk_h":
            gen, _ = run_builder(agg, out, info, "hk", s * HB[i], None, gKp, True, ctx)
        elif kind == "hk_k":
            gen, _ = run_builder(agg, out, info, "hk", gH, None, s * KP[i], True, ctx)
        elif kind == "hjk_h":
            gen, _ = run_builder(agg, out, info, "hjk", s * HB[i], gJ, gKh, False, ctx)
        elif kind == "hjk_j":
            gen, _ = run_builder(agg, out, info, "hjk", gH, s * HB[i], gKh, False, ctx)
        elif kind == "hjk_k":
            gen, _ = run_builder(agg, out, info, "hjk", gH, gJ, s * KB[i], False, ctx)
        else:
            g = i
            H1, J1, K1 = s * gen_h(d, seed, 20 + g), s * gen_h(d, seed, 30 + g), s * gen_k(n, seed, 40 + g, False)
            H2, K2 = gen_h(d, seed, 50 + g), gen_k(n, seed, 60 + g, True)
            J2 = j_of_k(K2, info["Bs1"])
            gen, _ = run_builder(agg, out, info, "hjk", H1, J1, K1, False, ctx + " (indefinite K, free J)")
            run_builder(agg, out, info, "hjk", H2, J2, K2, True, ctx + " (PSD K, J from K)")
            run_builder(agg, out, info, "hk", H2, None, s * K2, True, ctx + " hk")
            run_builder(agg, out, info, "k", None, None, s * K1, False, ctx + " k")
            # additivity / homogeneity on the library side alone
            m = el()
            ok, hs12 = A.call(m.generate_hs_from_hjk, info["c"], H1 + H2, J1 + J2, K1 + K2)
            ok1, a1 = A.call(m.generate_hs_from_hjk, info["c"], H1, J1, K1)
            ok2, a2 = A.call(m.generate_hs_from_hjk, info["c"], H2, J2, K2)
            out.ops += 3
            if not (ok and ok1 and ok2):
                agg.fail("generate_hs_from_hjk:raises:additivity", "%s: %r" % (ctx, [x for o, x in ((ok, hs12), (ok1, a1), (ok2, a2)) if not o][:1]))
            elif dist(hs12, a1 + a2) > tol_of(a1, a2):
                agg.fail("generate_hs_from_hjk:not-additive", "%s: |f(x+y) - f(x) - f(y)| = %.3g" % (ctx, dist(hs12, a1 + a2)))
            else:
                out.count("build_additivity_checked")
        agg.element(gen)
    agg.flush()
    return out


# ------------------------------------------------------------------------------------ family: jump

def jump_pool(info, seed):
    key = ("pool", info["tag"], seed)
    if key in _SYS:
        return _SYS[key]
    d, B = info["d"], info["B"]
    ops = [("B%d" % a, B[a]) for a in range(1, d * d)]

    def unit(i, j, dd=d):
        E = np.zeros((dd, dd), dtype=np.complex128)
        E[i, j] = 1
        return E
    sm, sp, I2 = unit(0, 1, 2), unit(1, 0, 2), np.eye(2, dtype=np.complex128)
    Jm = math.sqrt(2) * (unit(0, 1, 3) + unit(1, 2, 3))
    if d == 2:
        ops += [("sigma_minus", sm), ("sigma_plus", sp)]
    elif d == 3:
        ops += [("spin1_lowering", Jm), ("E02", unit(0, 2)), ("spin1_raising", Jm.conj().T)]
    else:
        ops += [("sm(x)I", np.kron(sm, I2)), ("I(x)sm", np.kron(I2, sm)), ("sm(x)sm", np.kron(sm, sm)), ("sm(x)sp", np.kron(sm, sp))]
    ops += [("P0", unit(0, 0)), ("generic", 0.5 * R.generic_matrix(d, seed, salt=7))]
    Bs, CBs = info["Bs"], info["CBs"]
    tab = []
    for name, c in ops:
        cc = c.conj().T @ c
        jt = lambda X, cc=cc: -0.5 * (cc @ X + X @ cc)
        kt = lambda X, c=c: c @ X @ c.conj().T
        jd = lambda X, c=c: -0.5 * (c @ X + X @ c.conj().T)      # the wrong formula: c in place of c^+ c
        tab.append({"name": name, "c": c, "normal": dist(cc, c @ c.conj().T) < 1e-12, "idem": dist(cc, c) < 1e-12,
                    "Jc": hs_on(jt, CBs), "Jg": hs_on(jt, Bs), "Kc": hs_on(kt, CBs), "Kg": hs_on(kt, Bs),
                    "Dc": hs_on(jd, CBs), "Dg": hs_on(jd, Bs)})
    # tie to the shared GKSL reference
    for t in tab:
        full = hs_on(R.gksl_action(np.zeros((d, d)), [t["c"]]), Bs)
        if dist(full, t["Jg"] + t["Kg"]) > 1e-12 * max(1.0, np.abs(full).max()):
            raise AssertionError("harness: jump reference disagrees with refmodel.gksl_action")
    _SYS[key] = tab
    return tab


def jump_sizes(tag, tier):
    q2 = range(1, 4) if tier == "quick" else range(1, 5)
    return {"Q1": range(1, 5), "Q3": range(1, 10), "Q3g": range(1, 10), "Q2": q2}[tag]


def jump_cases(tag, npool, tier):
    cases = []
    per = {"Q1": 200, "Q3": 400, "Q3g": 400, "Q2": 100}[tag]
    for k in jump_sizes(tag, tier):
        tot = math.comb(npool, k)
        for lo in range(0, tot, per):
            cases.append({"sys": tag, "size": k, "lo": lo, "hi": min(tot, lo + per)})
    if tag == "Q2":
        cases.append({"sys": tag, "size": 0, "lo": 4, "hi": 17})   # nested chain of sizes 4..16: ladder / projector / generic first
    return cases


def ex_jump(p, seed):
    out = Out()
    agg = Agg(out)
    info = sysinfo(p["sys"])
    tab = jump_pool(info, seed)
    m = el()
    c, basis = info["c"], info["c"].basis()
    npool = len(tab)
    if p["size"] > 0:
        subsets = itertools.islice(itertools.combinations(range(npool), p["size"]), p["lo"], p["hi"])
    else:
        order = list(range(npool - 6, npool)) + list(range(npool - 6))    # ladder, projector, generic first
        subsets = [tuple(sorted(order[:k])) for k in range(p["lo"], p["hi"])]
    nsub = 0
    for sub in subsets:
        nsub += 1
        ops = [tab[i]["c"] for i in sub]
        names = "+".join(tab[i]["name"] for i in sub)
        ctx = "%s jump operators {%s}" % (p["sys"], names)
        ref = {k: sum(tab[i][k] for i in sub) for k in ("Jc", "Jg", "Kc", "Kg", "Dc", "Dg")}
        differs = dist(ref["Jc"], ref["Dc"]) > 1e-9
        out.count("jump_sets")
        agg.element()
        if len(sub) == info["d"] ** 2:
            out.count("jump_sets_of_size_d2")
        if any(not tab[i]["normal"] for i in sub):
            out.count("jump_sets_with_non_normal_operator")
        out.count("jump_c_differs_from_cdagc" if differs else "jump_c_equals_cdagc")
        out.traces += 1
        calls = [
            ("generate_j_part_cb_from_jump_operators", (ops,), ref["Jc"], ref["Dc"]),
            ("generate_k_part_cb_from_jump_operators", (ops,), ref["Kc"], None),
            ("generate_d_part_cb_from_jump_operators", (ops,), ref["Jc"] + ref["Kc"], ref["Dc"] + ref["Kc"]),
            ("generate_j_part_gb_from_jump_operators", (ops, basis), ref["Jg"], ref["Dg"]),
            ("generate_k_part_gb_from_jump_operators", (ops, basis), ref["Kg"], None),
            ("generate_d_part_gb_from_jump_operators", (ops, basis), ref["Jg"] + ref["Kg"], ref["Dg"] + ref["Kg"]),
        ]
        for fn, args, want, wrong in calls:
            ok, got = A.call(getattr(m, fn), *args)
            out.ops += 1
            tol = tol_of(want)
            if not ok:
                agg.fail("%s:raises:%s" % (fn, excsig(got)), "%s: %s" % (ctx, A.fmt_exc(got)))
            elif dist(got, want) > tol:
                if wrong is not None and dist(got, wrong) <= tol:
                    agg.fail("%s:j-part-uses-c-not-cdagc" % fn,
                             "%s: result is -1/2 (c X + X c^+) [+ c X c^+] instead of -1/2 {c^+ c, X} [+ c X c^+]; distance to GKSL %.3g" % (ctx, dist(got, want)))
                else:
                    agg.fail("%s:mismatch" % fn, "%s: distance to reference %.3g" % (ctx, dist(got, want)))
        want = real_of(ref["Jg"] + ref["Kg"], "jump generator")
        wrong = ref["Dg"] + ref["Kg"]
        fn = "generate_effective_lindbladian_from_jump_operators"
        ok, L = A.call(getattr(m, fn), c, ops, is_physicality_required=False)
        out.ops += 1
        tol = tol_of(want)
        inherits = False
        if not ok:
            agg.fail("%s:raises:%s" % (fn, excsig(L)), "%s: %s" % (ctx, A.fmt_exc(L)))
        else:
            agg.dig.append(L.hs)
            if dist(L.hs, want) > tol:
                inherits = dist(L.hs, wrong) <= tol
                if inherits:
                    agg.fail("%s:not-gksl:j-part-uses-c-not-cdagc" % fn,
                             "%s: hs is the generator with -1/2 (c X + X c^+) in place of -1/2 {c^+ c, X}; distance to GKSL %.3g, first row %s"
                             % (ctx, dist(L.hs, want), np.round(L.hs[0], 6)))
                else:
                    agg.fail("%s:not-gksl:mismatch" % fn, "%s: distance to GKSL %.3g" % (ctx, dist(L.hs, want)))
        # a generator given by jump operators is physical by construction: the default constructor path must accept it
        hs_lib = L.hs if ok else None
        ok, L = A.call(getattr(m, fn), c, ops)
        out.ops += 1
        if ok:
            out.count("jump_physical_accepted")
        elif isinstance(L, ValueError) and "physically" in str(L):
            rejected_physical(agg, out, info, hs_lib, "%s:rejected-physical%s" % (fn, ":j-part-uses-c-not-cdagc" if inherits else ""),
                              "%s: %s" % (ctx, A.fmt_exc(L)))
        else:
            agg.fail("%s:raises:%s" % (fn, excsig(L)), "%s: %s" % (ctx, A.fmt_exc(L)))
    agg.flush()
    return out


# ------------------------------------------------------------------------------------ family: extract

def extract_items(info):
    d2 = info["d"] ** 2
    it = [("unit", a * d2 + b, 2) for a in range(d2) for b in range(d2)]
    it += [("generic", g, s) for g in range(NGEN) for s in range(4)]
    return it


def parts_ref(H, J, K, info, mode):
    Xs = info["Bs"] if mode == "hermitian_basis" else info["CBs"]
    return hs_on(act_h(H), Xs), hs_on(act_j(J), Xs), hs_on(act_k(K, info["Bs1"]), Xs)


def ex_extract(p, seed):
    from quara.objects.effective_lindbladian import EffectiveLindbladian
    out = Out()
    agg = Agg(out)
    info = sysinfo(p["sys"])
    m = el()
    c, d = info["c"], info["d"]
    d2 = d * d
    items = extract_items(info)[p["lo"]:p["hi"]]
    for kind, i, si in items:
        if kind == "unit":
            hs = np.zeros((d2, d2), dtype=np.float64)
            hs[i // d2, i % d2] = 1.0
            ctx = "%s generator = HS unit matrix E[%d,%d]" % (p["sys"], i // d2, i % d2)
            if i // d2 == 0:
                out.count("extract_non_tp_generator")
        else:
            a = R.angles(seed, d2 * d2, salt=3 * i + 1)
            hs = SCALES[si] * np.array([math.cos(5 * x + 0.3 * k) for k, x in enumerate(a)]).reshape(d2, d2)
            ctx = "%s generic real generator #%d x %g" % (p["sys"], i, SCALES[si])
        H, J, K = decompose(hs, info)
        tol = tol_of(hs)
        agg.element(hs)
        L = EffectiveLindbladian(c, hs.copy(), is_physicality_required=False)
        out.traces += 1
        mats = check_mats(agg, out, info, L, H, J, K, tol, ctx)
        Jd = jdef(J, info)
        for mode in MODES:
            rh, rj, rk = parts_ref(H, J, K, info, mode)
            rjd = hs_on(act_j(Jd), info["Bs"] if mode == "hermitian_basis" else info["CBs"])
            whole = hs if mode == "hermitian_basis" else hs_on(action_of(hs, info["Bs"]), info["CBs"])
            if dist(rh + rj + rk, whole) > tol:
                raise AssertionError("harness: reference parts do not sum to the generator")
            got = {}
            for part, want, wrong in (("h", rh, None), ("j", rj, rjd), ("k", rk, None), ("d", rj + rk, rjd + rk)):
                ok, val = A.call(getattr(L, "calc_%s_part" % part), mode_basis=mode)
                out.ops += 1
                site = "calc_%s_part:%s" % (part, mode)
                if not ok:
                    agg.fail("%s:raises:%s" % (site, excsig(val)), "%s: %s" % (ctx, A.fmt_exc(val)))
                    continue
                got[part] = val
                if dist(val, want) > tol:
                    if wrong is not None and dist(val, wrong) <= tol:
                        agg.fail("%s:inherits-calc_j_mat-basis-from-1" % site, "%s: distance to reference %.3g" % (ctx, dist(val, want)))
                    else:
                        agg.fail("%s:mismatch" % site, "%s: distance to reference %.3g" % (ctx, dist(val, want)))
            if len(got) == 4:
                ssum = got["h"] + got["j"] + got["k"]
                out.ops += 1
                if dist(ssum, whole) > tol:
                    if dist(ssum, whole - rj + rjd) <= tol:
                        agg.fail("parts-sum:%s:inherits-calc_j_mat-basis-from-1" % mode,
                                 "%s: h_part + j_part + k_part differs from the generator by %.3g" % (ctx, dist(ssum, whole)))
                    else:
                        agg.fail("parts-sum:%s:mismatch" % mode, "%s: h_part + j_part + k_part differs from the generator by %.3g" % (ctx, dist(ssum, whole)))
                else:
                    out.count("parts_sum_ok")
                if dist(got["h"] + got["d"], ssum) > tol:
                    agg.fail("parts-sum:%s:d-part-not-j-plus-k" % mode, "%s: %.3g" % (ctx, dist(got["h"] + got["d"], ssum)))
        # extract-then-build with the library's own matrices
        if all(x is not None for x in mats):
            ok, hs2 = A.call(m.generate_hs_from_hjk, c, *mats)
            out.ops += 1
            if not ok:
                agg.fail("extract-then-build:raises:%s" % excsig(hs2), "%s: %s" % (ctx, A.fmt_exc(hs2)))
            elif dist(hs2, hs) > tol:
                model = hs - real_of(hs_on(act_j(J - Jd), info["Bs"]), "model")
                if dist(hs2, model) <= tol:
                    agg.fail("extract-then-build:inherits-calc_j_mat-basis-from-1", "%s: rebuilt generator differs by %.3g" % (ctx, dist(hs2, hs)))
                else:
                    agg.fail("extract-then-build:mismatch", "%s: rebuilt generator differs by %.3g" % (ctx, dist(hs2, hs)))
            else:
                out.count("extract_then_build_ok")
            agg.dig.append(np.asarray(mats[2]))
    agg.flush()
    return out


# ------------------------------------------------------------------------------------ alphabets for verdict / expm / proj

def k_alphabet(info, seed):
    key = ("kalpha", info["tag"], seed)
    if key not in _SYS:
        _SYS[key] = A.hermitian_alphabet(info["n"], seed)
    return _SYS[key]


def h_alphabet(info, seed):
    key = ("halpha", info["tag"], seed)
    if key not in _SYS:
        d = info["d"]
        _SYS[key] = [("zero", np.zeros((d, d), dtype=np.complex128))] + \
            A.hermitian_alphabet(d, seed, which=["mixed_sign"], bases=["generic"]) + \
            A.hermitian_alphabet(d, seed, which=["one_negative"], bases=["fourier"])
    return _SYS[key]


def k_index(info, seed, name):
    names = [nm for nm, _ in k_alphabet(info, seed)]
    return names.index(name + "/1")


def ref_generator(info, H, K):
    hs = real_of(hs_on(act_hjk(H, j_of_k(K, info["Bs1"]), K, info["Bs1"]), info["Bs"]), "generator")
    hs[0, :] = 0.0   # exactly trace annihilating (the computed row is rounding noise)
    return hs


def spectrum_class(K):
    w = np.linalg.eigvalsh((K + K.conj().T) / 2)
    gaps = np.diff(w)
    sc = max(1e-3, np.abs(w).max())
    rep_nonzero = any(g < 1e-9 * sc and abs(w[i]) > 1e-9 * sc for i, g in enumerate(gaps))
    return "degenerate-spectrum" if rep_nonzero else "simple-spectrum"


# ------------------------------------------------------------------------------------ family: verdict

def verdict_items(info, seed):
    nk = len(k_alphabet(info, seed))
    d2 = info["d"] ** 2
    it = []
    for ki in range(nk):
        for hi in (0, 1):
            it.append({"k": ki, "h": hi, "pos": -1, "mult": 0, "kmult": 0, "atol": 0})
    for nm in ("fullrank/generic", "rank1/generic", "zero/id", "one_negative/generic"):
        ki = k_index(info, seed, nm)
        for pos in (0, 1, d2 - 1):
            for mult in (0.09, 11.0, 1e3, -1.0):     # -1: absolute perturbation 1.0
                for at in range(len(ATOLS)):
                    it.append({"k": ki, "h": 1, "pos": pos, "mult": mult, "kmult": 0, "atol": at})
    for nm in ("rank1/id", "rank1/generic", "rank_dm1/fourier"):
        ki = k_index(info, seed, nm)
        for kmult in (0.09, 11.0, 1e3):
            for at in range(len(ATOLS)):
                it.append({"k": ki, "h": 2, "pos": -1, "mult": 0, "kmult": kmult, "atol": at})
    return it


def band(value, atol):
    """True / False / None (inside the band where nothing is asserted); value = size of the violation (>= 0)"""
    if value <= atol / 10:
        return True
    if value >= 10 * atol:
        return False
    return None


def physical_band(info, hs):
    """reference verdict (default atol) on an HS matrix the library produced itself: True / False / None = inside the band
    (the builders zero HS entries below atol, which can move an eigenvalue of K by about atol)"""
    from quara.settings import Settings
    atol = Settings.get_atol()
    _, _, K = decompose(np.asarray(hs, dtype=np.float64), info)
    tp = band(float(np.abs(np.asarray(hs)[0]).max()), atol)
    cp = band(max(0.0, -R.min_eig(K)), atol)
    return True if (tp is True and cp is True) else False if (tp is False or cp is False) else None


def rejected_physical(agg, out, info, hs, sig, msg):
    """the library refused an object that is physical by construction: a violation unless its own HS matrix is in the band"""
    if hs is not None and physical_band(info, hs) is None:
        out.count("physical_by_construction_in_band_not_asserted")
        return
    agg.fail(sig, msg)


def ex_verdict(p, seed):
    from quara.objects.effective_lindbladian import EffectiveLindbladian
    from quara.settings import Settings
    out = Out()
    agg = Agg(out)
    info = sysinfo(p["sys"])
    c = info["c"]
    ka, ha = k_alphabet(info, seed), h_alphabet(info, seed)
    items = verdict_items(info, seed)[p["lo"]:p["hi"]]
    for it in items:
        kname, K = ka[it["k"]]
        hname, H = ha[it["h"]]
        atol_arg = ATOLS[it["atol"]]
        atol = Settings.get_atol() if atol_arg is None else atol_arg
        if it["kmult"]:
            w, V = np.linalg.eigh(K)
            v = V[:, 0]
            K = K - (it["kmult"] * atol) * np.outer(v, v.conj())
        hs = ref_generator(info, H, K)
        if it["pos"] >= 0:
            eps = 1.0 if it["mult"] < 0 else it["mult"] * atol
            hs[0, it["pos"]] = eps if it["pos"] % 2 == 0 else -eps
        ctx = "%s H=%s K=%s first-row=%s kshift=%s atol=%s" % (p["sys"], hname, kname, (it["pos"], it["mult"]), it["kmult"], atol_arg)
        agg.element(hs)
        # reference verdicts
        _, _, Kx = decompose(hs, info)
        row = float(np.abs(hs[0]).max())
        mineig = R.min_eig(Kx)
        tp = band(row, atol)
        cp = band(max(0.0, -mineig), atol)
        phys = True if (tp is True and cp is True) else False if (tp is False or cp is False) else None
        L = EffectiveLindbladian(c, hs.copy(), is_physicality_required=False)
        out.traces += 1
        kw = {} if atol_arg is None else {"atol": atol_arg}
        for name, want, call in (("is_tp", tp, lambda: L.is_tp(**kw)), ("is_cp", cp, lambda: L.is_cp(**kw)),
                                 ("is_physical", phys, lambda: L.is_physical(atol_arg, atol_arg))):
            ok, got = A.call(call)
            out.ops += 1
            if not ok:
                agg.fail("%s:raises:%s" % (name, excsig(got)), "%s: %s" % (ctx, A.fmt_exc(got)))
                continue
            if want is None:
                out.count("verdict_in_band_not_asserted")
                continue
            out.count("verdict_%s_%s" % (name, want))
            if bool(got) != want:
                agg.fail("%s:%s:%s" % (name, "accepts-violation" if got else "rejects-valid",
                                       "default-atol" if atol_arg is None else "explicit-atol"),
                         "%s: first-row max %.3g, min eig K %.3g, expected %s got %s" % (ctx, row, mineig, want, got))
        # the two tolerances of is_physical are separate: each constraint is judged with its own one (the other made irrelevant)
        if tp is not None and cp is not None:
            loose = 1e6 * max(atol, row, max(0.0, -mineig), 1e-300)
            for label, args, want2 in (("eq-tolerance-only-strict", (atol, loose), tp), ("ineq-tolerance-only-strict", (loose, atol), cp)):
                ok, got = A.call(L.is_physical, atol_eq_const=args[0], atol_ineq_const=args[1])
                out.ops += 1
                out.count("verdict_mixed_tolerances")
                if not ok:
                    agg.fail("is_physical:raises:%s" % excsig(got), "%s (%s): %s" % (ctx, label, A.fmt_exc(got)))
                elif bool(got) != want2:
                    agg.fail("is_physical:%s:separate-tolerances:%s" % ("accepts-violation" if got else "rejects-valid", label),
                             "%s: atol_eq_const=%g atol_ineq_const=%g, first-row max %.3g, min eig K %.3g, expected %s got %s" % (
                                 ctx, args[0], args[1], row, mineig, want2, got))
        if atol_arg is None and phys is not None:
            ok, got = A.call(EffectiveLindbladian, c, hs.copy())
            out.ops += 1
            out.count("verdict_constructor_%s" % ("accepts" if phys else "rejects"))
            if phys and not ok:
                agg.fail("constructor:rejects-physical", "%s: %s" % (ctx, A.fmt_exc(got)))
            elif not phys and ok:
                agg.fail("constructor:accepts-unphysical:%s" % ("first-row" if tp is False else "k-not-psd"),
                         "%s: first-row max %.3g, min eig K %.3g" % (ctx, row, mineig))
            elif not phys and not (isinstance(got, ValueError) and "physically" in str(got)):
                agg.fail("constructor:raises:%s" % excsig(got), "%s: %s" % (ctx, A.fmt_exc(got)))
        agg.dig.append(hs)
    agg.flush()
    return out


# ------------------------------------------------------------------------------------ family: expm

EXPM_K = ("zero/id", "fullrank/generic", "rank1/generic", "rank_dm1/fourier", "fullrank/id")


def expm_items(info, seed):
    it = []
    for hi in range(3):
        for kn in EXPM_K:
            for ti in range(4):
                for si in range(4):
                    it.append({"h": hi, "k": k_index(info, seed, kn), "t": ti, "s": si})
    return it


def ex_expm(p, seed):
    out = Out()
    agg = Agg(out)
    info = sysinfo(p["sys"])
    m = el()
    c, d, Bs = info["c"], info["d"], info["Bs"]
    ka, ha = k_alphabet(info, seed), h_alphabet(info, seed)
    items = expm_items(info, seed)[p["lo"]:p["hi"]]
    for it in items:
        kname, K0 = ka[it["k"]]
        hname, H0 = ha[it["h"]]
        t, s = SCALES[it["t"]], SCALES[it["s"]]
        H, K = t * H0, s * K0
        ctx = "%s H=%g*%s K=%g*%s" % (p["sys"], t, hname, s, kname)
        out.count("expm_time_%g" % t)
        out.count("expm_strength_%g" % s)
        ref = hs_on(act_hjk(H, j_of_k(K, info["Bs1"]), K, info["Bs1"]), Bs)
        ref = real_of(ref, "generator")
        agg.element(ref)
        out.traces += 1
        ok, L = A.call(m.generate_effective_lindbladian_from_hk, c, H, K)
        out.ops += 1
        if not ok:
            if "physically" in str(L):
                ok2, hs_lib = A.call(m.generate_hs_from_hk, c, H, K)
                rejected_physical(agg, out, info, hs_lib if ok2 else None, "generate_effective_lindbladian_from_hk:rejected-physical",
                                  "%s: %s" % (ctx, A.fmt_exc(L)))
            else:
                agg.fail("generate_effective_lindbladian_from_hk:raises:" + excsig(L), "%s: %s" % (ctx, A.fmt_exc(L)))
            continue
        if dist(L.hs, ref) > tol_of(ref):
            agg.fail("generate_effective_lindbladian_from_hk:not-gksl", "%s: %.3g" % (ctx, dist(L.hs, ref)))
            continue
        ok, g = A.call(L.to_gate)
        out.ops += 1
        if not ok:
            agg.fail("to_gate:%s" % ("rejects-own-exponential" if "physically" in str(g) else "raises:" + excsig(g)),
                     "%s: %s" % (ctx, A.fmt_exc(g)))
            continue
        want = real_of(R.expm_herm_free(ref), "exponential")
        agg.dig.append(g.hs)
        if type(g).__name__ != "Gate":
            agg.fail("to_gate:not-a-gate", "%s: %s" % (ctx, type(g).__name__))
        if dist(g.hs, want) > 1e-9 * max(1.0, np.abs(want).max()):
            agg.fail("to_gate:not-the-exponential", "%s: |hs - exp(L)| = %.3g" % (ctx, dist(g.hs, want)))
        act = action_of(np.asarray(g.hs, dtype=np.complex128), Bs)
        tpd = R.tp_defect(act, d)
        mine = R.min_eig(R.choi_from_action(act, d))
        if tpd > 1e-9:
            agg.fail("to_gate:not-trace-preserving", "%s: defect %.3g" % (ctx, tpd))
        if mine < -1e-9:
            agg.fail("to_gate:not-completely-positive", "%s: min eig Choi %.3g" % (ctx, mine))
        ok, v = A.call(g.is_physical)
        out.ops += 1
        if not ok or not v:
            agg.fail("to_gate:gate-not-judged-physical", "%s: is_physical -> %r (reference: TP defect %.3g, min eig Choi %.3g)" % (ctx, v, tpd, mine))
        else:
            out.count("expm_gate_physical")
        if np.abs(g.hs[1:, 0]).max() > 1e-6:
            out.count("expm_non_unital_gate")
        if dist(g.hs, np.eye(d * d)) > 1e-3:
            out.count("expm_far_from_identity")
    agg.flush()
    return out


# ------------------------------------------------------------------------------------ family: proj

def proj_items(info, seed):
    d2 = info["d"] ** 2
    it = [("eq_unit", i, 0, 0) for i in range(d2 * d2)]
    it += [("eq_generic", g, s, 0) for g in range(3) for s in range(4)]
    nk = len(k_alphabet(info, seed))
    for ki in range(nk):
        for hi in (1, 2):
            for row in (0, 1):
                it.append(("ineq", ki, hi, row))
    return it


def ex_proj(p, seed):
    from quara.objects.effective_lindbladian import EffectiveLindbladian
    out = Out()
    agg = Agg(out)
    info = sysinfo(p["sys"])
    c, d, Bs = info["c"], info["d"], info["Bs"]
    d2 = d * d
    ka, ha = k_alphabet(info, seed), h_alphabet(info, seed)
    items = proj_items(info, seed)[p["lo"]:p["hi"]]
    for kind, i, a2, a3 in items:
        if kind.startswith("eq"):
            if kind == "eq_unit":
                hs = np.zeros((d2, d2), dtype=np.float64)
                hs[i // d2, i % d2] = 1.0
                ctx = "%s E[%d,%d]" % (p["sys"], i // d2, i % d2)
            else:
                a = R.angles(seed, d2 * d2, salt=3 * i + 2)
                hs = SCALES[a2] * np.array([math.sin(4 * x + 0.2 * k) for k, x in enumerate(a)]).reshape(d2, d2)
                ctx = "%s generic #%d x %g" % (p["sys"], i, SCALES[a2])
            keep = hs.copy()
            agg.element(hs)
            L = EffectiveLindbladian(c, hs, is_physicality_required=False)
            ok, P = A.call(L.calc_proj_eq_constraint)
            out.ops += 1
            out.traces += 1
            if np.abs(keep[0]).max() > 0:
                out.count("proj_eq_nonzero_first_row")
            if not ok:
                agg.fail("calc_proj_eq_constraint:raises:%s" % excsig(P), "%s: %s" % (ctx, A.fmt_exc(P)))
                continue
            if type(P).__name__ != "EffectiveLindbladian":
                agg.fail("calc_proj_eq_constraint:wrong-type", "%s: %s" % (ctx, type(P).__name__))
            if np.abs(P.hs[0]).max() != 0:
                agg.fail("calc_proj_eq_constraint:first-row-not-zero", "%s: %s" % (ctx, P.hs[0]))
            if not np.array_equal(P.hs[1:], keep[1:]):
                agg.fail("calc_proj_eq_constraint:other-rows-changed", "%s: %.3g" % (ctx, dist(P.hs[1:], keep[1:])))
            if not np.array_equal(L.hs, keep):
                agg.fail("calc_proj_eq_constraint:mutates-receiver", ctx)
            agg.dig.append(P.hs)
            continue
        kname, K = ka[i]
        hname, H = ha[a2]
        hs = ref_generator(info, H, K)
        if a3:
            hs[0, 1] = 0.3
        ctx = "%s H=%s K=%s first-row=%s" % (p["sys"], hname, kname, "0.3@1" if a3 else "zero")
        Hx, Jx, Kx = decompose(hs, info)
        tol = tol_of(hs)
        agg.element(hs)
        mineig = R.min_eig(Kx)
        physical = (not a3) and mineig >= -1e-12
        cls = spectrum_class(Kx)
        out.count("proj_ineq_%s" % cls)
        if mineig < -1e-6:
            out.count("proj_ineq_clipped_eigenvalue")
        L = EffectiveLindbladian(c, hs.copy(), is_physicality_required=False)
        ok, P = A.call(L.calc_proj_ineq_constraint)
        out.ops += 1
        out.traces += 1
        if not ok:
            agg.fail("calc_proj_ineq_constraint:raises:%s:%s" % (excsig(P), cls), "%s: %s" % (ctx, A.fmt_exc(P)))
            continue
        agg.dig.append(P.hs)
        _, _, Kp = decompose(P.hs, info)
        mp = R.min_eig(Kp)
        if mp < -tol:
            agg.fail("calc_proj_ineq_constraint:k-not-psd:%s" % cls, "%s: min eig of K after projection %.3g" % (ctx, mp))
        Kwant = R.proj_psd(Kx)
        kchanged = dist(Kp, Kwant) > tol
        if kchanged:
            agg.fail("calc_proj_ineq_constraint:k-not-psd-part-of-input:%s" % cls,
                     "%s: |K' - P_psd(K)| = %.3g (eigenvalues of K: %s)" % (ctx, dist(Kp, Kwant), np.round(np.linalg.eigvalsh(Kx), 6)))
        inherits = False
        if physical:
            out.count("proj_ineq_physical_input")
            if dist(P.hs, hs) > tol:
                # what is left once a change of K is accounted for
                resid = P.hs - hs - real_of(hs_on(act_k(Kp - Kx, info["Bs1"]), Bs), "k change")
                model = -real_of(hs_on(act_j(Jx - jdef(Jx, info)), Bs), "model")
                if np.abs(resid).max() <= tol:
                    pass   # reported above as k-not-psd-part-of-input
                elif dist(resid, model) <= tol:
                    inherits = True
                    agg.fail("calc_proj_ineq_constraint:physical-changed:inherits-calc_j_mat-basis-from-1",
                             "%s: physical generator moved by %.3g" % (ctx, dist(P.hs, hs)))
                else:
                    agg.fail("calc_proj_ineq_constraint:physical-changed:mismatch", "%s: physical generator moved by %.3g" % (ctx, dist(P.hs, hs)))
                if kchanged:
                    agg.fail("calc_proj_ineq_constraint:physical-changed:k-changed:%s" % cls,
                             "%s: K of a physical generator changed by %.3g" % (ctx, dist(Kp, Kx)))
            else:
                out.count("proj_ineq_physical_unchanged")
        # with physicality required the physical input must survive its own projection path
        if physical:
            ok, L2 = A.call(EffectiveLindbladian, c, hs.copy())
            if ok:
                ok, P2 = A.call(L2.calc_proj_ineq_constraint)
                out.ops += 1
                if not ok and "physically" in str(P2):
                    sig = "calc_proj_ineq_constraint:rejects-own-projection-of-physical" + \
                        (":inherits-calc_j_mat-basis-from-1" if inherits else "") + (":k-changed:" + cls if kchanged else "")
                    rejected_physical(agg, out, info, P.hs, sig, "%s: %s" % (ctx, A.fmt_exc(P2)))
                elif not ok:
                    agg.fail("calc_proj_ineq_constraint:raises:%s:%s" % (excsig(P2), cls), "%s: %s" % (ctx, A.fmt_exc(P2)))
    agg.flush()
    return out


# ------------------------------------------------------------------------------------ family: var

def var_items(info):
    d2 = info["d"] ** 2
    it = []
    for flag in (True, False):
        for i in range(d2 * d2):
            it.append(("unit", i, int(flag)))
        for g in range(3):
            it.append(("generic", g, int(flag)))
    return it


def ex_var(p, seed):
    from quara.objects.effective_lindbladian import EffectiveLindbladian
    out = Out()
    agg = Agg(out)
    info = sysinfo(p["sys"])
    m = el()
    c, d = info["c"], info["d"]
    d2 = d * d
    items = var_items(info)[p["lo"]:p["hi"]]
    gK = gen_k(info["n"], seed, 70, True)
    for kind, i, fl in items:
        flag = bool(fl)
        if kind == "unit":
            hs = np.zeros((d2, d2), dtype=np.float64)
            hs[i // d2, i % d2] = 1.0
            ctx = "%s E[%d,%d] on_para_eq_constraint=%s" % (p["sys"], i // d2, i % d2, flag)
        else:
            hs = ref_generator(info, gen_h(d, seed, 71 + i), (i + 1) * gK)
            ctx = "%s physical generic #%d on_para_eq_constraint=%s" % (p["sys"], i, flag)
        tp = np.abs(hs[0]).max() == 0
        physical = kind == "generic"
        out.count("var_flag_%s" % flag)
        agg.element(hs)
        L = EffectiveLindbladian(c, hs.copy(), is_physicality_required=False, on_para_eq_constraint=flag)
        ok, v = A.call(L.to_var)
        out.ops += 1
        out.traces += 1
        if not ok:
            agg.fail("to_var:raises:%s" % excsig(v), "%s: %s" % (ctx, A.fmt_exc(v)))
            continue
        want = hs[1:].ravel() if flag else hs.ravel()
        if not (np.asarray(v).shape == want.shape and np.array_equal(np.asarray(v), want)):
            agg.fail("to_var:layout:on_para_eq_constraint=%s" % flag, "%s: var is not the row-major %s" % (ctx, "rows 1.." if flag else "matrix"))
            continue
        ok, v2 = A.call(m.convert_effective_lindbladian_to_var, c, hs.copy(), flag)
        out.ops += 1
        if not ok or not np.array_equal(np.asarray(v2), want):
            agg.fail("convert_effective_lindbladian_to_var:differs-from-to_var", "%s: %r" % (ctx, v2 if not ok else dist(v2, want)))
        # generator -> var -> generator (only generators the parametrisation can represent: TP ones when the flag is on)
        if tp or not flag:
            ok, L2 = A.call(m.convert_var_to_effective_lindbladian, c, np.array(v, dtype=np.float64), is_physicality_required=False,
                            on_para_eq_constraint=flag)
            out.ops += 1
            if not ok:
                agg.fail("convert_var_to_effective_lindbladian:raises:%s" % excsig(L2), "%s: %s" % (ctx, A.fmt_exc(L2)))
            elif not np.array_equal(L2.hs, hs):
                e0 = np.zeros(d2)
                e0[0] = 1
                if flag and np.array_equal(L2.hs[1:], hs[1:]) and np.array_equal(L2.hs[0], e0):
                    # Observation only (outside the statement of C18, which does not speak about variable vectors): the
                    # gate convention e0 is inserted as implied first row of a generator, whose first row should be zero.
                    out.count("note_convert_var_to_effective_lindbladian_inserts_e0_first_row")
                else:
                    agg.fail("convert_var_to_effective_lindbladian:round-trip:on_para_eq_constraint=%s" % flag, "%s: %.3g" % (ctx, dist(L2.hs, hs)))
            else:
                out.count("var_round_trip_ok")
                # var -> generator -> var
                ok, v3 = A.call(L2.to_var)
                out.ops += 1
                if not ok or not np.array_equal(np.asarray(v3), want):
                    agg.fail("convert_var_to_effective_lindbladian:var-round-trip:on_para_eq_constraint=%s" % flag, ctx)
            ok, L3 = A.call(L.generate_from_var, np.array(v, dtype=np.float64))
            out.ops += 1
            if not ok:
                if isinstance(L3, TypeError) and "mode_proj_order" in str(L3):
                    out.count("note_generate_from_var_raises_TypeError_mode_proj_order")     # observation, outside C18
                else:
                    agg.fail("generate_from_var:raises:%s" % excsig(L3), "%s: %s" % (ctx, A.fmt_exc(L3)))
            elif not np.array_equal(L3.hs, hs):
                agg.fail("generate_from_var:round-trip:on_para_eq_constraint=%s" % flag, "%s: %.3g, first row %s" % (ctx, dist(L3.hs, hs), L3.hs[0]))
            if physical:
                # a physical generator must survive the round trip with the default (physicality required) settings
                ok, L4 = A.call(m.convert_var_to_effective_lindbladian, c, np.array(v, dtype=np.float64), on_para_eq_constraint=flag)
                out.ops += 1
                out.count("var_physical_round_trip")
                if not ok and "physically" in str(L4) and flag and isinstance(L2, EffectiveLindbladian) and L2.hs[0, 0] == 1:
                    out.count("note_convert_var_to_effective_lindbladian_inserts_e0_first_row")   # same observation
                elif not ok and "physically" in str(L4):
                    rebuilt = L2.hs if isinstance(L2, EffectiveLindbladian) else None
                    rejected_physical(agg, out, info, rebuilt, "convert_var_to_effective_lindbladian:rejects-physical:on_para_eq_constraint=%s" % flag,
                                      "%s: %s" % (ctx, A.fmt_exc(L4)))
                elif not ok:
                    agg.fail("convert_var_to_effective_lindbladian:raises:%s" % excsig(L4), "%s: %s" % (ctx, A.fmt_exc(L4)))
        agg.dig.append(np.asarray(v))
    agg.flush()
    return out


# ------------------------------------------------------------------------------------ runner interface

CHUNKS = {
    "build": {"Q1": 60, "Q3": 24, "Q3g": 24, "Q2": 10},
    "extract": {"Q1": 16, "Q3": 6, "Q3g": 6, "Q2": 3},
    "verdict": {"Q1": 40, "Q3": 12, "Q3g": 12, "Q2": 6},
    "expm": {"Q1": 40, "Q3": 20, "Q3g": 20, "Q2": 10},
    "proj": {"Q1": 64, "Q3": 16, "Q3g": 16, "Q2": 8},
    "var": {"Q1": 40, "Q3": 60, "Q3g": 60, "Q2": 60},
}
ITEMS = {
    "build": lambda info, seed: build_items(info),
    "extract": lambda info, seed: extract_items(info),
    "verdict": verdict_items,
    "expm": expm_items,
    "proj": proj_items,
    "var": lambda info, seed: var_items(info),
}


def systems(tier):
    return ["Q1", "Q3", "Q2"] if tier == "quick" else ["Q1", "Q3", "Q2", "Q3g"]


def families(tier, seed):
    fams = []
    for fam in ("build", "jump", "extract", "verdict", "expm", "proj", "var"):
        cases = []
        for tag in systems(tier):
            info = sysinfo(tag)
            if fam == "jump":
                cases += jump_cases(tag, len(jump_pool(info, seed)), tier)
                continue
            n = len(ITEMS[fam](info, seed))
            if tier == "quick" and fam in ("build", "extract"):
                n -= 4 * (NGEN - NGEN_QUICK)      # the generic representatives are the tail of the list, 4 strengths each
            ch = CHUNKS[fam][tag]
            cases += [{"sys": tag, "lo": lo, "hi": min(n, lo + ch)} for lo in range(0, n, ch)]
        fams.append((fam, cases))
    # the same construction checks on systems whose first computational-basis request was the column-major one
    cases = []
    for tag in ("Q1@col", "Q3@col", "Q2@col"):
        info = sysinfo(tag)
        n = len(build_items(info))
        lo0 = n - 4 * NGEN                                 # the generic representatives (4 strengths each)
        hi0 = lo0 + 4 * (NGEN_QUICK if tier == "quick" else NGEN)
        ch = CHUNKS["build"][tag.split("@")[0]]
        cases += [{"sys": tag, "lo": lo, "hi": min(hi0, lo + ch)} for lo in range(lo0, hi0, ch)]
    fams.append(("build_after_history", cases))
    return fams


def execute(family, params, seed):
    return {"build": ex_build, "build_after_history": ex_build, "jump": ex_jump, "extract": ex_extract, "verdict": ex_verdict, "expm": ex_expm,
            "proj": ex_proj, "var": ex_var}[family](params, seed)


def guards(summary):
    info = summary["info"]
    need = ["build_physical_accepted", "build_k_not_psd", "build_additivity_checked", "seen_j_identity_component",
            "seen_j_b1_component", "jump_sets", "jump_sets_of_size_d2", "jump_sets_with_non_normal_operator",
            "jump_c_differs_from_cdagc", "jump_c_equals_cdagc", "extract_non_tp_generator",
            "verdict_is_tp_True", "verdict_is_tp_False", "verdict_is_cp_True", "verdict_is_cp_False",
            "verdict_is_physical_True", "verdict_is_physical_False", "verdict_constructor_accepts", "verdict_constructor_rejects",
            "expm_gate_physical", "expm_non_unital_gate", "expm_far_from_identity",
            "proj_eq_nonzero_first_row", "proj_ineq_clipped_eigenvalue", "proj_ineq_physical_input",
            "proj_ineq_degenerate-spectrum", "proj_ineq_simple-spectrum", "var_flag_True", "var_flag_False", "var_physical_round_trip",
            "build_after_column_major_request", "verdict_mixed_tolerances"]
    need += ["expm_time_%g" % t for t in SCALES] + ["expm_strength_%g" % t for t in SCALES] + ["build_scale_%g" % t for t in SCALES]
    return ["never observed: %s" % k for k in need if info.get(k, 0) < 1]
