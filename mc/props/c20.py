"""C20 Experiments and tomographies accept exactly the well-formed schedules.

E1 over the whole bounded schedule language x object-list configurations against an
independent predicate; E2 (BFS) over setter histories; the four tomography classes
against their shape predicate; accepted schedules ending in their only POVM executed
against the reference Born rule.
"""
import itertools

import numpy as np

from mc import alphabet as A, refmodel as R
from mc.core import Out, inner

ID = "C20"
RULE = ("every schedule list over a 29-item alphabet (16 well-formed (kind,index) items with index in "
        "{-1,0,1,2} + 13 malformed items incl. wrong-typed indices equal to valid ones) up to the length bound x every object-list configuration; a case "
        "is non-trivial when the schedule is non-empty; distinct = distinct (configuration, schedule) pairs")
ASSUMPTIONS = ["schedule items outside the 26-item alphabet and object lists longer than 2 are not explored",
               "operands for execution are 1-qubit physical objects of the shared alphabet"]
BOUNDS = {"quick": "schedule length <= 3 on all 24 configurations, length 4 on 2 configurations; setter histories depth 3",
          "thorough": "schedule length <= 4 on all 24 configurations, length 5 on 2 configurations; setter histories depth 4"}
KINDS = ("state", "povm", "gate", "mprocess")

WELL = [(k, i) for k in KINDS for i in (-1, 0, 1, 2)]
MAL = ["A1", "A3", "LIST", "K0", "KFOO", "KUP", "IFLT", "IBOOL", "INONE", "ISTR", "GFLT", "GBOOL", "MFLT"]
NITEM = len(WELL) + len(MAL)


def item_of(code):
    if code < len(WELL):
        return WELL[code]
    return {"A1": ("state",), "A3": ("state", 0, 0), "LIST": ["state", 0], "K0": (0, 0), "KFOO": ("foo", 0),
            "KUP": ("STATE", 0), "IFLT": ("state", 0.0), "IBOOL": ("state", True), "INONE": ("povm", None),
            "ISTR": ("povm", "0"),
            # wrong-typed indices that compare EQUAL to a well-formed in-range item (1.0 == 1, True == 1, 0.0 == 0)
            "GFLT": ("gate", 1.0), "GBOOL": ("gate", True), "MFLT": ("mprocess", 0.0)}[MAL[code - len(WELL)]]


# ---- independent predicate ---------------------------------------------------------------------

def ref_item_ok(item, sizes):
    if type(item) is not tuple or len(item) != 2:
        return False
    k, i = item
    if type(k) is not str or type(i) is not int:
        return False
    if k not in KINDS:
        return False
    return 0 <= i < sizes[k]


def ref_kind(item):
    if type(item) in (tuple, list) and len(item) >= 1 and type(item[0]) is str:
        return item[0]
    return None


def ref_order_ok(schedule):
    kinds = [ref_kind(it) for it in schedule]
    if len(kinds) < 2:
        return False
    if kinds[0] != "state" or kinds.count("state") != 1:
        return False
    if kinds.count("povm") > 1:
        return False
    return kinds[-1] in ("povm", "mprocess")


def ref_expect(schedule, sizes):
    """'accept' | 'item' | 'order' | 'either'"""
    items_ok = all(ref_item_ok(it, sizes) for it in schedule)
    order_ok = ref_order_ok(schedule)
    if items_ok and order_ok:
        return "accept"
    if items_ok:
        return "order"
    if order_ok:
        return "item"
    return "either"


def ref_list_expect(schedules, sizes):
    """first offending schedule decides (the library validates in order); any later error is also fine"""
    exps = [ref_expect(s, sizes) for s in schedules]
    if all(e == "accept" for e in exps):
        return "accept", exps
    return "reject", exps


# ---- operands -----------------------------------------------------------------------------------

_POOL = {}


def pool(seed):
    if seed in _POOL:
        return _POOL[seed]
    c = A.make_system("Q1")
    st = A.states_ref(2, seed)
    pv = A.povms_ref(2, seed)
    gt = A.gates_ref(2, seed)
    ins = A.instruments_ref(2, seed)
    ref = {
        "state": [st["pure_generic"], st["mixed_generic"]],
        "povm": [pv["generic_m3"], pv["generic_m2"]],
        "gate": [gt["unitary_generic"], gt["ampdamp"]],
        "mprocess": [ins["feedback_m2"], ins["multikraus_m3"]],
    }
    q = {
        "state": [A.q_state(c, x) for x in ref["state"]],
        "povm": [A.q_povm(c, x) for x in ref["povm"]],
        "gate": [A.q_gate(c, x) for x in ref["gate"]],
        "mprocess": [A.q_mprocess(c, x) for x in ref["mprocess"]],
    }
    _POOL[seed] = (c, ref, q)
    return _POOL[seed]


# list configuration code per kind: 0 -> [], 2 -> [a, b], 'N' -> [None, b]
CONFIGS = [c for c in itertools.product((0, 2), repeat=4)] + \
          [("N", 2, 2, 2), (2, "N", 2, 2), (2, 2, "N", 2), (2, 2, 2, "N"),
           ("N", "N", 0, 0), (2, 2, 0, "N"), (1, 1, 1, 1), (1, 2, 0, 1)]


def build_lists(cfg, seed):
    _, ref, q = pool(seed)
    lists, sizes = {}, {}
    for k, code in zip(KINDS, cfg):
        if code == 0:
            lists[k] = []
        elif code == 1:
            lists[k] = [q[k][0]]
        elif code == 2:
            lists[k] = [q[k][0], q[k][1]]
        else:
            lists[k] = [None, q[k][1]]
        sizes[k] = len(lists[k])
    return lists, sizes


def construct(schedules, lists):
    from quara.qcircuit.experiment import Experiment
    return Experiment(schedules=schedules, states=list(lists["state"]), povms=list(lists["povm"]),
                      gates=list(lists["gate"]), mprocesses=list(lists["mprocess"]))


def classify(ok, val):
    from quara.qcircuit.experiment import QuaraScheduleItemError, QuaraScheduleOrderError
    if ok:
        return "accept"
    if isinstance(val, QuaraScheduleItemError):
        return "item"
    if isinstance(val, QuaraScheduleOrderError):
        return "order"
    return "other:" + type(val).__name__


def ref_distribution(schedule, lists_ref):
    ops = []
    rho = None
    for k, i in schedule:
        if k == "state":
            rho = lists_ref["state"][i]
        elif k == "gate":
            ops.append(("gate", lists_ref["gate"][i]))
        elif k == "mprocess":
            ops.append(("mprocess", lists_ref["mprocess"][i]))
        else:
            ops.append(("povm", lists_ref["povm"][i]))
    p, _ = R.run_chain(rho, ops)
    return p.ravel()


def lists_ref_for(cfg, seed):
    _, ref, _ = pool(seed)
    out = {}
    for k, code in zip(KINDS, cfg):
        if code == 0:
            out[k] = []
        elif code == 1:
            out[k] = [ref[k][0]]
        elif code == 2:
            out[k] = [ref[k][0], ref[k][1]]
        else:
            out[k] = [None, ref[k][1]]
    return out


# ---- families -------------------------------------------------------------------------------------

def families(tier, seed):
    fams = []
    ncfg = len(CONFIGS)
    full_len = 3 if tier == "quick" else 4
    deep_len = full_len + 1
    deep_cfgs = [CONFIGS.index((2, 2, 2, 2)), CONFIGS.index((2, "N", 2, 2))]
    lang = []
    for ci in range(ncfg):
        lang.append({"cfg": ci, "len": 0, "first": -1, "second": -1})
        for L in range(1, full_len + 1):
            for f in range(NITEM):
                if L >= 4:
                    for s in range(NITEM):
                        lang.append({"cfg": ci, "len": L, "first": f, "second": s})
                else:
                    lang.append({"cfg": ci, "len": L, "first": f, "second": -1})
    for ci in deep_cfgs:
        for f in range(NITEM):
            for s in range(NITEM):
                lang.append({"cfg": ci, "len": deep_len, "first": f, "second": s})
    fams.append(("language", lang))
    fams.append(("schedule_lists", [{"cfg": ci} for ci in range(ncfg)]))
    fams.append(("setters", [{"start": s, "depth": 3 if tier == "quick" else 4} for s in range(4)]))
    fams.append(("degenerate_execution", [{"maxlen": 4 if tier == "quick" else 5}]))
    fams.append(("tomography", [{"cls": c, "flag": f} for c in ("qst", "povmt", "qpt", "qmpt") for f in (True, False)]))
    return fams


def guards(summary):
    g = []
    info = summary["info"]
    for k in ("obs_accept", "obs_item", "obs_order", "executed", "exec_none_raises", "setter_rejected",
              "setter_accepted", "tomo_accept", "tomo_reject", "degenerate_executed:zero-probability-branch",
              "degenerate_executed:tiny-probability-branch", "tomo_executed"):
        if info.get(k, 0) < 1:
            g.append("never observed: %s" % k)
    return g


def execute(family, params, seed):
    return {"language": ex_language, "schedule_lists": ex_lists, "setters": ex_setters, "degenerate_execution": ex_degenerate,
            "tomography": ex_tomography}[family](params, seed)


def check_one(out, schedules, lists, sizes, cfg, seed, tag):
    exp, exps = ref_list_expect(schedules, sizes)
    ok, val = A.call(construct, schedules, lists)
    got = classify(ok, val)
    out.ops += 1
    out.count("obs_" + got.split(":")[0])
    if exp == "accept":
        if got != "accept":
            out.fail("%s:rejected-valid:%s" % (tag, got), "schedules=%r cfg=%r expected accept, got %s (%s)" % (
                schedules, cfg, got, "" if ok else A.fmt_exc(val)))
        return ok, val
    # the first non-accept schedule in list order decides what the library reports
    first = next(e for e in exps if e != "accept")
    allowed = {"item": ("item",), "order": ("order",), "either": ("item", "order")}[first]
    if got == "accept":
        out.fail("%s:accepted-malformed:%s" % (tag, first), "schedules=%r cfg=%r must be rejected (%s)" % (schedules, cfg, first))
    elif got not in allowed:
        out.fail("%s:wrong-error:%s->%s" % (tag, first, got), "schedules=%r cfg=%r expected %s error, got %s" % (
            schedules, cfg, first, A.fmt_exc(val)))
    return ok, val


def ex_language(p, seed):
    out = Out()
    cfg = CONFIGS[p["cfg"]]
    lists, sizes = build_lists(cfg, seed)
    lref = lists_ref_for(cfg, seed)
    L = p["len"]
    fixed = [c for c in (p["first"], p["second"]) if c >= 0][:L]
    n = 0
    for rest in itertools.product(range(NITEM), repeat=L - len(fixed)):
        codes = list(fixed) + list(rest)
        schedule = [item_of(c) for c in codes]
        n += 1
        ok, exp = check_one(out, [schedule], lists, sizes, cfg, seed, "experiment")
        if ok and ref_expect(schedule, sizes) == "accept":
            kinds = [k for k, _ in schedule]
            if kinds[-1] == "povm":
                has_none = any(lists[k][i] is None for k, i in schedule)
                ok2, val2 = A.call(exp.calc_prob_dist, 0)
                out.ops += 1
                if has_none:
                    if ok2 or not isinstance(val2, ValueError):
                        out.fail("experiment:none-placeholder-not-rejected", "schedule %r with a None placeholder: %r" % (schedule, val2))
                    else:
                        out.count("exec_none_raises")
                else:
                    out.traces += 1
                    if not ok2:
                        out.fail("experiment:exec-raises", "accepted schedule %r cannot be executed: %s" % (schedule, A.fmt_exc(val2)))
                    else:
                        pr = ref_distribution(schedule, lref)
                        got = np.asarray(val2, dtype=float).ravel()
                        out.count("executed")
                        if got.shape != pr.shape or abs(got.sum() - 1) > 1e-9 or got.min() < 0 or np.abs(got - pr).max() > 1e-9:
                            out.fail("experiment:exec-distribution", "schedule %r: got %r, reference %r" % (schedule, got, pr))
    inner(out, n - 1, n - 1 if L > 0 else 0)
    out.nontrivial = L > 0
    out.outcome = "ok" if not out.fails else "fail"
    return out


# ---- execution of accepted schedules on DEGENERATE objects (zero and tiny outcome probabilities) -------------------

def degenerate_pool(seed):
    key = ("deg", seed)
    if key in _POOL:
        return _POOL[key]
    c = A.make_system("Q1")
    z0 = np.diag([1.0, 0.0]).astype(complex)
    th = 1e-4                                         # tilted by 1e-4 rad: outcome probability sin^2(th/2) = 2.5e-9 in the z basis
    v = np.array([np.cos(th / 2), np.sin(th / 2)], dtype=complex)
    tilt = np.outer(v, v.conj())
    P0, P1 = np.diag([1.0, 0.0]).astype(complex), np.diag([0.0, 1.0]).astype(complex)
    X = np.array([[0, 1], [1, 0]], dtype=complex)
    H = np.array([[1, 1], [1, -1]], dtype=complex) / np.sqrt(2)
    ref = {"state": [z0, tilt], "povm": [[P0, P1], A.povms_ref(2, seed)["generic_m3"]],
           "gate": [[X], [H]], "mprocess": [[[P0], [P1]], [[P0], [X @ P1]]]}     # Lueders z measurement; z measurement with reset to |0>
    q = {"state": [A.q_state(c, x) for x in ref["state"]], "povm": [A.q_povm(c, x) for x in ref["povm"]],
         "gate": [A.q_gate(c, x) for x in ref["gate"]], "mprocess": [A.q_mprocess(c, x) for x in ref["mprocess"]]}
    _POOL[key] = (ref, q)
    return _POOL[key]


def ex_degenerate(p, seed):
    """every accepted schedule [state, (gate|mprocess)*, povm] up to the length bound over a pool whose circuits have outcomes of
    probability exactly 0 and of probability 2.5e-9: it must execute, and the distribution must be normalised"""
    from quara.qcircuit.experiment import Experiment
    out = Out()
    ref, q = degenerate_pool(seed)
    mids = [("gate", 0), ("gate", 1), ("mprocess", 0), ("mprocess", 1)]
    n = 0
    for nm in range(0, p["maxlen"] - 1):
        for mid in itertools.product(mids, repeat=nm):
            for si in (0, 1):
                for pi in (0, 1):
                    schedule = [("state", si)] + list(mid) + [("povm", pi)]
                    n += 1
                    ok, exp = A.call(Experiment, schedules=[schedule], states=list(q["state"]), povms=list(q["povm"]),
                                     gates=list(q["gate"]), mprocesses=list(q["mprocess"]))
                    out.ops += 1
                    if not ok:
                        out.fail("experiment:rejected-valid:degenerate-pool", "schedule %r: %s" % (schedule, A.fmt_exc(exp)))
                        continue
                    ok2, val = A.call(exp.calc_prob_dist, 0)
                    out.ops += 1
                    out.traces += 1
                    nmp = sum(1 for k, _ in mid if k == "mprocess")
                    cls = "mprocesses=%d" % nmp
                    pr = ref_distribution(schedule, ref)
                    kind = "zero-probability-branch" if (pr == 0).any() or pr.min() < 1e-30 else "tiny-probability-branch" if pr.min() < 1e-8 else "regular"
                    out.count("degenerate_executed:" + kind)
                    if not ok2:
                        if isinstance(val, ValueError) and "not physically correct" in str(val) and si == 1 and nmp >= 1:
                            # post-measurement state of a branch of probability 2.5e-9 rejected by the physicality check (the C06 finding)
                            out.fail("experiment:exec-raises:post-measurement-state-rejected-as-unphysical:tilted-input-state:rare-outcome",
                                     "accepted schedule %r cannot be executed: %s" % (schedule, A.fmt_exc(val)))
                        else:
                            out.fail("experiment:exec-raises:%s:%s:%s" % (type(val).__name__, kind, cls), "accepted schedule %r cannot be executed: %s" % (schedule, A.fmt_exc(val)))
                        continue
                    got = np.asarray(val, dtype=float).ravel()
                    if got.shape != pr.shape:
                        out.fail("experiment:exec-distribution:shape:%s" % cls, "schedule %r: %r outcomes, expected %r" % (schedule, got.shape, pr.shape))
                    elif abs(got.sum() - 1) > 1e-12 or got.min() < 0:
                        out.fail("experiment:exec-distribution:not-normalised:%s" % kind, "schedule %r: sum - 1 = %.3g, min %.3g" % (schedule, got.sum() - 1, got.min()))
                    elif np.abs(got - pr).max() > 2e-8:
                        out.fail("experiment:exec-distribution:values:%s:%s" % (kind, cls), "schedule %r: got %r, reference %r" % (schedule, got, pr))
    inner(out, n - 1, n - 1)
    out.outcome = "ok" if not out.fails else "fail"
    return out


SAMPLE_SCHEDULES = [
    [("state", 0), ("povm", 0)],
    [("state", 1), ("gate", 0), ("povm", 1)],
    [("state", 0), ("mprocess", 0)],
    [("state", 0), ("povm", 1), ("mprocess", 1)],
    [("state", 0), ("gate", 1), ("mprocess", 0), ("povm", 0)],
    [("povm", 0), ("state", 0)],
    [("state", 0)],
    [],
    [("state", 0), ("povm", 2)],
    [("state", 0), ("foo", 0)],
    [("state", 0), ("povm", 0), ("povm", 1)],
    [("state", 0), ["povm", 0]],
    [("state", 0), ("gate", 1), ("povm", 0)],
    [("state", 0), ("gate", 1.0), ("povm", 0)],
    [("state", 1), ("mprocess", True)],
    [("state", 0.0), ("povm", 0)],
]


def ex_lists(p, seed):
    """lists of 0..2 schedules (all ordered pairs of the sample schedules)"""
    out = Out()
    cfg = CONFIGS[p["cfg"]]
    lists, sizes = build_lists(cfg, seed)
    n = 0
    check_one(out, [], lists, sizes, cfg, seed, "experiment-list")
    for a in range(len(SAMPLE_SCHEDULES)):
        for b in range(len(SAMPLE_SCHEDULES)):
            n += 1
            check_one(out, [SAMPLE_SCHEDULES[a], SAMPLE_SCHEDULES[b]], lists, sizes, cfg, seed, "experiment-list")
    for a, b, c3 in itertools.product(range(0, len(SAMPLE_SCHEDULES), 2), repeat=3):
        n += 1
        check_one(out, [SAMPLE_SCHEDULES[a], SAMPLE_SCHEDULES[b], SAMPLE_SCHEDULES[c3]], lists, sizes, cfg, seed, "experiment-list")
    inner(out, n)
    out.outcome = "ok" if not out.fails else "fail"
    return out


# ---- setter histories (E2) -------------------------------------------------------------------------

LIST_CODES = (0, 1, 2, "N")
SCHED_SETS = [
    [],
    [[("state", 0), ("povm", 0)]],
    [[("state", 1), ("gate", 1), ("povm", 1)], [("state", 0), ("mprocess", 1)]],
    [[("state", 0), ("gate", 0), ("mprocess", 0), ("povm", 0)]],
    [[("state", 0), ("povm", 0)], [("povm", 0), ("state", 0)]],
    [[("state", 0), ("povm", 0), ("povm", 0)]],
    [[("state", 0), ("gate", 0)]],
    [[("state", 0), ("povm", 1.0)]],
]
STARTS = [((2, 2, 2, 2), 1), ((2, 2, 2, 2), 2), ((1, 1, 1, 1), 3), ((2, 1, 0, 0), 1)]


def ex_setters(p, seed):
    """BFS over setter histories; state = (list codes x4, schedule-set id); transitions call the real setters."""
    from quara.qcircuit.experiment import QuaraScheduleItemError, QuaraScheduleOrderError
    out = Out()
    _, _, q = pool(seed)

    def mk(kind, code):
        if code == 0:
            return []
        if code == 1:
            return [q[kind][0]]
        if code == 2:
            return [q[kind][0], q[kind][1]]
        return [None, q[kind][1]]

    def sizes_of(cfg):
        return {k: (0 if c == 0 else 1 if c == 1 else 2) for k, c in zip(KINDS, cfg)}

    menu = [("list", k, code) for k in range(4) for code in LIST_CODES] + [("sched", s, None) for s in range(len(SCHED_SETS))]
    cfg0, s0 = STARTS[p["start"]]

    def build(hist):
        lists = {k: mk(k, c) for k, c in zip(KINDS, cfg0)}
        e = construct(SCHED_SETS[s0], lists)
        for ev in hist:
            try:
                apply_ev(e, ev)
            except (QuaraScheduleItemError, QuaraScheduleOrderError):
                pass
        return e

    def apply_ev(e, ev):
        t, a, b = ev
        if t == "list":
            setattr(e, ["states", "povms", "gates", "mprocesses"][a], mk(KINDS[a], b))
        else:
            e.schedules = SCHED_SETS[a]

    seen = {(cfg0, s0)}
    frontier = [([], (cfg0, s0))]
    depth = 0
    while frontier and depth < p["depth"]:
        nxt = []
        for hist, (cfg, sid) in frontier:
            for ev in menu:
                e = build(hist)
                before = (list(e.states), list(e.povms), list(e.gates), list(e.mprocesses), e.schedules)
                if ev[0] == "list":
                    ncfg = tuple(ev[2] if i == ev[1] else c for i, c in enumerate(cfg))
                    nsid = sid
                else:
                    ncfg, nsid = cfg, ev[1]
                exp, exps = ref_list_expect(SCHED_SETS[nsid], sizes_of(ncfg))
                ok, val = A.call(apply_ev, e, ev)
                out.transitions += 1
                out.ops += 1
                got = classify(ok, val)
                after = (list(e.states), list(e.povms), list(e.gates), list(e.mprocesses), e.schedules)
                if exp == "accept":
                    if not ok:
                        out.fail("setter:rejected-valid:%s" % got, "history %r then %r: %s" % (hist, ev, A.fmt_exc(val)))
                        continue
                    out.count("setter_accepted")
                    # the new value is in force
                    want = mk(KINDS[ev[1]], ev[2]) if ev[0] == "list" else SCHED_SETS[ev[1]]
                    cur = after[ev[1]] if ev[0] == "list" else after[4]
                    if ev[0] == "list" and not (len(cur) == len(want) and all(x is y for x, y in zip(cur, want))):
                        out.fail("setter:value-not-set", "history %r then %r" % (hist, ev))
                    if ev[0] == "sched" and cur != want:
                        out.fail("setter:value-not-set", "history %r then %r" % (hist, ev))
                    st = (ncfg, nsid)
                    if st not in seen:
                        seen.add(st)
                        nxt.append((hist + [ev], st))
                else:
                    first = next(x for x in exps if x != "accept")
                    allowed = {"item": ("item",), "order": ("order",), "either": ("item", "order")}[first]
                    if ok:
                        out.fail("setter:accepted-malformed:%s" % first, "history %r then %r leaves the experiment with schedules %r on sizes %r" % (
                            hist, ev, SCHED_SETS[nsid], sizes_of(ncfg)))
                    else:
                        out.count("setter_rejected")
                        if got not in allowed:
                            out.fail("setter:wrong-error:%s->%s" % (first, got), "history %r then %r: %s" % (hist, ev, A.fmt_exc(val)))
                        same = all(len(x) == len(y) and all(u is v for u, v in zip(x, y)) for x, y in zip(before[:4], after[:4])) and before[4] == after[4]
                        if not same:
                            out.fail("setter:rejected-but-changed", "history %r then %r changed the experiment although it raised" % (hist, ev))
        frontier = nxt
        depth += 1
    out.states = len(seen)
    out.outcome = "states=%d" % len(seen)
    out.info["setter_fixpoint"] = 0 if frontier else 1
    return out


# ---- tomography classes ------------------------------------------------------------------------------

TOMO_ITEMS = [(k, i) for k in KINDS for i in (0, 1, 2)] + [("foo", 0), ("state", 0.0)]


def ex_tomography(p, seed):
    from quara.protocol.qtomography.standard.standard_qst import StandardQst
    from quara.protocol.qtomography.standard.standard_povmt import StandardPovmt
    from quara.protocol.qtomography.standard.standard_qpt import StandardQpt
    from quara.protocol.qtomography.standard.standard_qmpt import StandardQmpt
    out = Out()
    c, ref, q = pool(seed)
    cls, flag = p["cls"], p["flag"]
    states, povms = q["state"], q["povm"]

    def make(schedules):
        if cls == "qst":
            return StandardQst(povms, on_para_eq_constraint=flag, schedules=schedules)
        if cls == "povmt":
            return StandardPovmt(states, 3, on_para_eq_constraint=flag, schedules=schedules)
        if cls == "qpt":
            return StandardQpt(states, povms, on_para_eq_constraint=flag, schedules=schedules)
        return StandardQmpt(states, povms, 2, on_para_eq_constraint=flag, schedules=schedules)

    def shape_ok(s):
        if not all(type(it) is tuple and len(it) == 2 and type(it[0]) is str and type(it[1]) is int for it in s):
            return False
        if cls == "qst":
            return len(s) == 2 and s[0] == ("state", 0) and s[1][0] == "povm" and 0 <= s[1][1] < 2
        if cls == "povmt":
            return len(s) == 2 and s[0][0] == "state" and 0 <= s[0][1] < 2 and s[1] == ("povm", 0)
        mid = "gate" if cls == "qpt" else "mprocess"
        return (len(s) == 3 and s[0][0] == "state" and 0 <= s[0][1] < 2 and s[1] == (mid, 0)
                and s[2][0] == "povm" and 0 <= s[2][1] < 2)

    def all_expansion():
        if cls == "qst":
            return [[("state", 0), ("povm", i)] for i in range(2)]
        if cls == "povmt":
            return [[("state", i), ("povm", 0)] for i in range(2)]
        mid = "gate" if cls == "qpt" else "mprocess"
        return [[("state", i), (mid, 0), ("povm", j)] for i in range(2) for j in range(2)]

    n = 0
    valid = []
    for L in range(0, 5):
        for codes in itertools.product(range(len(TOMO_ITEMS)), repeat=L):
            s = [TOMO_ITEMS[k] for k in codes]
            n += 1
            exp = shape_ok(s)
            ok, val = A.call(make, [s])
            out.ops += 1
            if exp and not ok:
                out.fail("tomography:%s:rejected-own-shape" % cls, "schedule %r: %s" % (s, A.fmt_exc(val)))
            elif not exp and ok:
                out.fail("tomography:%s:accepted-foreign-shape" % cls, "schedule %r accepted" % (s,))
            if ok and exp:
                out.count("tomo_accept")
                valid.append(s)
                if list(val._experiment.schedules) != [s] or val.num_schedules != 1:
                    out.fail("tomography:%s:schedules-not-kept" % cls, "given %r kept %r" % (s, val._experiment.schedules))
            if not ok:
                out.count("tomo_reject")
    # the unknown object of this tomography and the reference lists in which it fills the empty slot
    slot = {"qst": "state", "povmt": "povm", "qpt": "gate", "qmpt": "mprocess"}[cls]
    true_q = q[slot][0]
    lref = {"state": list(ref["state"]), "povm": list(ref["povm"]), "gate": [], "mprocess": []}
    lref[slot] = [ref[slot][0]]

    def model_matches(qt, scheds, label):
        """schedule i of an accepted list can be executed through the tomography's model and gives the distribution of the items it names"""
        for i, sch in enumerate(scheds):
            okp, pd = A.call(qt.calc_prob_dist, true_q, i)
            out.ops += 1
            out.traces += 1
            if not okp:
                out.fail("tomography:%s:accepted-schedule-cannot-be-executed:%s" % (cls, label), "schedules %r index %d: %s" % (scheds, i, A.fmt_exc(pd)))
                return
            pr = ref_distribution(sch, lref)
            got = np.asarray(pd, dtype=float).ravel()
            out.count("tomo_executed")
            if got.shape != pr.shape or abs(got.sum() - 1) > 1e-9 or np.abs(got - pr).max() > 1e-9:
                out.fail("tomography:%s:executed-distribution-is-not-the-named-schedule's:%s" % (cls, label),
                         "schedules %r index %d (%r): got %r, the named items give %r" % (scheds, i, sch, got.tolist(), pr.tolist()))
                return

    # lists of two schedules: valid+valid (all ordered pairs), valid+invalid in both orders
    bad = [[("state", 0), ("povm", 0), ("povm", 0)], [("povm", 0), ("state", 0)], []]
    for a in valid:
        for b in valid:
            n += 1
            ok, val = A.call(make, [a, b])
            out.ops += 1
            if not ok:
                out.fail("tomography:%s:rejected-valid-pair" % cls, "%r: %s" % ([a, b], A.fmt_exc(val)))
            elif list(val._experiment.schedules) != [a, b]:
                out.fail("tomography:%s:schedules-not-kept" % cls, "%r" % ([a, b],))
            else:
                model_matches(val, [a, b], "pair")
    # lists longer than the object lists (repeats), every ordered triple of valid schedules
    for trip in itertools.product(valid, repeat=3):
        n += 1
        ok, val = A.call(make, list(trip))
        out.ops += 1
        if not ok:
            out.fail("tomography:%s:rejected-valid-triple" % cls, "%r: %s" % (list(trip), A.fmt_exc(val)))
        elif list(val._experiment.schedules) != list(trip):
            out.fail("tomography:%s:schedules-not-kept" % cls, "%r" % (list(trip),))
        else:
            model_matches(val, list(trip), "triple")
    for a in valid:
        n += 1
        ok, val = A.call(make, [a])
        if ok:
            model_matches(val, [a], "single")
    for a in valid:
        for b in bad:
            for pair in ([a, b], [b, a]):
                n += 1
                ok, val = A.call(make, pair)
                out.ops += 1
                if ok:
                    out.fail("tomography:%s:accepted-invalid-pair" % cls, "%r" % (pair,))
    # "all" expansion and other strings
    ok, val = A.call(make, "all")
    out.ops += 1
    if not ok:
        out.fail("tomography:%s:all-raises" % cls, A.fmt_exc(val))
    elif [list(map(tuple, s)) for s in val._experiment.schedules] != all_expansion():
        out.fail("tomography:%s:all-expansion" % cls, "got %r" % (val._experiment.schedules,))
    for s in ("ALL", "", "all ", "none", "state"):
        ok, val = A.call(make, s)
        out.ops += 1
        n += 1
        if ok or not isinstance(val, ValueError):
            out.fail("tomography:%s:string-not-rejected" % cls, "schedules=%r -> %r" % (s, val))
    inner(out, n)
    out.outcome = "valid=%d" % len(valid)
    return out
