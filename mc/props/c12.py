"""C12 Loss values, derivatives and fast paths agree; every accepted weighting mode takes effect.

E1: tomography type x parametrisation x outcome count x loss class x weighting mode x data table x variable point.
    quadratic losses on the unisolvent set {0, e_i, e_i+e_j (i<=j)} (value == defining formula there => equal as
    polynomials; gradient / Hessian == exact second differences of the REPORTED values and == closed form);
    entropy losses on a fixed grid inside and outside the physical set (closed form + Richardson differences).
E2: every reconfiguration sequence of one loss object of length <= 3 over (data set x mode).
Plus: direct construction (constructor / setters, reference-side model closures), a smooth non-affine model for the
generic classes (exercises the second Hessian term), and the quara.math.entropy primitives on all small tables.
"""
import itertools

import numpy as np

from mc import alphabet as A, refmodel as R
from mc.core import Out, inner, HarnessError
from mc.props import _c12_ref as X

ID = "C12"
RULE = ("cases = (tomography set-up [type, parametrisation flag, outcome counts], loss family, block of data tables); inside a "
        "case every loss class x every mode string of the option alphabet x every table x every point of the point set is "
        "evaluated; distinct = distinct (set-up, class, route, mode, table) configurations; non-trivial = the table differs "
        "from the model prediction at the evaluated points (non-zero residual) or the weights are not the identity")
ASSUMPTIONS = [
    "the quadratic losses are polynomials of degree <= 2 in the variable (they are compositions of an affine model and a "
    "quadratic form), so agreement on the unisolvent set is agreement everywhere",
    "entropy losses are only judged at grid points whose predicted probabilities are all >= 0.02 and for data entries that are "
    "0 or >= 1e-5 (away from the documented 1e-10 / 1e-8 clipping)",
    "joint data tables are not the full product over schedules: table number (t + s*(1+K//4)) mod K is given to schedule s, "
    "so every table of N <= 3 counts occurs at every schedule position",
    "inverse-covariance weights are judged by the Pearson identity on the sum-zero subspace with an allowed regulariser of "
    "2 n^-3/2 (max-norm, basis e_i - e_last); the regulariser is assumed not to depend on sample/unbiased mode; unbiased "
    "modes are only used with num_data >= 2; 'unbiased_inverse_covariance' is read as an alias of 'inverse_unbiased_covariance'",
    "testers have equal outcome counts within one tomography (mixed counts belong to C08); 1-qubit systems (thorough: also one qutrit)",
    "a mode string the option constructor rejects with ValueError is outside the property (counted, not judged)",
]
BOUNDS = {
    "quick": "1 qubit; qst/povmt/qpt outcome counts 2..5, qmpt (mprocess x povm outcomes) (2,1),(3,1),(2,2) and (5,1) with the N=1 "
             "tables only, x both flags; tables: all N<=3 compositions + exact/rounded data at n=1e2,1e5; direct construction on "
             "every third table; E2 sequences length <= 3 over 2 data sets x all modes on 5 set-ups; all sequences of length 3 over "
             "{value, gradient at 2 points through one in-place overwritten argument array, new data set, switch of the tomography} "
             "x 4 classes x {identity, custom} x 4 set-ups",
    "thorough": "adds qmpt (4,1),(2,3),(3,2),(5,1) with all tables, direct construction on every table, Richardson Hessians at "
                "every selected point, E2 on 8 set-ups, argument-array / switch sequences of length 4 on 6 set-ups, qutrit qst m=3,4 / povmt m=3 / qpt m=2 (reduced tables)",
}
EXHAUSTIVE = {"quick": True, "thorough": True}
CASE_TIMEOUT = 900

SE_MODES = ["identity", "custom:A", "custom:B", "inverse_sample_covariance", "inverse_unbiased_covariance",
            "unbiased_inverse_covariance"]
RE_MODES = list(SE_MODES)
TOL = 1e-9
DTOL = 1e-6

_LIB = {}


def lib():
    if not _LIB:
        from quara.loss_function.weighted_probability_based_squared_error import (
            WeightedProbabilityBasedSquaredError as SE, WeightedProbabilityBasedSquaredErrorOption as SEO)
        from quara.loss_function.standard_qtomography_based_weighted_probability_based_squared_error import (
            StandardQTomographyBasedWeightedProbabilityBasedSquaredError as FSE,
            StandardQTomographyBasedWeightedProbabilityBasedSquaredErrorOption as FSEO)
        from quara.loss_function.weighted_relative_entropy import (
            WeightedRelativeEntropy as RE, WeightedRelativeEntropyOption as REO)
        from quara.loss_function.standard_qtomography_based_weighted_relative_entropy import (
            StandardQTomographyBasedWeightedRelativeEntropy as FRE,
            StandardQTomographyBasedWeightedRelativeEntropyOption as FREO)
        _LIB.update({"se": (SE, SEO), "fast_se": (FSE, FSEO), "re": (RE, REO), "fast_re": (FRE, FREO)})
    return _LIB


def raise_kind(e):
    """classifies an exception of a configuration call so that distinct causes get distinct signatures"""
    msg = str(e)
    if "broadcast" in msg:
        return "raises-shape"
    if "symmetric" in msg:
        return "raises-symmetry-check"
    return "raises-" + type(e).__name__


def mclass(m):
    return "m=2" if m == 2 else "m>=3"


def modeclass(mode):
    return mode.split(":")[0]


def is_se(cls):
    return cls in ("se", "fast_se")


def expect_of(cls, mode, w):
    if mode == "identity":
        return ("identity",)
    if mode.startswith("custom"):
        return ("custom", w)
    if is_se(cls):
        return ("inverse", "n" if mode == "inverse_sample_covariance" else "n-1")
    return ("unknown",)


def make_option(cls, mode, su):
    ocls = lib()[cls][1]
    if mode.startswith("custom"):
        tag = mode[-1]
        w = X.custom_mats(tag, su.S, su.m, su.seed) if is_se(cls) else X.custom_vec(tag, su.S)
        ok, opt = A.call(ocls, mode_weight="custom", weights=w)
        return ok, opt, w
    ok, opt = A.call(ocls, mode_weight=mode)
    return ok, opt, None


def fresh_data(data):
    return [(n, np.array(q, dtype=np.float64)) for n, q in data]


def configure(L, cls, su, opt, data):
    return A.call(L.set_from_standard_qtomography_option_data, su.qt, opt, fresh_data(data), True, cls in ("se", "re"))


_UNI = {}


def uni(n):
    if n not in _UNI:
        _UNI[n] = X.unisolvent(n)
    return _UNI[n]


# ================================================================== judging one configured loss object

def weights_wellformed_se(W, su):
    if W is None:
        return True
    try:
        return len(W) == su.S and all(np.asarray(w).shape == (su.m, su.m) and np.all(np.isfinite(np.asarray(w, float))) for w in W)
    except Exception:
        return False


def same_weights(W, prev):
    if W is None or prev is None:
        return False
    if W is prev:
        return True
    try:
        return len(W) == len(prev) and all(np.array_equal(np.asarray(a), np.asarray(b)) for a, b in zip(W, prev))
    except Exception:
        return False


def judge_se(out, su, cls, route, mode, hist, L, data, expect, ctx, light=False, prev=None):
    tail = "mode=%s:hist=%s:%s:%s" % (modeclass(mode), hist, mclass(su.m), su.typ)
    site = "%s.%s" % (cls, route)
    res = {"ok": True, "vals": None, "grads": None, "W": None, "Winv": None, "sc": None}
    seen = set()

    def bad(what, msg):
        res["ok"] = False
        if what in seen:
            return
        seen.add(what)
        out.fail("%s:%s:%s" % (site, what, tail), "%s flag=%s m=%d | %s" % (ctx, su.flag, su.m, msg))

    Q = np.array([q for _, q in data], dtype=float)
    ns = [n for n, _ in data]
    S, m, n = su.S, su.m, su.n
    W = L.weight_matrices
    if not weights_wellformed_se(W, su):
        bad("weights-malformed", "reported weight_matrices %r" % (W,))
        return res
    # ---- (a) the reported weights are the ones the mode denotes
    if expect[0] == "identity":
        if W is not None and not all(np.array_equal(np.asarray(w), np.eye(m)) for w in W):
            bad("weights-not-in-effect", "mode 'identity' but weight_matrices[0] = %r (weights of an earlier configuration kept)" % (np.asarray(W[0]).tolist(),))
    elif expect[0] == "custom":
        if W is None or not all(np.array_equal(np.asarray(a), np.asarray(b)) for a, b in zip(W, expect[1])):
            bad("weights-not-in-effect", "mode 'custom': weight_matrices are %s instead of the option's weights" % (
                "None" if W is None else "different matrices"))
    elif expect[0] == "inverse":
        if W is None:
            bad("weights-not-in-effect", "mode %r is accepted by the option but weight_matrices stay None (identity weights are used)" % mode)
        else:
            Winv = []
            for s in range(S):
                nprime = ns[s] if expect[1] == "n" else ns[s] - 1
                defect, allow, Wi = X.pearson_defect(W[s], Q[s], ns[s], nprime)
                out.traces += 1
                if not defect <= allow and same_weights(W, prev):
                    bad("weights-not-in-effect", "mode %r is accepted by the option but the weight_matrices of the previous configuration are kept" % mode)
                    Winv = None
                    break
                if not defect <= allow:
                    bad("pearson", "schedule %d n=%d q=%r: restricted inverse of the reported weight differs from the multinomial "
                        "covariance/%d by %.3g (allowed regulariser %.3g); W=%r" % (s, ns[s], Q[s].tolist(), nprime, defect, allow, np.asarray(W[s]).tolist()))
                    Winv = None
                    break
                Winv.append(Wi)
            if Winv is not None:
                res["Winv"] = Winv
                out.count("pearson_ok:" + mclass(m))
    res["W"] = W
    if W is not None and not all(np.array_equal(np.asarray(w), np.eye(m)) for w in W):
        out.count("judged_nonidentity_weights:" + cls)
    # ---- (b) value == defining formula with the reported weights, on the unisolvent set
    V, idx_e, idx_p = uni(n)
    vals = np.empty(len(V))
    for k in range(len(V)):
        ok, f = A.call(L.value, V[k].copy())
        if not ok:
            bad("value-raises", A.fmt_exc(f))
            return res
        vals[k] = f
    out.ops += len(V)
    out.traces += len(V)
    ref, sc = X.se_value(su, Q, W, V)
    tol = TOL * sc + 1e-12
    err = np.abs(vals - ref)
    if not np.all(err <= tol):
        k = int(np.argmax(err / tol))
        ident, _ = X.se_value(su, Q, None, V)
        hint = " (the values equal the identity-weight formula)" if np.all(np.abs(vals - ident) <= tol + TOL * np.abs(ident)) else ""
        bad("value-vs-reported-weights", "value(%r)=%.12g but sum_s r^T W_s r with the reported weight_matrices = %.12g%s" % (
            V[k].tolist(), vals[k], ref[k], hint))
    res["vals"], res["sc"] = vals, sc
    if np.abs(ref).max() > 1e-9:
        out.count("nonzero_residual")
    # ---- (c) gradient == derivative of the reported value (exact second differences) and == closed form
    f0, g0, H = X.quadratic_from_values(vals, n, idx_e, idx_p)
    vs = float(sc.max()) + float(np.abs(vals).max())
    if light:
        gk = sorted({0, idx_e[0], idx_e[-1], idx_p[(0, n - 1)]})
    else:
        pairs = [(0, 0), (0, n - 1), (n // 2, n - 1), (n - 1, n - 1)]
        gk = sorted(set([0] + idx_e + [idx_p[(min(i, j), max(i, j))] for i, j in pairs]))
    grads = []
    for k in gk:
        ok, g = A.call(L.gradient, V[k].copy())
        out.ops += 1
        if not ok:
            bad("gradient-raises", A.fmt_exc(g))
            return res
        g = np.asarray(g, dtype=float)
        if g.shape != (n,):
            bad("gradient-shape", "shape %r" % (g.shape,))
            return res
        grads.append(g)
        gref, gsc = X.se_grad(su, Q, W, V[k])
        tolg = TOL * max(vs, gsc) + 1e-12
        out.traces += 2
        if np.abs(g - (g0 + H @ V[k])).max() > tolg:
            bad("gradient-not-derivative", "at %r gradient=%r, exact differences of value()=%r" % (V[k].tolist(), g.tolist(), (g0 + H @ V[k]).tolist()))
        if np.abs(g - gref).max() > tolg:
            bad("gradient-vs-reported-weights", "at %r gradient=%r, closed form with the reported weights=%r" % (V[k].tolist(), g.tolist(), gref.tolist()))
    res["grads"] = np.array(grads)
    # ---- (d) Hessian (generic class only; the fast class documents NotImplementedError)
    if cls == "se":
        Href, hsc = X.se_hess(su, W)
        hk = [0] if (light or n > 20) else [0, idx_p[(0, n - 1)]]
        for k in hk:
            ok, Hl = A.call(L.hessian, V[k].copy())
            out.ops += 1
            if not ok:
                bad("hessian-raises", A.fmt_exc(Hl))
                return res
            Hl = np.asarray(Hl, dtype=float)
            tolh = TOL * max(vs, hsc) + 1e-12
            out.traces += 2
            if Hl.shape != (n, n):
                bad("hessian-shape", "shape %r" % (Hl.shape,))
            else:
                if np.abs(Hl - H).max() > tolh:
                    bad("hessian-not-derivative", "at %r max deviation from the exact second differences of value(): %.3g" % (V[k].tolist(), np.abs(Hl - H).max()))
                if np.abs(Hl - Href).max() > tolh:
                    bad("hessian-vs-reported-weights", "at %r max deviation from 2 sum A^T W A: %.3g" % (V[k].tolist(), np.abs(Hl - Href).max()))
    return res


def weights_wellformed_re(w, su):
    if w is None:
        return True
    try:
        return len(w) == su.S and all(np.isfinite(float(x)) for x in w)
    except Exception:
        return False


def rich_points(grid):
    """indices of the grid points where difference quotients are taken: first inside, first outside, last"""
    sel = []
    for want in (True, False):
        for k, (_, _, ins) in enumerate(grid):
            if ins == want:
                sel.append(k)
                break
    sel.append(len(grid) - 1)
    return sorted(set(sel))


def judge_re(out, su, cls, route, mode, hist, L, data, expect, ctx, light=False, deep=False, prev=None):
    tail = "mode=%s:hist=%s:%s:%s" % (modeclass(mode), hist, mclass(su.m), su.typ)
    site = "%s.%s" % (cls, route)
    res = {"ok": True, "vals": None, "grads": None, "sc": None}
    seen = set()

    def bad(what, msg):
        res["ok"] = False
        if what in seen:
            return
        seen.add(what)
        out.fail("%s:%s:%s" % (site, what, tail), "%s flag=%s m=%d | %s" % (ctx, su.flag, su.m, msg))

    Q = np.array([q for _, q in data], dtype=float)
    n = su.n
    w = L.weights
    if not weights_wellformed_re(w, su):
        bad("weights-malformed", "reported weights %r" % (w,))
        return res
    if expect[0] == "identity":
        if w is not None and not all(float(x) == 1.0 for x in w):
            bad("weights-not-in-effect", "mode 'identity' but weights = %r (weights of an earlier configuration kept)" % (list(w),))
    elif expect[0] == "custom":
        if w is None or [float(x) for x in w] != [float(x) for x in expect[1]]:
            bad("weights-not-in-effect", "mode 'custom' with option weights %r: loss.weights = %r" % (expect[1], None if w is None else list(w)))
    if w is not None and not all(float(x) == 1.0 for x in w):
        out.count("judged_nonidentity_weights:" + cls)
    grid = X.entropy_grid(su)
    if light:
        grid = [grid[k] for k in rich_points(grid)]
    vals, grads, scs = [], [], []
    for lab, v, inside in grid:
        ok, f = A.call(L.value, v.copy())
        out.ops += 1
        if not ok:
            bad("value-raises", A.fmt_exc(f))
            return res
        ref, sc = X.re_value(su, Q, w, v)
        out.traces += 1
        out.count("re_pts_inside" if inside else "re_pts_outside")
        if abs(f - ref) > TOL * sc + 1e-12:
            ident, _ = X.re_value(su, Q, None, v)
            hint = " (the value equals the unweighted formula)" if abs(f - ident) <= TOL * (sc + abs(ident)) + 1e-12 else ""
            bad("value-vs-reported-weights", "point %s: value=%.12g but sum_s w_s KL(q_s||p_s) with the reported weights = %.12g%s" % (lab, f, ref, hint))
        if abs(ref) > 1e-9:
            out.count("nonzero_residual")
        vals.append(float(f))
        scs.append(sc)
        ok, g = A.call(L.gradient, v.copy())
        out.ops += 1
        if not ok:
            bad("gradient-raises", A.fmt_exc(g))
            return res
        g = np.asarray(g, dtype=float)
        if g.shape != (n,):
            bad("gradient-shape", "shape %r" % (g.shape,))
            return res
        gref, gsc = X.re_grad(su, Q, w, v)
        out.traces += 1
        if np.abs(g - gref).max() > TOL * gsc + 1e-12:
            bad("gradient-vs-reported-weights", "point %s: gradient=%r closed form with the reported weights=%r" % (lab, g.tolist(), gref.tolist()))
        grads.append(g)
    res["vals"], res["grads"], res["sc"] = np.array(vals), np.array(grads), np.array(scs)
    # ---- difference quotients of the reported value / gradient
    sel = list(range(len(grid))) if light else rich_points(grid)
    amax = max(1.0, float(np.abs(su.A).max()))
    for num, k in enumerate(sel):
        lab, v, inside = grid[k]
        pmin = float((su.A @ v + su.b).min())
        h = 0.01 * pmin / amax
        g = grads[k]
        _, gsc = X.re_grad(su, Q, w, v)
        try:
            gd = X.richardson(lambda x: float(L.value(x)), v, h)
        except Exception as e:  # noqa
            bad("value-raises", "near %s: %s" % (lab, A.fmt_exc(e)))
            return res
        out.ops += 4 * n
        out.traces += 1
        out.count("richardson_gradients")
        if np.abs(g - gd).max() > DTOL * max(gsc, scs[k]) + 1e-10:
            bad("gradient-not-derivative", "point %s: gradient=%r, Richardson differences of value()=%r" % (lab, g.tolist(), gd.tolist()))
        if cls == "re":
            ok, Hl = A.call(L.hessian, v.copy())
            out.ops += 1
            if not ok:
                bad("hessian-raises", A.fmt_exc(Hl))
                return res
            Hl = np.asarray(Hl, dtype=float)
            Href, hsc = X.re_hess(su, Q, w, v)
            out.traces += 1
            if Hl.shape != (n, n):
                bad("hessian-shape", "shape %r" % (Hl.shape,))
                continue
            if np.abs(Hl - Href).max() > TOL * hsc + 1e-12:
                bad("hessian-vs-reported-weights", "point %s: max deviation from sum w A^T diag(q/p^2) A: %.3g" % (lab, np.abs(Hl - Href).max()))
            if (num == 0 or deep) and not light and n <= 32:
                Hd = X.richardson(lambda x: np.asarray(L.gradient(x), dtype=float), v, h)
                out.ops += 4 * n
                out.traces += 1
                out.count("richardson_hessians")
                if np.abs(Hl - Hd).max() > DTOL * max(hsc, gsc) + 1e-10:
                    bad("hessian-not-derivative", "point %s: max deviation from Richardson differences of gradient(): %.3g" % (lab, np.abs(Hl - Hd).max()))
    return res


def compare_fast_generic(out, su, kind, route, mode, hist, rg, rf, ctx):
    """fast == generic for the same data, weights and mode (only when neither already failed its own oracle)"""
    if rg is None or rf is None or not rg["ok"] or not rf["ok"] or rg["vals"] is None or rf["vals"] is None:
        return
    tail = "mode=%s:hist=%s:%s:%s" % (modeclass(mode), hist, mclass(su.m), su.typ)
    sc = np.maximum(rg["sc"], rf["sc"])
    out.traces += 2
    out.count("fast_vs_generic")
    if rg["vals"].shape != rf["vals"].shape or not np.all(np.abs(rg["vals"] - rf["vals"]) <= TOL * sc + 1e-12):
        out.fail("fast_%s_vs_%s.%s:value:%s" % (kind, kind, route, tail), "%s | fast and generic values differ by %.3g" % (ctx, np.abs(rg["vals"] - rf["vals"]).max()))
    gs = max(float(np.abs(rg["grads"]).max()), float(sc.max()), 1e-3)
    if rg["grads"].shape != rf["grads"].shape or np.abs(rg["grads"] - rf["grads"]).max() > TOL * gs * 10:
        out.fail("fast_%s_vs_%s.%s:gradient:%s" % (kind, kind, route, tail), "%s | fast and generic gradients differ" % ctx)


# ================================================================== E1 cases

def ref_closures(su):
    A3, b2 = su.A3, su.b2
    fp = [(lambda v, s=s: A3[s] @ v + b2[s]) for s in range(su.S)]
    fg = [(lambda al, v, s=s: np.array(A3[s][:, al], dtype=np.float64)) for s in range(su.S)]
    fh = [(lambda al, be, v, s=s: np.zeros(su.m, dtype=np.float64)) for s in range(su.S)]
    return fp, fg, fh


def build_direct(cls, su, data, w, variant):
    """construct a loss without options. variant 'ctor': everything through the constructor (fast: constructor then the
    two model setters); 'setters': empty object then public setters, weights LAST"""
    C = lib()[cls][0]
    qs = [np.array(q, dtype=np.float64) for _, q in data]
    if cls in ("se", "re"):
        fp, fg, fh = ref_closures(su)
        if variant == "ctor":
            return C(su.n, fp, fg, fh, qs, w)
        L = C(su.n)
        L.set_func_prob_dists(fp)
        L.set_func_gradient_prob_dists(fg)
        L.set_func_hessian_prob_dists(fh)
        L.set_prob_dists_q(qs)
        (L.set_weight_matrices if cls == "se" else L.set_weights)(w)
        return L
    if variant == "ctor":
        L = C(su.n, qs, w)
        L.set_func_prob_dists_from_standard_qt(su.qt)
        L.set_func_gradient_prob_dists_from_standard_qt(su.qt)
        return L
    L = C(su.n)
    L.set_prob_dists_q(qs)
    L.set_func_prob_dists_from_standard_qt(su.qt)
    L.set_func_gradient_prob_dists_from_standard_qt(su.qt)
    (L.set_weight_matrices if cls == "fast_se" else L.set_weights)(w)
    return L


def run_dataset(out, su, kind, did, data, tier, direct, acc):
    """kind 'se' | 're': all classes x modes x routes for one data table"""
    classes = ("se", "fast_se") if kind == "se" else ("re", "fast_re")
    modes = SE_MODES if kind == "se" else RE_MODES
    judge = judge_se if kind == "se" else judge_re
    nmin = min(n for n, _ in data)
    ctx = "%s/%s(%s,%s) data=%s" % (su.typ, su.systag, su.mm, su.mp, did)
    results = {}
    nconf = 0
    for cls in classes:
        for mode in modes:
            ok, opt, w = make_option(cls, mode, su)
            if not ok:
                if isinstance(opt, ValueError):
                    out.count("option_rejects:%s:%s" % (cls, mode))
                else:
                    out.fail("%s.option:raises:mode=%s" % (cls, modeclass(mode)), A.fmt_exc(opt))
                continue
            expect = expect_of(cls, mode, w)
            if expect[0] == "unknown":
                out.count("unjudged_mode_accepted:%s:%s" % (cls, mode))
                continue
            if expect[0] == "inverse" and expect[1] == "n-1" and nmin < 2:
                out.count("skipped_unbiased_n<2")
                continue
            L = lib()[cls][0]()
            ok, e = configure(L, cls, su, opt, data)
            out.ops += 1
            nconf += 1
            if not ok:
                out.count("raises:%s:%s:%s" % (cls, modeclass(mode), mclass(su.m)))
                out.fail("%s.configure:%s:mode=%s:hist=fresh:%s:%s" % (cls, raise_kind(e), modeclass(mode), mclass(su.m), su.typ),
                         "%s flag=%s | set_from_standard_qtomography_option_data: %s" % (ctx, su.flag, A.fmt_exc(e)))
                continue
            out.count("configured:%s:%s" % (cls, modeclass(mode)))
            kw = {"deep": tier == "thorough"} if kind == "re" else {}
            results[(cls, mode)] = judge(out, su, cls, "configure", mode, "fresh", L, data, expect, ctx, **kw)
            if results[(cls, mode)]["vals"] is not None:
                acc.append(results[(cls, mode)]["vals"])
        # sample vs unbiased covariance: the mode changes the weights by exactly the documented factor
        if kind == "se":
            rs = results.get((cls, "inverse_sample_covariance"))
            for um in ("inverse_unbiased_covariance", "unbiased_inverse_covariance"):
                ru = results.get((cls, um))
                if rs is None or ru is None or rs["Winv"] is None or ru["Winv"] is None:
                    continue
                for s, (n, q) in enumerate(data):
                    d = ru["Winv"][s] - rs["Winv"][s]
                    want = X.reduced_cov_unit(q) / (n * (n - 1.0))
                    tol = 1e-7 / (n * (n - 1.0)) + TOL * float(np.abs(rs["Winv"][s]).max())
                    out.traces += 1
                    out.count("mode_scaling_checked:" + mclass(su.m))
                    if np.abs(d - want).max() > tol:
                        out.fail("%s.configure:mode-scaling:mode=%s:hist=fresh:%s:%s" % (cls, um, mclass(su.m), su.typ),
                                 "%s | weights of mode %s and of inverse_sample_covariance do not differ by the covariance factor n/(n-1) "
                                 "(schedule %d, n=%d, deviation %.3g, allowed %.3g)" % (ctx, um, s, n, np.abs(d - want).max(), tol))
                        break
    for mode in modes:
        compare_fast_generic(out, su, kind, "configure", mode, "fresh", results.get((classes[0], mode)),
                             results.get((classes[1], mode)), ctx)
    # ---- direct construction, weights given to the object itself
    if direct:
        for wtag in (None, "B"):
            if kind == "se":
                w = None if wtag is None else X.custom_mats("B", su.S, su.m, su.seed)
            else:
                w = None if wtag is None else X.custom_vec("B", su.S)
            mode = "identity" if wtag is None else "custom:B"
            expect = ("identity",) if wtag is None else ("custom", w)
            for variant in ("ctor", "setters"):
                rr = {}
                for cls in classes:
                    ok, L = A.call(build_direct, cls, su, data, w, variant)
                    nconf += 1
                    out.ops += 1
                    route = "direct-" + variant
                    if not ok:
                        out.fail("%s.%s:raises:mode=%s:hist=fresh:%s:%s" % (cls, route, modeclass(mode), mclass(su.m), su.typ),
                                 "%s | %s" % (ctx, A.fmt_exc(L)))
                        continue
                    out.count("direct:%s:%s" % (cls, variant))
                    rr[cls] = judge(out, su, cls, route, mode, "fresh", L, data, expect, ctx, light=True)
                compare_fast_generic(out, su, kind, "direct-" + variant, mode, "fresh", rr.get(classes[0]), rr.get(classes[1]), ctx)
                if wtag is not None and rr.get(classes[0]) and rr.get(classes[1]) and rr[classes[0]]["ok"] and rr[classes[1]]["ok"]:
                    out.count("fast_vs_generic_weighted")
    return nconf


def direct_for(did, tier):
    """direct construction (no option object) is exercised on every third table and on all exact / rounded data sets"""
    parts = did.split(":")
    return tier == "thorough" or parts[0] != "tab" or int(parts[2]) % 3 == 0


def ex_e1(p, seed):
    out = Out()
    su = X.setup(p["typ"], p["flag"], p["mm"], p["mp"], seed, p.get("sys", "Q1"))
    out.count("setup:%s:%s" % (p["typ"], p["flag"]))
    out.count("outcomes:%d" % su.m)
    total = 0
    acc = []
    for did in p["data"]:
        data = X.dataset(su, did)
        if any((q == 0).any() for _, q in data):
            out.count("tables_with_zero_entries")
        total += run_dataset(out, su, p["loss"], did, data, p.get("tier", "quick"), direct_for(did, p.get("tier", "quick")), acc)
    if p["loss"] == "re":
        g = X.entropy_grid(su)
        out.count("grid_points_skipped_near_clipping", su.grid_skipped)
        if not any(i for _, _, i in g) or all(i for _, _, i in g):
            out.count("grid_without_both_sides")
    inner(out, max(total - 1, 0))
    out.outcome = "%s:%s" % (p["loss"], "ok" if not out.fails else "fail")
    out.digest = A.digest(*acc) if acc else ""
    return out


# ================================================================== E2: reconfiguration sequences

E2_DATA = ("tab:2:1", "counts:100")


def e2_alphabet(kind):
    modes = SE_MODES if kind == "se" else ["identity", "custom:A", "custom:B"]
    return [(d, mo) for d in E2_DATA for mo in modes]


def ex_e2(p, seed):
    out = Out()
    su = X.setup(p["typ"], p["flag"], p["mm"], p["mp"], seed, p.get("sys", "Q1"))
    cls = p["cls"]
    kind = "se" if is_se(cls) else "re"
    judge = judge_se if kind == "se" else judge_re
    alpha = e2_alphabet(kind)
    first = p["first"]
    seqs = [[first]] + [[first, b] for b in range(len(alpha))] + \
           [[first, b, c] for b in range(len(alpha)) for c in range(len(alpha))]
    nseq = 0
    for seq in seqs:
        L = lib()[cls][0]()
        weighted_before = False
        raised_before = False
        last = None
        for i, ci in enumerate(seq):
            did, mode = alpha[ci]
            data = X.dataset(su, did)
            ok, opt, w = make_option(cls, mode, su)
            if not ok:
                last = ("rejected", None)
                break
            final = i == len(seq) - 1
            prevw = L.weight_matrices if kind == "se" else L.weights
            ok2, e = configure(L, cls, su, opt, data)
            out.ops += 1
            out.transitions += 1
            if final:
                last = (ok2, e, did, mode, data, w)
            else:
                if not ok2:
                    raised_before = True
                elif mode != "identity":
                    weighted_before = True
                if ok2:
                    # the intermediate configuration is USED (lazily built tables get built) before the next one replaces it
                    A.call(L.value, su.v_true.copy())
                    A.call(L.gradient, su.v_true.copy())
                    out.ops += 2
        if last is None or last[0] == "rejected":
            out.count("e2_option_rejected")
            continue
        nseq += 1
        ok2, e, did, mode, data, w = last
        hist = "fresh" if len(seq) == 1 else ("after-raise" if raised_before and not weighted_before else
                                              "after-weighted" if weighted_before else "after-identity")
        route = "configure" if len(seq) == 1 else "reconfigure"
        ctx = "%s/%s(%s,%s) history=%r" % (su.typ, su.systag, su.mm, su.mp, [alpha[c] for c in seq])
        out.count("e2_len%d" % len(seq))
        if not ok2:
            out.count("raises:%s:%s:%s" % (cls, modeclass(mode), mclass(su.m)))
            out.fail("%s.%s:%s:mode=%s:hist=%s:%s:%s" % (cls, route, raise_kind(e), modeclass(mode), hist, mclass(su.m), su.typ),
                     "%s flag=%s | %s" % (ctx, su.flag, A.fmt_exc(e)))
            continue
        expect = expect_of(cls, mode, w)
        judge(out, su, cls, route, mode, hist, L, data, expect, ctx, light=True, prev=prevw)
        out.traces += 1
    inner(out, max(nseq - 1, 0))
    out.states = nseq
    out.outcome = "%s:%s" % (cls, "ok" if not out.fails else "fail")
    return out


# ================================================================== E2b: shared argument buffers, data / model switches

AL_OPS = ["v0", "v1", "g0", "g1", "nd", "sw", "sf"]
AL_LEN = {"quick": 3, "thorough": 4}


def ex_alias(p, seed):
    """every sequence over {value / gradient at two points THROUGH ONE CALLER-OWNED ARRAY (per variable count) that is overwritten
    in place, new data set (set_prob_dists_q), switch to another tomography of the same shape (sw), switch to the tomography with
    the other parametrisation flag, i.e. another NUMBER OF VARIABLES (sf)} on one loss object; after every step the result is
    compared with the same call on a freshly built and freshly configured object given a fresh array (that route is judged
    against the defining formulas by the other families)."""
    out = Out()
    cls, mode = p["cls"], p["mode"]
    sus = {(a, b): X.setup(p["typ"], p["flag"] if b == 0 else not p["flag"], p["mm"], p["mp"], seed + a, "Q1") for a in (0, 1) for b in (0, 1)}
    for b in (0, 1):
        if sus[(1, b)].n != sus[(0, b)].n or sus[(1, b)].S != sus[(0, b)].S or sus[(1, b)].m != sus[(0, b)].m:
            raise HarnessError("alias: the two set-ups differ in shape")
        if np.abs(sus[(0, b)].A - sus[(1, b)].A).max() < 1e-3:
            raise HarnessError("alias: the two set-ups have the same forward model")
    if sus[(0, 0)].n == sus[(0, 1)].n:
        raise HarnessError("alias: the two parametrisations have the same number of variables")
    P = {}
    for key, su in sus.items():
        base = [su.F.var_from_stacked(bb[1], su.flag) for bb in su.base]
        P[key] = [0.8 * base[0] + 0.2 * base[1], 0.3 * base[0] + 0.7 * base[-1]]
    datas = {(key, j): X.dataset(sus[key], did) for key in sus for j, did in enumerate(("counts:100", "tab:2:1"))}
    tail = "%s:mode=%s:%s:%s" % (cls, modeclass(mode), mclass(sus[(0, 0)].m), p["typ"])

    def new_loss(key, j):
        L = lib()[cls][0]()
        ok, opt, w = make_option(cls, mode, sus[(0, 0)])       # the same option (and custom weights) for all tomographies
        if not ok:
            return None, None
        ok2, e = configure(L, cls, sus[key], opt, datas[(key, j)])
        return (L, opt) if ok2 else (None, None)

    REF = {}

    def ref(key, j, op):
        k3 = (key, j, op)
        if k3 not in REF:
            L, _ = new_loss(key, j)
            f = L.value if op[0] == "v" else L.gradient
            REF[k3] = np.array(f(P[key][int(op[1])].copy()), dtype=float)
        return REF[k3]

    if new_loss((0, 0), 0)[0] is None:
        out.count("alias_configuration_rejected")
        out.outcome = "alias:skipped"
        return out
    nseq = 0
    depth = AL_LEN[p.get("tier", "quick")]
    reported = set()
    for seq in itertools.product(range(len(AL_OPS)), repeat=depth):
        L, opt = new_loss((0, 0), 0)
        key, j = (0, 0), 0
        bufs = {sus[(0, 0)].n: np.zeros(sus[(0, 0)].n), sus[(0, 1)].n: np.zeros(sus[(0, 1)].n)}
        nseq += 1
        hist = []
        for oi in seq:
            op = AL_OPS[oi]
            hist.append(op)
            out.transitions += 1
            if op == "nd":
                j = 1 - j
                ok, e = A.call(L.set_prob_dists_q, [np.array(q, dtype=np.float64) for _, q in datas[(key, j)]])
                if not ok:
                    out.fail("alias:set_prob_dists_q-raises:" + tail, "history %s: %s" % (hist, A.fmt_exc(e)))
                    break
                continue
            if op in ("sw", "sf"):
                key = (1 - key[0], key[1]) if op == "sw" else (key[0], 1 - key[1])
                ok, e = configure(L, cls, sus[key], opt, datas[(key, j)])
                if not ok:
                    out.fail("alias:reconfigure-raises:%s:%s" % ("same-shape" if op == "sw" else "other-number-of-variables", tail),
                             "history %s: %s" % (hist, A.fmt_exc(e)))
                    break
                continue
            buf = bufs[sus[key].n]
            buf[:] = P[key][int(op[1])]
            ok, r = A.call(L.value if op[0] == "v" else L.gradient, buf)
            out.ops += 1
            prev = hist[:-1]
            cause = ("after-switch-of-variable-count" if "sf" in prev else "after-model-switch" if "sw" in prev else "after-new-data" if "nd" in prev else
                     "argument-array-overwritten-in-place" if any(h[0] in "vg" for h in prev) else "first-call")
            what = "value" if op[0] == "v" else "gradient"
            if not ok:
                sig = "alias:%s-raises:%s:%s" % (what, cause, tail)
                if sig not in reported:
                    reported.add(sig)
                    out.fail(sig, "history %s: %s" % (hist, A.fmt_exc(r)))
                break
            r = np.array(r, dtype=float)
            want = ref(key, j, op)
            out.traces += 1
            if r.shape != want.shape or np.abs(r - want).max() > TOL * (1.0 + np.abs(want).max()):
                sig = "alias:%s-differs-from-fresh-object:%s:%s" % (what, cause, tail)
                if sig not in reported:
                    reported.add(sig)
                    out.fail(sig, "history %s on one loss object with one argument array: %r, a fresh object given a fresh array returns %r" % (
                        hist, r.tolist(), want.tolist()))
                break
            if not np.array_equal(buf, P[key][int(op[1])]):
                out.fail("alias:argument-modified:" + tail, "history %s: the argument array was changed by the call" % hist)
                break
    out.states = nseq
    inner(out, max(nseq - 1, 0))
    out.count("alias_sequences", nseq)
    out.count("alias:%s:%s" % (cls, modeclass(mode)))
    out.outcome = "alias:%s:%s" % (cls, "ok" if not out.fails else "fail")
    return out


# ================================================================== smooth non-affine model (generic classes)

def nl_points(n):
    pts = [np.zeros(n)]
    for i in range(n):
        for s in (0.3, -0.4):
            v = np.zeros(n)
            v[i] = s
            pts.append(v)
    pts.append(np.array([0.2, -0.3, 0.1, 0.25][:n]))
    pts.append(np.array([-0.35, 0.15, 0.4, -0.1][:n]))
    return pts


def ex_nonlinear(p, seed):
    out = Out()
    S, m, n = p["S"], p["m"], p["n"]
    M = X.NLModel(S, m, n, seed)
    fp, fg, fh = M.funcs()
    tables = []
    for N in (1, 2, 3):
        cs = X.comps(N, m)
        for t in range(len(cs)):
            tables.append(("tab:%d:%d" % (N, t), np.array([np.array(cs[(t + s * (1 + len(cs) // 4)) % len(cs)], float) / N for s in range(S)])))
    tables.append(("model", np.array(M.p(np.array([0.1, -0.2, 0.05, 0.3][:n])))))
    cnt = 0
    for kind in ("se", "re"):
        C = lib()[kind][0]
        for did, Q in tables:
            for wtag in (None, "A", "B"):
                if kind == "se":
                    w = None if wtag is None else X.custom_mats(wtag, S, m, seed)
                else:
                    w = None if wtag is None else X.custom_vec(wtag, S)
                for variant in ("ctor", "setters"):
                    cnt += 1
                    qs = [np.array(q, dtype=np.float64) for q in Q]
                    if variant == "ctor":
                        ok, L = A.call(C, n, fp, fg, fh, qs, w)
                    else:
                        def mk():
                            L = C(n)
                            L.set_func_prob_dists(fp)
                            L.set_func_gradient_prob_dists(fg)
                            L.set_func_hessian_prob_dists(fh)
                            L.set_prob_dists_q(qs)
                            (L.set_weight_matrices if kind == "se" else L.set_weights)(w)
                            return L
                        ok, L = A.call(mk)
                    tail = "weights=%s:%s" % ("none" if wtag is None else "custom", mclass(m))
                    site = "%s.nonlinear-%s" % (kind, variant)
                    if not ok:
                        out.fail("%s:raises:%s" % (site, tail), A.fmt_exc(L))
                        continue
                    if not (L.on_value and L.on_gradient and L.on_hessian):
                        out.fail("%s:not-ready:%s" % (site, tail), "on_value/on_gradient/on_hessian = %r" % ((L.on_value, L.on_gradient, L.on_hessian),))
                        continue
                    seen = set()
                    for v in nl_points(n):
                        val, g, H, second, sc = (M.se if kind == "se" else M.re)(Q, w, v)
                        if np.abs(second).max() > 1e-3:
                            out.count("nl_second_hessian_term_nonzero")
                        ok1, f = A.call(L.value, v.copy())
                        ok2, gl = A.call(L.gradient, v.copy())
                        ok3, Hl = A.call(L.hessian, v.copy())
                        out.ops += 3
                        out.traces += 5
                        if not (ok1 and ok2 and ok3):
                            out.fail("%s:raises:%s" % (site, tail), "%r" % ([A.fmt_exc(x) for o, x in ((ok1, f), (ok2, gl), (ok3, Hl)) if not o],))
                            break
                        gl = np.asarray(gl, float)
                        Hl = np.asarray(Hl, float)
                        gs = max(sc, float(np.abs(g).max()), float(np.abs(H).max()))
                        bads = []
                        if abs(f - val) > TOL * sc:
                            bads.append(("value-vs-formula", "value %.12g formula %.12g" % (f, val)))
                        if gl.shape != g.shape or np.abs(gl - g).max() > TOL * gs:
                            bads.append(("gradient-vs-formula", "gradient %r chain rule %r" % (gl.tolist(), g.tolist())))
                        if Hl.shape != H.shape or np.abs(Hl - H).max() > TOL * gs:
                            bads.append(("hessian-vs-formula", "hessian %r chain rule %r" % (Hl.tolist(), H.tolist())))
                        h = 1e-3
                        gd = X.richardson(lambda x: float(L.value(x)), v, h)
                        Hd = X.richardson(lambda x: np.asarray(L.gradient(x), float), v, h)
                        out.ops += 8 * n
                        out.count("richardson_gradients")
                        out.count("richardson_hessians")
                        if np.abs(gl - gd).max() > DTOL * gs:
                            bads.append(("gradient-not-derivative", "gradient %r differences of value %r" % (gl.tolist(), gd.tolist())))
                        if Hl.shape == Hd.shape and np.abs(Hl - Hd).max() > DTOL * gs:
                            bads.append(("hessian-not-derivative", "hessian %r differences of gradient %r" % (Hl.tolist(), Hd.tolist())))
                        for what, msg in bads:
                            if what not in seen:
                                seen.add(what)
                                out.fail("%s:%s:%s" % (site, what, tail), "table %s point %r | %s" % (did, v.tolist(), msg))
    inner(out, cnt - 1)
    out.outcome = "ok" if not out.fails else "fail"
    return out


# ================================================================== quara.math.entropy primitives

def ex_math(p, seed):
    from quara.math import entropy as E
    out = Out()
    m = p["m"]
    qs = []
    for N in (1, 2, 3):
        qs += [np.array(c, dtype=np.float64) / N for c in X.comps(N, m)]
    a = np.array(R.angles(seed, 3 * m + 9 * m + 27 * m, salt=3))
    g1 = 1.0 + np.cos(2 * a[:m])
    qs.append(g1 / g1.sum())
    ps = [np.ones(m) / m]
    g2 = 1.2 + np.sin(3 * a[m:2 * m])
    ps.append(g2 / g2.sum())
    ps.append(0.7 * g2 / g2.sum())          # not normalised (outside the probability simplex, still positive)
    g3 = 0.05 + np.abs(np.cos(5 * a[2 * m:3 * m]))
    ps.append(g3 / g3.sum())
    G = np.cos(3 * a[3 * m:3 * m + 3 * m]).reshape(m, 3)
    Hh = np.sin(2 * a[3 * m + 3 * m:3 * m + 3 * m + 9 * m]).reshape(m, 3, 3)
    Hh = (Hh + Hh.transpose(0, 2, 1)) / 2
    tail = mclass(m)
    cnt = 0
    for q in qs:
        for pd in ps:
            cnt += 1
            pos = q > 0
            terms = np.where(pos, q * (np.log(np.where(pos, q, 1.0)) - np.log(pd)), 0.0)
            sc = float(np.where(pos, q * (np.abs(np.log(np.where(pos, q, 1.0))) + np.abs(np.log(pd))), 0.0).sum()) + 1e-3
            coef = np.where(pos, q / pd, 0.0)
            gexp = -(coef[:, None] * G)
            Hexp = -(coef[:, None, None] * Hh).sum(axis=0) + np.einsum("x,xa,xb->ab", np.where(pos, q / pd ** 2, 0.0), G, G)
            if (~pos).any():
                out.count("math_q_zero_entries")
            calls = [
                ("relative_entropy", lambda: E.relative_entropy(q.copy(), pd.copy()), terms.sum(), sc),
                ("relative_entropy_vector", lambda: E.relative_entropy_vector(q.copy(), pd.copy()), terms, sc),
                ("gradient_relative_entropy_2nd", lambda: E.gradient_relative_entropy_2nd(q.copy(), pd.copy(), G.copy()), gexp.sum(axis=0), float(np.abs(gexp).sum())),
                ("gradient_relative_entropy_2nd_vector", lambda: E.gradient_relative_entropy_2nd_vector(q.copy(), pd.copy(), G.copy()), gexp, float(np.abs(gexp).sum())),
                ("hessian_relative_entropy_2nd", lambda: E.hessian_relative_entropy_2nd(q.copy(), pd.copy(), G.copy(), Hh.copy()), Hexp,
                 float(np.abs(coef[:, None, None] * Hh).sum() + np.abs(Hexp).sum())),
            ]
            for name, fn, want, scale in calls:
                ok, got = A.call(fn)
                out.ops += 1
                out.traces += 1
                if not ok:
                    out.fail("entropy.%s:raises:%s" % (name, tail), "q=%r p=%r: %s" % (q.tolist(), pd.tolist(), A.fmt_exc(got)))
                    continue
                got = np.asarray(got, dtype=float)
                want = np.asarray(want, dtype=float)
                if got.shape != want.shape or np.abs(got - want).max() > TOL * (scale + 1e-3):
                    out.fail("entropy.%s:differs-from-definition:%s" % (name, tail), "q=%r p=%r got %r want %r" % (q.tolist(), pd.tolist(), got.tolist(), want.tolist()))
    inner(out, cnt - 1)
    out.outcome = "ok" if not out.fails else "fail"
    return out


# ================================================================== enumeration

def setups(tier):
    """(typ, mm, mp, reduced_tables, system)"""
    out = []
    for typ in ("qst", "povmt", "qpt"):
        for m in (2, 3, 4, 5):
            out.append((typ, None, m, False, "Q1"))
    out += [("qmpt", 2, 1, False, "Q1"), ("qmpt", 3, 1, False, "Q1"), ("qmpt", 2, 2, False, "Q1")]
    if tier == "quick":
        out.append(("qmpt", 5, 1, True, "Q1"))
    else:
        out += [("qmpt", 4, 1, False, "Q1"), ("qmpt", 5, 1, False, "Q1"), ("qmpt", 2, 3, False, "Q1"), ("qmpt", 3, 2, False, "Q1"),
                ("qst", None, 3, False, "Q3"), ("qst", None, 4, False, "Q3"), ("povmt", None, 3, False, "Q3"), ("qpt", None, 2, True, "Q3")]
    return out


def outcomes_of(typ, mm, mp):
    return mm * mp if typ == "qmpt" else mp


def chunked(ids, size):
    return [ids[i:i + size] for i in range(0, len(ids), size)]


def families(tier, seed):
    e1 = []
    for typ, mm, mp, reduced, systag in setups(tier):
        m = outcomes_of(typ, mm, mp)
        ids = X.dataset_ids(m)
        if reduced:
            ids = [d for d in ids if d.startswith("tab:1:") or not d.startswith("tab")]
        D = A.dim_of(systag) ** 2
        nvar = {"qst": D, "povmt": D * m, "qpt": D * D, "qmpt": D * D * (mm or 1)}[typ]
        size_se = 12 if nvar <= 16 else 4 if nvar <= 32 else 2 if nvar <= 48 else 1
        size_re = 8 if nvar <= 16 else 4 if nvar <= 32 else 2
        for flag in (True, False):
            for blk in chunked(ids, size_se):
                e1.append({"typ": typ, "flag": flag, "mm": mm, "mp": mp, "loss": "se", "data": blk, "tier": tier, "sys": systag})
            for blk in chunked(ids, size_re):
                e1.append({"typ": typ, "flag": flag, "mm": mm, "mp": mp, "loss": "re", "data": blk, "tier": tier, "sys": systag})
    e1.sort(key=lambda c: (c["sys"], {"qst": 0, "povmt": 1, "qpt": 2, "qmpt": 3}[c["typ"]], outcomes_of(c["typ"], c["mm"], c["mp"])))
    e2_setups = [("qst", True, None, 2), ("qst", False, None, 3), ("povmt", True, None, 3), ("qpt", False, None, 2),
                 ("qpt", True, None, 3)]
    if tier == "thorough":
        e2_setups += [("povmt", False, None, 2), ("qst", True, None, 5), ("qmpt", True, 2, 1)]
    e2 = []
    for typ, flag, mm, mp in e2_setups:
        for cls in ("se", "fast_se", "re", "fast_re"):
            for first in range(len(e2_alphabet("se" if is_se(cls) else "re"))):
                e2.append({"typ": typ, "flag": flag, "mm": mm, "mp": mp, "cls": cls, "first": first})
    nl = [{"S": 2, "m": m, "n": 3} for m in (2, 3, 4)] + ([{"S": 3, "m": 5, "n": 4}] if tier == "thorough" else [])
    al = []
    for typ, flag, mm, mp in [("qst", True, None, 2), ("qst", False, None, 3), ("povmt", True, None, 3), ("qpt", False, None, 2)] + (
            [("qmpt", True, 2, 2), ("povmt", False, None, 2)] if tier == "thorough" else []):
        for cls in ("se", "fast_se", "re", "fast_re"):
            for mode in ("identity", "custom:A"):
                al.append({"typ": typ, "flag": flag, "mm": mm, "mp": mp, "cls": cls, "mode": mode, "tier": tier})
    return [("math", [{"m": m} for m in (2, 3, 4, 5)]), ("nonlinear", nl), ("reconfigure", e2), ("alias", al), ("losses", e1)]


def execute(family, params, seed):
    return {"math": ex_math, "nonlinear": ex_nonlinear, "reconfigure": ex_e2, "alias": ex_alias, "losses": ex_e1}[family](params, seed)


def guards(summary):
    info = summary["info"]
    g = []

    def need(key, what=None):
        if info.get(key, 0) < 1:
            g.append("never seen: %s" % (what or key))

    for typ in ("qst", "povmt", "qpt", "qmpt"):
        for flag in (True, False):
            need("setup:%s:%s" % (typ, flag))
    for m in (2, 3, 4, 5):
        need("outcomes:%d" % m)
    for k in ("tables_with_zero_entries", "re_pts_inside", "re_pts_outside", "nonzero_residual", "richardson_gradients",
              "richardson_hessians", "nl_second_hessian_term_nonzero", "math_q_zero_entries", "e2_len3", "fast_vs_generic",
              "fast_vs_generic_weighted", "pearson_ok:m=2", "alias_sequences"):
        need(k)
    if info.get("grid_without_both_sides", 0) > 0:
        g.append("an entropy grid has no point inside or no point outside the physical set")
    for cls in ("se", "fast_se", "re", "fast_re"):
        for mo in ("identity", "custom"):
            need("configured:%s:%s" % (cls, mo))
        need("judged_nonidentity_weights:%s" % cls)
        for v in ("ctor", "setters"):
            need("direct:%s:%s" % (cls, v))
    for cls in ("se", "fast_se"):
        for mo in ("inverse_sample_covariance", "inverse_unbiased_covariance"):
            for mc in ("m=2", "m>=3"):
                if info.get("configured:%s:%s" % (cls, mo), 0) < 1 and info.get("raises:%s:%s:%s" % (cls, mo, mc), 0) < 1:
                    g.append("mode %s never exercised on %s (%s)" % (mo, cls, mc))
    # inverse covariance with >= 3 outcomes: either judged by the Pearson identity or seen to be rejected with an error
    if info.get("pearson_ok:m>=3", 0) < 1 and not any(k.startswith("raises:") and k.endswith("m>=3") for k in info):
        g.append("inverse covariance weights with >= 3 outcomes neither judged nor seen to raise")
    if info.get("mode_scaling_checked:m=2", 0) < 1:
        g.append("sample vs unbiased covariance never compared")
    return g
