"""C06 Composition implements quantum mechanics and is associative.

E1 over programs and operands:
  chains     every type-valid time-ordered chain over {State (first only), Gate, MProcess, Povm (last only)},
             every assignment of operands from a pool (two per kind), EVERY bracketing into nested binary
             compose_qoperations calls (each call = one node, judged against the reference of its sub-chain),
             plus the library's own n-ary fold (flat arguments and one list argument).
  pairs      every pair of operands from the full shared alphabets for the nine elementary type combinations.
  genmp      Povm.generate_mprocess in back-action modes 0, 1, 2 for every POVM of the alphabet.
  to_povm    MProcess.to_povm for every instrument of the alphabet (and for every composed MProcess in `chains`).

Reference model (no quara code): channels are natural-representation superoperators sum_k K (x) conj(K) acting on
row-major vec(rho), built from Kraus lists; POVMs are matrices; chains are folded in TIME order; joint outcomes are
row-major with the earlier measurement slower.  The basis matrices of the CompositeSystem are read as data only.

A node whose result is wrong is reported under the call site of THAT node ("compose:<Later>_<Earlier>:...") and its
value is replaced by an object built from the reference through the public constructors, so that the enclosing calls
are still judged on correct inputs (one defect cannot mask or smear over the remaining chains).
"""
import itertools

import numpy as np

from mc import alphabet as A, refmodel as R
from mc.core import Out, inner, HarnessError

ID = "C06"
RULE = ("programs = time-ordered chains [State]? (Gate|MProcess)* [Povm]? of the stated lengths x every assignment of "
        "pool operands (2 per kind; pool A generic non-commuting, pool B with zero-probability outcomes) x every binary "
        "bracketing (Catalan(n-1) trees, sub-trees shared) + the n-ary fold; every compose call is compared with the "
        "time-ordered reference of its sub-chain by serial outcome label, so all bracketings are compared with one "
        "another through the common reference; non-trivial = the case contains a measurement or two different operands "
        "(every case does); distinct = distinct (system, pool, chain, operands, tree)")
ASSUMPTIONS = ["operands are the physical objects of the shared alphabet (mc/alphabet.py), is_physicality_required=True, "
               "mode_sampling=False (the sampling mode of MProcess is random and not explored)",
               "no verdict on outcomes whose reference probability lies in (1e-12, 1e-7), i.e. within 10x of the library's "
               "documented truncation threshold eps_zero=1e-8 (they may be set to 0 and the rest renormalised; counted, guarded "
               "to be < 0.1% of the compared probabilities); post-measurement states are compared only for outcomes with "
               "reference probability > 1e-7",
               "systems: 1 qubit, 1 qutrit, 2 qubits with the library's normalised Pauli / Gell-Mann bases",
               "for generate_mprocess only what the statement promises is checked (physical, induces the POVM it came "
               "from, Born-consistent on every alphabet state), not the documented back-action formulas"]
BOUNDS = {"quick": "chains length 2..4 on Q1,Q3,Q2 x pools A,B, length 5 on Q1,Q3,Q2 pool A; pairs/genmp/to_povm on Q1,Q3,Q2 full alphabets; rare outcomes p=1e-2..1e-5",
          "thorough": "chains length 2..5 on Q1,Q3,Q2 x pools A,B, length 6 on Q1 pools A,B; pairs/genmp/to_povm on Q1,Q3,Q2 full alphabets; rare outcomes p=1e-2..1e-5"}
EXHAUSTIVE = {"quick": True, "thorough": True}
CASE_TIMEOUT = 900

TOL = 1e-9
P_ZERO = 1e-12      # reference probabilities below this are "exactly zero" outcomes
P_BAND = 1e-7       # reference probabilities in (P_ZERO, P_BAND) are within 10x of the eps_zero=1e-8 truncation threshold
DIMS = {"Q1": 2, "Q3": 3, "Q2": 4}
RARE_EXPONENTS = (2, 3, 4, 5)
KINDS = {"S": "state", "G": "gate", "M": "mprocess", "P": "povm"}


# =====================================================================================================
# context: system, basis as data, reference alphabets, lazily built quara operands
# =====================================================================================================

class Ctx:
    def __init__(self, tag, seed):
        self.tag, self.seed = tag, seed
        self.d = d = DIMS[tag]
        self.c = A.make_system(tag)
        B = R.basis_mats(self.c)
        self.T = np.array([b.reshape(-1) for b in B]).T          # columns = row-major vec(B_b)
        if np.abs(self.T.conj().T @ self.T - np.eye(d * d)).max() > 1e-12:
            raise AssertionError("harness: basis of %s is not orthonormal" % tag)
        self.Th = self.T.conj().T
        self.vecI = np.eye(d, dtype=np.complex128).reshape(-1)
        self.data = {"state": A.states_ref(d, seed), "gate": A.gates_ref(d, seed),
                     "mprocess": A.instruments_ref(d, seed), "povm": A.povms_ref(d, seed)}
        self._q, self._r = {}, {}
        # operands with a rare (but far above eps_zero = 1e-8) outcome: a pure state sqrt(1-p)|w0> + sqrt(p)|w1> and the
        # projective Lueders measurement in the generic orthonormal basis {|w_k>}; outcome 1 has probability p
        W = R.generic_unitary(d, seed, salt=7)
        self.extra = {"mprocess": {"rotated_comp": [[np.outer(W[:, k], W[:, k].conj())] for k in range(d)]}, "state": {}}
        for e in RARE_EXPONENTS:
            pr = 10.0 ** (-e)
            psi = np.sqrt(1 - pr) * W[:, 0] + np.sqrt(pr) * W[:, 1]
            self.extra["state"]["rare_1e-%d" % e] = np.outer(psi, psi.conj())
        for k, dd in self.extra.items():
            self.data[k] = dict(self.data[k])
            self.data[k].update(dd)

    def names(self, kind):
        """the shared alphabet (without the extra rare-outcome operands)"""
        return [n for n in self.data[kind] if n not in self.extra.get(kind, {})]

    def q(self, kind, name):
        key = (kind, name)
        if key not in self._q:
            dat = self.data[kind][name]
            mk = {"state": A.q_state, "gate": A.q_gate, "mprocess": A.q_mprocess, "povm": A.q_povm}[kind]
            self._q[key] = mk(self.c, dat)
        return self._q[key]

    def r(self, kind, name):
        key = (kind, name)
        if key not in self._r:
            dat = self.data[kind][name]
            if kind == "state":
                o = RObj("state", (), [np.asarray(dat, dtype=np.complex128).reshape(-1)])
            elif kind == "gate":
                o = RObj("gate", (), [superop(dat)])
            elif kind == "mprocess":
                o = RObj("mproc", (len(dat),), [superop(ks) for ks in dat])
            else:
                o = RObj("povm", (len(dat),), [np.asarray(M, dtype=np.complex128).reshape(-1) for M in dat])
            self._r[key] = o
        return self._r[key]


_CTX = {}


def ctx(tag, seed):
    if (tag, seed) not in _CTX:
        _CTX[(tag, seed)] = Ctx(tag, seed)
    return _CTX[(tag, seed)]


def pool_names(tag, pool):
    d = DIMS[tag]
    if pool == "A":
        return {"S": ["pure_generic", "mixed_generic"], "G": ["unitary_generic", "ampdamp"],
                "M": ["feedback_m2", "multikraus_m3"], "P": ["generic_m3", "rank1_m4"]}
    return {"S": ["z0", "pure_fourier"], "G": ["kraus_generic_r2", "unitary_fourier"],
            "M": ["comp_m%d" % d, "luders_m3" if d == 2 else "luders_m2"], "P": ["comp_m%d" % d, "withzero_m4"]}


# =====================================================================================================
# reference model: textbook quantum mechanics in time order
# =====================================================================================================

class RObj:
    """kind in state | ens | gate | mproc | povm | dist.
    shape: outcome counts of the measurements inside, in time order.
    v: state -> [vec rho]; ens -> unnormalised branch vecs (row-major over shape); gate -> [S]; mproc -> [S_x];
       povm -> vec(M_x) (row-major over shape); dist -> [p array]."""
    __slots__ = ("kind", "shape", "v")

    def __init__(self, kind, shape, v):
        self.kind, self.shape, self.v = kind, tuple(shape), v


def superop(kraus):
    """natural representation: vec_r(sum K X K^+) = (sum K (x) conj K) vec_r(X)"""
    S = None
    for K in kraus:
        K = np.asarray(K, dtype=np.complex128)
        t = np.kron(K, K.conj())
        S = t if S is None else S + t
    return S


def ref_then(acc, e):
    """reference of (sub-chain `acc` followed in time by the elementary operation `e`)"""
    k, ek = acc.kind, e.kind
    if k == "state" or k == "ens":
        br = acc.v
        if ek == "gate":
            return RObj(k, acc.shape, [e.v[0] @ b for b in br])
        if ek == "mproc":
            return RObj("ens", acc.shape + e.shape, [Sx @ b for b in br for Sx in e.v])
        if ek == "povm":
            # Tr(M rho) = vec(M)^+ vec(rho) for Hermitian M
            return RObj("dist", acc.shape + e.shape, [np.array([np.vdot(M, b).real for b in br for M in e.v])])
    if k == "gate":
        Sa = acc.v[0]
        if ek == "gate":
            return RObj("gate", (), [e.v[0] @ Sa])
        if ek == "mproc":
            return RObj("mproc", e.shape, [Sx @ Sa for Sx in e.v])
        if ek == "povm":
            return RObj("povm", e.shape, [Sa.conj().T @ M for M in e.v])
    if k == "mproc":
        if ek == "gate":
            return RObj("mproc", acc.shape, [e.v[0] @ Sx for Sx in acc.v])
        if ek == "mproc":
            return RObj("mproc", acc.shape + e.shape, [Sy @ Sx for Sx in acc.v for Sy in e.v])
        if ek == "povm":
            return RObj("povm", acc.shape + e.shape, [Sx.conj().T @ M for Sx in acc.v for M in e.v])
    raise AssertionError("harness: no reference for %s then %s" % (k, ek))


def ref_stats(cx, r):
    """reference object in the coordinates the library reports: dict(type, shape, ps, items)"""
    Th, T = cx.Th, cx.T
    if r.kind == "state":
        return {"type": "State", "shape": None, "ps": None, "items": [Th @ r.v[0]]}
    if r.kind == "ens":
        ps = np.array([np.vdot(cx.vecI, b).real for b in r.v])
        items = [(Th @ b) / p if p > P_BAND else None for b, p in zip(r.v, ps)]
        return {"type": "StateEnsemble", "shape": r.shape, "ps": ps, "items": items}
    if r.kind == "gate":
        return {"type": "Gate", "shape": None, "ps": None, "items": [(Th @ r.v[0] @ T).reshape(-1)]}
    if r.kind == "mproc":
        return {"type": "MProcess", "shape": r.shape, "ps": None, "items": [(Th @ S @ T).reshape(-1) for S in r.v]}
    if r.kind == "povm":
        return {"type": "Povm", "shape": r.shape, "ps": None, "items": [Th @ M for M in r.v]}
    return {"type": "MultinomialDistribution", "shape": r.shape, "ps": r.v[0], "items": None}


def lib_stats(obj):
    """what the library object says, as plain arrays (attribute reads only)"""
    t = type(obj).__name__
    if t == "State":
        return {"type": t, "shape": None, "ps": None, "items": [np.asarray(obj.vec)]}
    if t == "Gate":
        return {"type": t, "shape": None, "ps": None, "items": [np.asarray(obj.hs).reshape(-1)]}
    if t == "MProcess":
        return {"type": t, "shape": tuple(obj.shape), "ps": None, "items": [np.asarray(h).reshape(-1) for h in obj.hss]}
    if t == "Povm":
        return {"type": t, "shape": tuple(obj.nums_local_outcomes), "ps": None, "items": [np.asarray(v) for v in obj.vecs]}
    if t == "StateEnsemble":
        return {"type": t, "shape": tuple(obj.prob_dist.shape), "ps": np.asarray(obj.prob_dist.ps, dtype=float),
                "items": [np.asarray(s.vec) for s in obj.states]}
    if t == "MultinomialDistribution":
        return {"type": t, "shape": tuple(obj.shape), "ps": np.asarray(obj.ps, dtype=float), "items": None}
    return {"type": t, "shape": None, "ps": None, "items": None}


def _close(a, b, tol=TOL):
    a, b = np.asarray(a), np.asarray(b)
    return a.shape == b.shape and (a.size == 0 or np.abs(a - b).max() <= tol * max(1.0, np.abs(b).max()))


def _is_permutation(lib, ref):
    """is the list `lib` a re-ordering of `ref` (so only the outcome labels are wrong)?"""
    used = set()
    for r in ref:
        hit = None
        for j, l in enumerate(lib):
            if j not in used and _close(l, r):
                hit = j
                break
        if hit is None:
            return False
        used.add(hit)
    return True


STRICT_SHAPE_TYPES = ("MProcess", "StateEnsemble")     # compositions ending in a POVM report one flat axis on the unchanged tree (counted, not judged)


def compare(ls, rs, out=None):
    """list of (what, detail): violations of the property visible in the library result ls vs the reference rs"""
    probs = []
    if ls["type"] != rs["type"]:
        return [("type", "returned %s, the chain determines a %s" % (ls["type"], rs["type"]))]
    n_ref = len(rs["ps"]) if rs["ps"] is not None else len(rs["items"])
    n_lib = len(ls["ps"]) if ls["ps"] is not None else len(ls["items"])
    if n_lib != n_ref:
        return [("length", "%d outcomes/elements, reference has %d (shape %r)" % (n_lib, n_ref, rs["shape"]))]
    if ls["shape"] is not None:
        shp = tuple(int(x) for x in ls["shape"])
        if int(np.prod(shp)) != n_lib:
            probs.append(("shape-product", "reported shape %r does not multiply to the length %d" % (shp, n_lib)))
        elif len(shp) == len(rs["shape"]) and shp != tuple(rs["shape"]):
            probs.append(("shape-order", "reported shape %r lists one entry per measurement but the time order is %r" % (
                shp, tuple(rs["shape"]))))
        elif len(shp) != len(rs["shape"]) and ls["type"] in STRICT_SHAPE_TYPES:
            probs.append(("shape-axes-lost", "reported shape %r, the chain contains measurements with outcome counts %r (one axis each)" % (
                shp, tuple(rs["shape"]))))
    if rs["ps"] is not None:
        lp, rp = ls["ps"], rs["ps"]
        inband = (rp > P_ZERO) & (rp < P_BAND)
        # outcomes within 10x of eps_zero may or may not be truncated to 0 (and the rest renormalised): no verdict on them
        tolp = TOL + 2.0 * float(rp[inband].sum())
        if out is not None:
            if inband.any():
                out.count("ref_prob_in_truncation_band", int(inband.sum()))
            out.count("zero_prob_outcomes", int(np.sum(rp <= P_ZERO)))
            out.count("probabilities_compared", int(rp.size))
        if lp.min() < 0:
            probs.append(("negative-probability", "min p = %.3e" % lp.min()))
        if abs(lp.sum() - 1.0) > TOL:
            probs.append(("not-normalised", "sum p = 1 %+.3e" % (lp.sum() - 1.0)))
        if not _close(lp, rp, tolp):
            if _close(np.sort(lp), np.sort(rp), tolp):
                probs.append(("outcome-layout", "probabilities are a permutation of the reference (serial labels differ): lib %s ref %s" % (
                    np.round(lp, 6).tolist(), np.round(rp, 6).tolist())))
            else:
                probs.append(("probabilities", "max |p_lib - p_ref| = %.3e: lib %s ref %s" % (
                    np.abs(lp - rp).max(), np.round(lp, 6).tolist()[:12], np.round(rp, 6).tolist()[:12])))
            return probs
        if rs["items"] is not None:
            worst, wi = 0.0, -1
            for i, (l, r) in enumerate(zip(ls["items"], rs["items"])):
                if r is None:
                    continue
                e = np.abs(l - r).max()
                if e > worst:
                    worst, wi = e, i
            if worst > TOL:
                probs.append(("post-state", "normalised post-measurement state of serial outcome %d deviates by %.3e" % (wi, worst)))
        return probs
    li, ri = ls["items"], rs["items"]
    bad = [i for i, (l, r) in enumerate(zip(li, ri)) if not _close(l, r)]
    if bad:
        worst = max(np.abs(np.asarray(li[i]) - ri[i]).max() for i in bad)
        if len(li) > 1 and _is_permutation(li, ri):
            probs.append(("outcome-layout", "the %d elements are a permutation of the reference (serial labels differ), first wrong label %d" % (
                len(li), bad[0])))
        else:
            probs.append(("values", "%d of %d elements differ from the reference, max deviation %.3e (first wrong serial label %d)" % (
                len(bad), len(li), worst, bad[0])))
    elif any(np.abs(np.asarray(l).imag).max(initial=0.0) > TOL for l in li):
        probs.append(("values", "complex coefficients"))
    return probs


def count_class(shape):
    if len(shape) == 0:
        return "none"
    if len(shape) == 1:
        return "single"
    return "counts-equal" if len(set(shape)) == 1 else "counts-unequal"


P_RARE = 2e-2   # below this, normalising the post state amplifies rounding noise by >= 50


def config_class(cx, r):
    """configuration class of a node for its sig: system, outcome-count pattern, and whether the reference has a rare
    (but far above eps_zero) outcome, 1e-7 < p < 2e-2, where normalising the post state amplifies rounding"""
    cls = "%s:%s" % (cx.tag, count_class(r.shape))
    if r.kind == "ens":
        ps = np.array([np.vdot(cx.vecI, b).real for b in r.v])
        if np.any((ps > P_BAND) & (ps < P_RARE)):
            cls += ":rare-outcome"
    return cls


# ---- reference-side physicality of a library result (the basis is data) -----------------------------------

def choi_min_eig(S, d):
    C = S.reshape(d, d, d, d).transpose(0, 2, 1, 3).reshape(d * d, d * d)
    return R.min_eig(C)


def unphysical(cx, obj):
    """None or a description; tolerance 1e-9 (the operands are physical at 1e-13, the property promises physical)"""
    d, T, Th = cx.d, cx.T, cx.Th
    t = type(obj).__name__
    if t == "State":
        rho = (T @ np.asarray(obj.vec)).reshape(d, d)
        if abs(np.trace(rho) - 1) > TOL or R.herm_defect(rho) > TOL or R.min_eig(rho) < -TOL:
            return "state: trace-1 %.2e, min eig %.2e" % (abs(np.trace(rho) - 1), R.min_eig(rho))
    elif t == "Povm":
        tot = np.zeros((d, d), dtype=np.complex128)
        for v in obj.vecs:
            M = (T @ np.asarray(v)).reshape(d, d)
            tot = tot + M
            if R.herm_defect(M) > TOL or R.min_eig(M) < -TOL:
                return "povm element: min eig %.2e" % R.min_eig(M)
        if np.abs(tot - np.eye(d)).max() > TOL:
            return "povm: sum - I = %.2e" % np.abs(tot - np.eye(d)).max()
    elif t in ("Gate", "MProcess"):
        hss = [obj.hs] if t == "Gate" else list(obj.hss)
        tot = np.zeros(d * d, dtype=np.complex128)
        for hs in hss:
            S = T @ np.asarray(hs) @ Th
            if choi_min_eig(S, d) < -TOL:
                return "%s: Choi min eig %.2e" % (t, choi_min_eig(S, d))
            tot = tot + S.conj().T @ cx.vecI
        if np.abs(tot - cx.vecI).max() > TOL:
            return "%s: not trace preserving by %.2e" % (t, np.abs(tot - cx.vecI).max())
    elif t == "StateEnsemble":
        for s, p in zip(obj.states, obj.prob_dist.ps):
            if p > P_BAND:
                u = unphysical(cx, s)
                if u:
                    return "ensemble " + u
    return None


# =====================================================================================================
# building a library object from a reference object (public constructors only) - used to repair a failed node
# =====================================================================================================

def _clean_state_coeffs(cx, v):
    """coefficients of the physical density matrix nearest to the reference vec (rounding in the reference, amplified
    by 1/p, must not make the substitute object fail the library's 1e-13 physicality test)"""
    d = cx.d
    rho = np.asarray(v, dtype=np.complex128).reshape(d, d)
    rho = R.proj_psd(rho)
    rho = rho / np.trace(rho).real
    return A.real_checked(cx.Th @ rho.reshape(-1), "ref state")


def build_q(cx, r):
    from quara.objects.state import State
    from quara.objects.gate import Gate
    from quara.objects.povm import Povm
    from quara.objects.mprocess import MProcess
    from quara.objects.state_ensemble import StateEnsemble
    from quara.objects.multinomial_distribution import MultinomialDistribution
    rs = ref_stats(cx, r)
    n2 = cx.d * cx.d
    if r.kind == "state":
        return State(cx.c, _clean_state_coeffs(cx, r.v[0]))
    if r.kind == "gate":
        return Gate(cx.c, A.real_checked(rs["items"][0], "ref hs").reshape(n2, n2))
    if r.kind == "mproc":
        return MProcess(cx.c, [A.real_checked(h, "ref hs").reshape(n2, n2) for h in rs["items"]], shape=tuple(r.shape))
    if r.kind == "povm":
        return Povm(cx.c, [A.real_checked(v, "ref povm") for v in rs["items"]])
    if r.kind == "ens":
        ps = np.where(rs["ps"] > P_ZERO, rs["ps"], 0.0)
        states = []
        for b, p in zip(r.v, ps):
            if p > 0:
                states.append(State(cx.c, _clean_state_coeffs(cx, b / p)))
            else:
                states.append(State(cx.c, np.zeros(n2, dtype=np.float64), is_physicality_required=False))
        return StateEnsemble(states, MultinomialDistribution(np.array(ps, dtype=np.float64), shape=tuple(r.shape)))
    raise AssertionError("harness: cannot build %s" % r.kind)


# =====================================================================================================
# evaluating one chain: all bracketings, node by node
# =====================================================================================================

class Node:
    __slots__ = ("rep", "q", "clean")

    def __init__(self, rep, q, clean):
        self.rep, self.q, self.clean = rep, q, clean


class Reporter:
    """one out.fail per distinct sig and case; further hits are only counted"""

    def __init__(self, out):
        self.out, self.seen = out, set()

    def fail(self, sig, msg):
        if sig in self.seen:
            self.out.count("repeated_failures")
            return
        self.seen.add(sig)
        self.out.fail(sig, msg)


def chain_text(chain):
    return " -> ".join("%s:%s" % (k, n) for k, n in chain)


def cross_check_reference(cx, chain, full):
    """the fold-based reference against mc.refmodel.run_chain / heisenberg_povm (two independent derivations)"""
    kinds = [k for k, _ in chain]
    ops = []
    for k, n in chain:
        if k != "S":
            ops.append(({"G": "gate", "M": "mprocess", "P": "povm"}[k], cx.data[KINDS[k]][n]))
    if kinds[0] == "S":
        rho = cx.data["state"][chain[0][1]]
        p, branches = R.run_chain(rho, ops)
        if full.kind == "dist":
            ok = _close(full.v[0], p.ravel(), 1e-12)
        elif full.kind == "ens":
            keys = sorted(branches)
            ok = _close(np.array([b for b in full.v]), np.array([branches[k].reshape(-1) for k in keys]), 1e-12)
        else:
            ok = _close(full.v[0], branches[()].reshape(-1), 1e-12)
        if not ok:
            raise AssertionError("harness: the two reference derivations disagree on %s" % chain_text(chain))
    elif kinds[-1] == "P":
        keys, elems = R.heisenberg_povm(ops[-1][1], ops[:-1])
        if not _close(np.array(full.v), np.array([e.reshape(-1) for e in elems]), 1e-12):
            raise AssertionError("harness: the two reference derivations disagree on %s" % chain_text(chain))


def eval_chain(cx, chain, out, rep, fold=True):
    """chain: time-ordered list of (kind letter, operand name)."""
    from quara.objects.operators import compose_qoperations
    n = len(chain)
    base_r = [cx.r(KINDS[k], nm) for k, nm in chain]
    base_q = [cx.q(KINDS[k], nm) for k, nm in chain]
    span = {}
    for i in range(n):
        acc = base_r[i]
        span[(i, i + 1)] = acc
        for j in range(i + 2, n + 1):
            acc = ref_then(acc, base_r[j - 1])
            span[(i, j)] = acc
    cross_check_reference(cx, chain, span[(0, n)])
    text = chain_text(chain)
    memo = {}

    def judge(site, res_ok, res, r, where, root):
        """-> (clean, object to hand on)"""
        cls = config_class(cx, r)
        out.traces += 1
        if not res_ok:
            rep.fail("compose:%s:raises:%s:%s" % (site, type(res).__name__, cls),
                     "chain (time order) %s, bracketing %s: the call raised %s" % (text, where, A.fmt_exc(res)))
            return False, (None if root else build_q(cx, r))
        probs = compare(lib_stats(res), ref_stats(cx, r), out)
        if not probs:
            out.count("node_ok:" + site)
            return True, res
        for what, detail in probs:
            rep.fail("compose:%s:%s:%s" % (site, what, cls),
                     "chain (time order) %s, bracketing %s (inner results verified or repaired): %s" % (text, where, detail))
        return False, (None if root else build_q(cx, r))

    def ev(i, j):
        if (i, j) in memo:
            return memo[(i, j)]
        if j == i + 1:
            res = [Node(chain[i][0] + str(i), base_q[i], True)]
        else:
            res = []
            root = (i, j) == (0, n)
            for k in range(i + 1, j):
                for a in ev(i, k):          # earlier part
                    for b in ev(k, j):      # later part
                        site = "%s_%s" % (type(b.q).__name__, type(a.q).__name__)
                        where = "(%s %s)" % (a.rep, b.rep)
                        ok, val = A.call(compose_qoperations, b.q, a.q)
                        out.ops += 1
                        out.count("site:" + site)
                        clean, q = judge(site, ok, val, span[(i, j)], where, root)
                        if site == "MProcess_MProcess" and count_class(span[(i, j)].shape) == "counts-unequal":
                            out.count("mm_unequal_counts")
                        res.append(Node(where, q, clean and a.clean and b.clean))
        memo[(i, j)] = res
        return res

    roots = ev(0, n)
    out.count("trees_n%d" % n, len(roots))
    out.count("trees_clean", sum(1 for t in roots if t.clean))
    full = span[(0, n)]
    out.count("result:" + full.kind)
    if full.kind in ("gate", "mproc") and n >= 2:
        # non-commuting operands?
        Ss = [r.v for r in base_r]
        if any(np.abs(x @ y - y @ x).max() > 1e-3 for a, b in zip(Ss, Ss[1:]) for x in a for y in b):
            out.count("noncommuting_neighbours")

    if not fold:
        return roots, full
    # ---- the library's own n-ary fold: compose_qoperations(latest, ..., earliest) and the single-list form
    args = list(reversed(base_q))
    fold_rep = chain[0][0] + "0"
    for i in range(1, n):
        fold_rep = "(%s %s%d)" % (fold_rep, chain[i][0], i)
    fold_tree = next(t for t in roots if t.rep == fold_rep)
    cls = config_class(cx, full)
    shared_list = list(args)            # one list object handed to the library twice: it must come back unchanged
    for form, call_args in (("flat", args), ("list", [list(args)]), ("list-reused-1", [shared_list]), ("list-reused-2", [shared_list])):
        ok, val = A.call(compose_qoperations, *call_args)
        out.ops += 1
        out.traces += 1
        if form.startswith("list-reused") and not (len(shared_list) == len(args) and all(x is y for x, y in zip(shared_list, args))):
            rep.fail("compose:nary-list:mutates-callers-list", "chain %s: the list passed to compose_qoperations was changed (%d -> %d elements)" % (
                text, len(args), len(shared_list)))
            shared_list = list(args)
        if fold_tree.clean:
            if not ok:
                rep.fail("compose:nary-%s:raises:%s:%s" % (form, type(val).__name__, cls),
                         "chain %s: %s" % (text, A.fmt_exc(val)))
                continue
            probs = compare(lib_stats(val), ref_stats(cx, full))
            for what, detail in probs:
                rep.fail("compose:nary-%s:%s:%s" % (form, what, cls), "chain %s, all binary calls of the same nesting are correct: %s" % (text, detail))
            if not probs:
                out.count("nary_ok")
                u = unphysical(cx, val)
                if u:
                    rep.fail("compose:nary-%s:unphysical-result:%s" % (form, cls), "chain %s: %s" % (text, u))
                else:
                    out.count("physical_results")
        else:
            # the same nesting by binary calls already failed at a named call site: the fold must simply equal the
            # un-repaired binary nesting (same statistics or both raising), otherwise the fold itself is at fault
            okp, cur = True, base_q[0]
            for e in base_q[1:]:
                okp, cur = A.call(compose_qoperations, e, cur)
                out.ops += 1
                if not okp:
                    break
            out.count("nary_vs_unrepaired_nesting")
            if ok != okp:
                rep.fail("compose:nary-%s:differs-from-binary-nesting:%s" % (form, cls),
                         "chain %s: n-ary %s, nested binary calls %s" % (text, "returned" if ok else A.fmt_exc(val),
                                                                          "returned" if okp else A.fmt_exc(cur)))
            elif ok:
                la, lb = lib_stats(val), lib_stats(cur)
                same = la["type"] == lb["type"] and la["shape"] == lb["shape"] and \
                    (la["ps"] is None or _close(la["ps"], lb["ps"], 1e-12)) and \
                    (la["items"] is None or (len(la["items"]) == len(lb["items"]) and all(
                        _close(x, y, 1e-12) for x, y in zip(la["items"], lb["items"]))))
                if not same:
                    rep.fail("compose:nary-%s:differs-from-binary-nesting:%s" % (form, cls), "chain %s" % text)
    # ---- MProcess.to_povm of a composed measurement process = the POVM it induces
    if full.kind == "mproc":
        m = next((t.q for t in roots if t.clean), None)
        if m is None:
            m = build_q(cx, full)
        check_to_povm(cx, m, full, out, rep, "composed:%s" % count_class(full.shape), text)
    return roots, full


def check_to_povm(cx, m, r, out, rep, cls, text):
    ok, pv = A.call(m.to_povm)
    out.ops += 1
    out.traces += 1
    induced = RObj("povm", (len(r.v),), [S.conj().T @ cx.vecI for S in r.v])
    if not ok:
        rep.fail("to_povm:raises:%s:%s" % (type(pv).__name__, cls), "%s: %s" % (text, A.fmt_exc(pv)))
        return None
    probs = compare(lib_stats(pv), ref_stats(cx, induced))
    for what, detail in probs:
        rep.fail("to_povm:%s:%s" % (what, cls), "%s: to_povm is not the induced POVM x -> M_x^+(I): %s" % (text, detail))
    if not probs:
        out.count("to_povm_ok")
    return pv


# =====================================================================================================
# families
# =====================================================================================================

def patterns(n):
    """type-valid kind strings of length n: [S]? (G|M)* [P]?"""
    outp = []
    for first in "SGM":
        for mid in itertools.product("GM", repeat=n - 2):
            for last in "GMP":
                outp.append(first + "".join(mid) + last)
    return outp


PAIR_COMBOS = [("G", "G"), ("G", "M"), ("M", "G"), ("M", "M"), ("G", "S"), ("M", "S"), ("P", "G"), ("P", "M"), ("P", "S")]


def families(tier, seed):
    chains = []
    plan = []
    for tag in ("Q1", "Q3", "Q2"):
        for pool in ("A", "B"):
            plan.append((tag, pool, 2, 4 if tier == "quick" else 5))
    if tier == "quick":
        plan += [("Q1", "A", 5, 5), ("Q3", "A", 5, 5), ("Q2", "A", 5, 5)]
    else:
        plan += [("Q1", "A", 6, 6), ("Q1", "B", 6, 6)]
    for n in range(2, 7):
        for tag, pool, lo, hi in plan:
            if lo <= n <= hi:
                for pat in patterns(n):
                    if n >= 6:
                        for a0 in range(4):
                            chains.append({"sys": tag, "pool": pool, "pattern": pat, "first": a0})
                    else:
                        chains.append({"sys": tag, "pool": pool, "pattern": pat})
    pairs = [{"sys": tag, "later": l, "earlier": e} for tag in ("Q1", "Q3", "Q2") for l, e in PAIR_COMBOS]
    genmp, topovm = [], []
    for tag in ("Q1", "Q3", "Q2"):
        cx = ctx(tag, seed)
        for nm in cx.names("povm"):
            genmp.append({"sys": tag, "povm": nm})
        topovm.append({"sys": tag})
    rare = [{"sys": tag, "exp": e} for tag in ("Q1", "Q3", "Q2") for e in RARE_EXPONENTS]
    spectral = [{"sys": tag, "povm": nm} for tag in ("Q1", "Q3", "Q2") for nm in sorted(spectral_povms({"Q1": 2, "Q3": 3, "Q2": 4}[tag]))]
    return [("pairs", pairs), ("to_povm", topovm), ("genmp", genmp), ("genmp_spectral", spectral), ("rare", rare), ("chains", chains)]


def execute(family, params, seed):
    return {"chains": ex_chains, "pairs": ex_pairs, "genmp": ex_genmp, "to_povm": ex_to_povm, "rare": ex_rare,
            "genmp_spectral": ex_genmp_spectral}[family](params, seed)


def spectral_povms(d):
    """POVMs whose elements are DIAGONAL in the computational basis with exactly representable, partly degenerate
    eigenvalues: the spectral decomposition (documented back-action of modes 0 and 1) is unambiguous for them."""
    out = {}
    half = [0.5] * d
    e = lambda k: [1.0 if i == k else 0.0 for i in range(d)]
    out["halfI+halfprojectors"] = [half] + [[0.5 * v for v in e(k)] for k in range(d)]
    if d >= 3:
        out["block-projectors"] = [[1.0] * (d - 1) + [0.0], e(d - 1)]
        out["weighted-blocks"] = [[0.25] * (d - 1) + [0.5], [0.75] * (d - 1) + [0.5]]
    if d == 4:
        out["parity"] = [[1.0, 0.0, 0.0, 1.0], [0.0, 1.0, 1.0, 0.0]]
    if d == 2:
        out["unsharp+identity-part"] = [[0.5, 0.5], [0.25, 0.5], [0.25, 0.0]]
    return out


def ex_genmp_spectral(p, seed):
    """Povm.generate_mprocess modes 0 and 1 against their documented back-action (sqrt(Pi) rho sqrt(Pi); sum_i p_i P_i rho P_i
    with the spectral projectors P_i) on states with coherence inside the degenerate eigenspaces."""
    from quara.objects.operators import compose_qoperations
    out = Out()
    tag = p["sys"]
    c = A.make_system(tag)
    d = c.dim
    diags = spectral_povms(d)[p["povm"]]
    Ms = [np.diag(np.array(v, dtype=np.complex128)) for v in diags]
    ok, povm = A.call(A.q_povm, c, Ms)
    if not ok:
        raise HarnessError("spectral POVM rejected: %s" % A.fmt_exc(povm))
    states = A.states_ref(d, seed)
    for mode in (0, 1):
        okm, mp = A.call(povm.generate_mprocess, mode)
        out.ops += 1
        if not okm:
            out.fail("generate_mprocess:mode%d:raises:%s:degenerate-diagonal" % (mode, type(mp).__name__), "%s %s: %s" % (tag, p["povm"], A.fmt_exc(mp)))
            continue
        for sn in ("pure_generic", "pure_fourier", "mixed_generic"):
            rho = states[sn]
            oke, ens = A.call(compose_qoperations, mp, A.q_state(c, rho))
            out.ops += 1
            if not oke:
                # same configuration class as everywhere else in this module: an outcome of reference probability in
                # (P_BAND, P_RARE) is the condition of the recorded finding "post state normalised by a small p(x)"
                pxs = [float(np.real(sum(dv[k] * rho[k, k] for k in range(d)))) for dv in diags]
                rare = ":rare-outcome" if any(P_BAND < q < P_RARE for q in pxs) else ""
                out.fail("compose:MProcess_State:raises:%s:generated-mode%d:degenerate-diagonal%s" % (type(ens).__name__, mode, rare),
                         "%s %s on %s (reference outcome probabilities %s): %s" % (tag, p["povm"], sn, ["%.3g" % q for q in pxs], A.fmt_exc(ens)))
                continue
            for x, dv in enumerate(diags):
                px = float(np.real(sum(dv[k] * rho[k, k] for k in range(d))))
                if px < 1e-6:
                    continue
                if mode == 0:
                    sq = np.diag(np.sqrt(np.array(dv)))
                    post = sq @ rho @ sq / px
                else:
                    post = np.zeros((d, d), dtype=np.complex128)
                    for lam in sorted(set(dv)):
                        if lam == 0.0:
                            continue
                        P = np.diag([1.0 if v == lam else 0.0 for v in dv]).astype(np.complex128)
                        post = post + lam * (P @ rho @ P)
                    post = post / px
                got = A.rho_of(ens.states[x])
                out.traces += 1
                out.count("spectral_post_states_checked")
                if len(set(v for v in dv if v != 0.0)) < sum(1 for v in dv if v != 0.0):
                    out.count("spectral_degenerate_elements")
                if abs(ens.prob_dist.ps[x] - px) > 1e-9 or np.abs(got - post).max() > 1e-9:
                    out.fail("generate_mprocess:mode%d:documented-back-action:%s" % (mode, "degenerate-spectrum" if mode == 1 else "sqrt"),
                             "%s POVM %s outcome %d on state %s: post-measurement state differs from the documented back-action by %.3g (p %.6g vs %.6g)" % (
                                 tag, p["povm"], x, sn, np.abs(got - post).max(), ens.prob_dist.ps[x], px))
    out.outcome = "ok" if not out.fails else "fail"
    return out


def _finish(out, digest_parts):
    out.outcome = "ok" if not out.fails else "fail:" + ",".join(sorted({f["sig"].split(":")[1] for f in out.fails}))[:60]
    out.digest = A.digest(*digest_parts) if digest_parts else ""
    return out


def ex_chains(p, seed):
    out = Out()
    rep = Reporter(out)
    cx = ctx(p["sys"], seed)
    pn = pool_names(p["sys"], p["pool"])
    pat = p["pattern"]
    n = len(pat)
    dig = []
    cnt = 0
    ntrees = 0
    for assign in itertools.product((0, 1), repeat=n):
        if "first" in p and (assign[0] * 2 + assign[1]) != p["first"]:
            continue
        chain = [(k, pn[k][a]) for k, a in zip(pat, assign)]
        roots, full = eval_chain(cx, chain, out, rep)
        cnt += 1
        ntrees += len(roots)
        q = next((t.q for t in roots if t.q is not None), None)
        if q is not None:
            ls = lib_stats(q)
            dig.append(np.concatenate([np.ravel(x) for x in (ls["items"] or [ls["ps"]])]))
    out.nontrivial = True       # every pattern has assignments with different operands; most contain a measurement
    inner(out, ntrees - 1)
    out.count("chains", cnt)
    return _finish(out, dig)


def ex_rare(p, seed):
    """chains through a measurement with one rare outcome (p = 10^-e, far above the truncation threshold eps_zero)"""
    out = Out()
    rep = Reporter(out)
    cx = ctx(p["sys"], seed)
    pa = pool_names(p["sys"], "A")
    S, M = ("S", "rare_1e-%d" % p["exp"]), ("M", "rotated_comp")
    chains = [[S, M]]
    for g in pa["G"]:
        chains += [[S, M, ("G", g)], [S, ("G", g), M]]
    for pv in pa["P"]:
        chains += [[S, M, ("P", pv)]]
    if p["exp"] <= 4:    # keep joint probabilities away from the truncation threshold
        for m2 in pa["M"]:
            chains += [[S, M, ("M", m2)], [S, ("M", m2), M]]
        if p["exp"] <= 3:
            for pv in pa["P"]:
                chains += [[S, M, ("M", pa["M"][0]), ("P", pv)]]
    dig = []
    for chain in chains:
        roots, full = eval_chain(cx, chain, out, rep)
        q = next((t.q for t in roots if t.q is not None and t.clean), None)
        if q is not None:
            ls = lib_stats(q)
            dig.append(np.concatenate([np.ravel(x) for x in (ls["items"] or [ls["ps"]])]))
        out.count("rare_chains")
    inner(out, len(chains) - 1)
    return _finish(out, dig)


def ex_pairs(p, seed):
    """all operand pairs of the full alphabets for one elementary type combination"""
    out = Out()
    rep = Reporter(out)
    cx = ctx(p["sys"], seed)
    l, e = p["later"], p["earlier"]
    dig = []
    cnt = 0
    for en in cx.names(KINDS[e]):
        for ln in cx.names(KINDS[l]):
            chain = [(e, en), (l, ln)]
            roots, full = eval_chain(cx, chain, out, rep, fold=True)
            cnt += 1
            res = roots[0].q
            if res is not None:
                ls = lib_stats(res)
                dig.append(np.concatenate([np.ravel(x) for x in (ls["items"] or [ls["ps"]])]))
            if l == "P":
                m = len(cx.data["povm"][ln])
                out.count("povm_outcomes_%d" % m)
                out.count("povm_class_" + ln.split("_")[0])
            # the measurement process on a state is consistent with the POVM it induces (library against library)
            if (l, e) == ("M", "S") and roots[0].clean:
                from quara.objects.operators import compose_qoperations
                mq, sq = cx.q("mprocess", ln), cx.q("state", en)
                ok1, pv = A.call(mq.to_povm)
                ok2, dist = A.call(compose_qoperations, pv, sq) if ok1 else (False, pv)
                out.ops += 2
                if not ok2:
                    rep.fail("induced-povm:raises:%s" % type(dist).__name__, "%s on %s: %s" % (ln, en, A.fmt_exc(dist)))
                elif not _close(np.asarray(dist.ps, dtype=float), np.asarray(res.prob_dist.ps, dtype=float)):
                    rep.fail("induced-povm:probabilities-differ:%s" % cx.tag,
                             "MProcess %s on state %s: ensemble ps %s, Born of to_povm() %s" % (ln, en, res.prob_dist.ps, dist.ps))
                else:
                    out.count("induced_povm_consistent")
    inner(out, cnt - 1)
    out.count("pairs", cnt)
    return _finish(out, dig)


def ex_to_povm(p, seed):
    out = Out()
    rep = Reporter(out)
    cx = ctx(p["sys"], seed)
    dig = []
    names = cx.names("mprocess")
    for nm in names:
        pv = check_to_povm(cx, cx.q("mprocess", nm), cx.r("mprocess", nm), out, rep, "alphabet:%s" % nm.split("_")[0],
                           "%s instrument %s" % (cx.tag, nm))
        if pv is not None:
            dig.append(np.concatenate([np.asarray(v) for v in pv.vecs]))
    inner(out, len(names) - 1)
    return _finish(out, dig)


def ex_genmp(p, seed):
    """Povm.generate_mprocess in modes 0, 1, 2: physical, induces the POVM it came from, Born-consistent"""
    from quara.objects.operators import compose_qoperations
    out = Out()
    rep = Reporter(out)
    cx = ctx(p["sys"], seed)
    d = cx.d
    nm = p["povm"]
    pclass = nm.split("_")[0]
    povm_q = cx.q("povm", nm)
    povm_r = cx.r("povm", nm)
    m = len(povm_r.v)
    snames = cx.names("state")
    variants = [("mode0", 0, None), ("mode1", 1, None)]
    for sn in snames:
        variants.append(("mode2-single", 2, [sn]))
    for off in range(2):
        variants.append(("mode2-list", 2, [snames[(off + 2 * x) % len(snames)] for x in range(m)]))
    dig = []
    for label, mode, post in variants:
        if post is None:
            args = (mode,)
        elif label == "mode2-single":
            args = (2, cx.q("state", post[0]))
        else:
            args = (2, [cx.q("state", s) for s in post])
        text = "%s povm %s.generate_mprocess(mode_backaction=%d%s)" % (cx.tag, nm, mode, "" if post is None else ", post=%s" % post)
        ok, mp = A.call(povm_q.generate_mprocess, *args)
        out.ops += 1
        out.traces += 1
        out.count("genmp_" + label)
        sig0 = "generate_mprocess:%s" % label
        if not ok:
            rep.fail("%s:raises:%s:%s" % (sig0, type(mp).__name__, pclass), "%s raised %s" % (text, A.fmt_exc(mp)))
            continue
        if type(mp).__name__ != "MProcess" or len(mp.hss) != m:
            rep.fail("%s:type-or-length:%s" % (sig0, pclass), "%s returned %s with %d elements for %d outcomes" % (
                text, type(mp).__name__, len(getattr(mp, "hss", [])), m))
            continue
        Ss = [cx.T @ np.asarray(h) @ cx.Th for h in mp.hss]
        dig.append(np.concatenate([np.asarray(h).reshape(-1) for h in mp.hss]))
        # physical
        u = unphysical(cx, mp)
        if u:
            rep.fail("%s:unphysical:%s" % (sig0, pclass), "%s: %s" % (text, u))
            continue
        # induces the POVM it came from, with the same labels
        induced = [S.conj().T @ cx.vecI for S in Ss]
        bad = [x for x in range(m) if not _close(induced[x], povm_r.v[x])]
        if bad:
            what = "induced-povm-labels" if _is_permutation(induced, povm_r.v) else "induced-povm"
            rep.fail("%s:%s:%s" % (sig0, what, pclass), "%s: induced element %d deviates by %.3e" % (
                text, bad[0], np.abs(induced[bad[0]] - povm_r.v[bad[0]]).max()))
            continue
        good = True
        # to_povm gives the POVM back
        r_mp = RObj("mproc", (m,), Ss)
        okp, pv = A.call(mp.to_povm)
        out.ops += 1
        if not okp:
            good = False
            rep.fail("to_povm:raises:%s:generated-%s" % (type(pv).__name__, label), "%s: %s" % (text, A.fmt_exc(pv)))
        else:
            pr = compare(lib_stats(pv), ref_stats(cx, povm_r))
            if pr:
                good = False
                rep.fail("to_povm:%s:generated-%s" % (pr[0][0], label), "%s: to_povm() is not the POVM it was generated from: %s" % (text, pr[0][1]))
        # on every alphabet state (the generated process is physical here, so this judges compose(MProcess, State)):
        # probabilities = Born rule of the POVM; post states = action of the returned HS, normalised, physical
        for sn in snames:
            sr = cx.r("state", sn)
            born = np.array([np.vdot(M, sr.v[0]).real for M in povm_r.v])
            r_ens = ref_then(sr, r_mp)
            cls = config_class(cx, r_ens)
            oke, ens = A.call(compose_qoperations, mp, cx.q("state", sn))
            out.ops += 1
            out.traces += 1
            where = "%s on state %s" % (text, sn)
            if not oke:
                good = False
                rep.fail("compose:MProcess_State:raises:%s:%s" % (type(ens).__name__, cls), "%s: %s" % (where, A.fmt_exc(ens)))
                continue
            pr = compare(lib_stats(ens), ref_stats(cx, r_ens), out)
            for what, detail in pr:
                good = False
                rep.fail("compose:MProcess_State:%s:%s" % (what, cls), "%s: %s" % (where, detail))
            if pr:
                continue
            lp = np.asarray(ens.prob_dist.ps, dtype=float)
            if not _close(lp, born):
                good = False
                rep.fail("%s:born-rule:%s" % (sig0, pclass), "%s: ps %s, Born rule of the POVM %s" % (where, lp, born))
            if mode == 2:
                # documented back-action of mode 2: outcome x leaves the system in the state supplied for x (the same Povm object
                # has been asked for other post-measurement states before - the answer must follow THIS call's argument)
                for x in range(m):
                    if born[x] < 1e-6:
                        continue
                    want = A.rho_of(cx.q("state", post[0] if label == "mode2-single" else post[x]))
                    got = A.rho_of(ens.states[x])
                    out.count("genmp_mode2_post_states_checked")
                    if np.abs(got - want).max() > 1e-9:
                        good = False
                        rep.fail("%s:documented-back-action:post-state-is-not-the-supplied-state:%s" % (sig0, pclass),
                                 "%s: outcome %d leaves a state %.3g away from the state supplied for it" % (where, x, np.abs(got - want).max()))
                        break
            u = unphysical(cx, ens)
            if u:
                good = False
                rep.fail("compose:MProcess_State:unphysical-result:%s" % cls, "%s: %s" % (where, u))
        if good:
            out.count("genmp_ok_" + label.split("-")[0])
    inner(out, len(variants) - 1)
    return _finish(out, dig)


# =====================================================================================================
# vacuity guards
# =====================================================================================================

SITES = ["Gate_Gate", "Gate_MProcess", "MProcess_Gate", "MProcess_MProcess", "Gate_State", "Gate_StateEnsemble",
         "MProcess_State", "MProcess_StateEnsemble", "Povm_Gate", "Povm_MProcess", "Povm_State", "Povm_StateEnsemble"]


def guards(summary):
    info = summary["info"]
    g = []
    for s in SITES:
        if info.get("site:" + s, 0) < 1:
            g.append("call site never exercised: %s" % s)
    if info.get("spectral_degenerate_elements", 0) < 1:
        g.append("no degenerate POVM element reached the documented-back-action comparison")
    for k in ("result:state", "result:ens", "result:gate", "result:mproc", "result:povm", "result:dist",
              "mm_unequal_counts", "noncommuting_neighbours", "zero_prob_outcomes", "trees_n4", "nary_ok",
              "physical_results", "to_povm_ok", "induced_povm_consistent",
              "genmp_mode0", "genmp_mode1", "genmp_mode2-single", "genmp_mode2-list", "genmp_ok_mode0", "genmp_ok_mode2", "genmp_mode2_post_states_checked",
              "povm_outcomes_2", "povm_outcomes_3", "povm_outcomes_4", "povm_class_rank1", "povm_class_generic",
              "povm_class_projective", "povm_class_withzero"):
        if info.get(k, 0) < 1:
            g.append("never observed: %s" % k)
    if info.get("ref_prob_in_truncation_band", 0) > 0.001 * info.get("probabilities_compared", 0):
        g.append("%d of %d reference probabilities are inside the eps_zero truncation band (1e-12, 1e-7) where no verdict is given" %
                 (info["ref_prob_in_truncation_band"], info.get("probabilities_compared", 0)))
    if info.get("rare_chains", 0) < 1:
        g.append("never observed: rare_chains")
    # every bracketing really ran: Catalan(3) = 5 trees per 4-chain
    if info.get("trees_n4", 0) % 5 != 0:
        g.append("4-chains did not run 5 bracketings each")
    return g
