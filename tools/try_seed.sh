#!/bin/bash
# usage: try_seed.sh PATCH PROP [PROP...]   - runs the quick checks against a scratch worktree with PATCH applied
# (equivalent to `git -C /repo apply PATCH; ./check ...; git -C /repo checkout -- .` but leaves /repo untouched)
set -u
PATCH="$1"; shift
WT=/tmp/seedrun.$$
git -C /repo worktree add -q "$WT" HEAD || exit 2
trap 'git -C /repo worktree remove --force "$WT"; rm -rf /tmp/seedrun.$$.out' EXIT
git -C "$WT" apply "$PATCH" || { echo "PATCH DOES NOT APPLY"; exit 2; }
cd /verif
for P in "$@"; do
  QUARA_REPO="$WT" VERIF_OUT="/tmp/seedrun.$$.out" ./check "$P" --tier "${TIER:-quick}" > /tmp/seedrun.$$.$P.log 2>&1
  rc=$?
  echo "== $P exit=$rc  $(grep -c '^VIOLATION' /tmp/seedrun.$$.$P.log) VIOLATION lines"
  grep -E "^ +[0-9]+  " /tmp/seedrun.$$.$P.log | head -8
  tail -1 /tmp/seedrun.$$.$P.log
  rm -f /tmp/seedrun.$$.$P.log
done
