"""Reference side of C12: tomography set-ups with a textbook forward model, data tables, weight alphabets,
closed-form loss values / derivatives, difference quotients, Pearson judgement of inverse-covariance weights.
No quara loss code is used here; quara objects are only built through public constructors."""
import math

import numpy as np

from mc import alphabet as A, refmodel as R
from mc.frames import frame

KIND = {"qst": "state", "povmt": "povm", "qpt": "gate", "qmpt": "mprocess"}
P_MARGIN = 0.02          # entropy grid points keep every predicted probability >= this (far from the 1e-10 clipping)

_SETUP = {}


class Setup:
    pass


def _stack_state(rho, B):
    return A.real_checked(R.coeffs(rho, B), "state")


def _stack_povm(Ms, B):
    return np.concatenate([A.real_checked(R.coeffs(M, B), "povm") for M in Ms])


def setup(typ, flag, mm, mp, seed, systag="Q1"):
    """typ in qst/povmt/qpt/qmpt; mp = outcomes of the tester POVMs (povmt: of the estimated POVM);
    mm = outcomes of the estimated mprocess (qmpt only); systag Q1 (qubit) or Q3 (qutrit)."""
    key = (typ, bool(flag), mm, mp, int(seed), systag)
    if key in _SETUP:
        return _SETUP[key]
    from quara.protocol.qtomography.standard.standard_qst import StandardQst
    from quara.protocol.qtomography.standard.standard_povmt import StandardPovmt
    from quara.protocol.qtomography.standard.standard_qpt import StandardQpt
    from quara.protocol.qtomography.standard.standard_qmpt import StandardQmpt
    su = Setup()
    su.typ, su.flag, su.mm, su.mp, su.seed, su.systag = typ, bool(flag), mm, mp, seed, systag
    kind = KIND[typ]
    d = A.dim_of(systag)
    F = frame(kind, systag, {"qst": None, "povmt": mp, "qpt": None, "qmpt": mm}[typ])
    su.F, su.kind = F, kind
    c, B, D = F.c_sys, F.B, F.D
    st = A.states_ref(d, seed)
    states = [st[k] for k in ("z0", "pure_generic", "pure_fourier", "mixed_generic")]
    povms = []
    if typ == "qst":
        povms = [A.povm_generic(d, mp, seed, salt=1), A.povm_generic(d, mp, seed, salt=2)]
        if mp == 2 and d == 2:
            povms.append([np.diag([1.0, 0.0]).astype(complex), np.diag([0.0, 1.0]).astype(complex)])
        else:
            povms.append(A.povm_generic(d, mp, seed, salt=3))
    elif typ in ("qpt", "qmpt"):
        povms = [A.povm_generic(d, mp, seed, salt=1), A.povm_generic(d, mp, seed, salt=2)] if mp > 1 \
            else [[np.eye(d, dtype=complex)]]
    su.states, su.povms = states, povms
    qs = [A.q_state(c, r) for r in states]
    qp = [A.q_povm(c, P) for P in povms]
    if typ == "qst":
        su.qt = StandardQst(qp, on_para_eq_constraint=flag)
        su.S, su.m = len(povms), mp
    elif typ == "povmt":
        su.qt = StandardPovmt(qs, mp, on_para_eq_constraint=flag)
        su.S, su.m = len(states), mp
    elif typ == "qpt":
        su.qt = StandardQpt(qs, qp, on_para_eq_constraint=flag)
        su.S, su.m = len(states) * len(povms), mp
    else:
        su.qt = StandardQmpt(qs, qp, mm, on_para_eq_constraint=flag)
        su.S, su.m = len(states) * len(povms), mm * mp
    su.n = F.num_var(flag)
    if su.n != su.qt.num_variables or su.S != su.qt.num_schedules:
        raise AssertionError("harness: variable / schedule count disagrees with the tomography object")
    state_coeffs = [R.coeffs(r, B) for r in states]

    def fwd(x):
        """textbook Born rule; linear in the stacked vector x; one vector per schedule (state-major, povm-minor)"""
        out = []
        if kind == "state":
            rho = F.to_blocks(x)[0]
            for P in povms:
                out.append([np.trace(M @ rho).real for M in P])
        elif kind == "povm":
            Ms = F.to_blocks(x)
            for r in states:
                out.append([np.trace(M @ r).real for M in Ms])
        elif kind == "gate":
            hs = np.asarray(x).reshape(D, D)
            for cr in state_coeffs:
                g = R.mat_from_coeffs(hs @ cr, B)
                for P in povms:
                    out.append([np.trace(M @ g).real for M in P])
        else:
            for cr in state_coeffs:
                gs = [R.mat_from_coeffs(np.asarray(x)[k * D * D:(k + 1) * D * D].reshape(D, D) @ cr, B) for k in range(mm)]
                for P in povms:
                    out.append([np.trace(M @ g).real for g in gs for M in P])   # (mprocess outcome, povm outcome) row-major
        return np.array(out, dtype=float)

    n = su.n
    f0 = fwd(F.stacked_from_var(np.zeros(n), flag)).ravel()
    cols = [fwd(F.stacked_from_var(np.eye(n)[i], flag)).ravel() - f0 for i in range(n)]
    su.A = np.array(cols).T.copy()             # (S*m, n)
    su.b = f0.copy()
    su.A3 = su.A.reshape(su.S, su.m, n)
    su.b2 = su.b.reshape(su.S, su.m)
    # reference objects (stacked vectors): first one is the "true" object of the exact data sets
    base = []
    if kind == "state":
        for k in ("mixed_generic", "maxmixed", "pure_generic", "pure_fourier"):
            base.append((k, _stack_state(st[k], B)))
    elif kind == "povm":
        base.append(("generic7", _stack_povm(A.povm_generic(d, mp, seed, salt=7), B)))
        base.append(("uniform", _stack_povm([np.eye(d, dtype=complex) / mp] * mp, B)))
        base.append(("generic9", _stack_povm(A.povm_generic(d, mp, seed, salt=9), B)))
    elif kind == "gate":
        g = A.gates_ref(d, seed)
        for k in ("kraus_generic_r2", "depolarizing", "ampdamp", "unitary_generic"):
            base.append((k, A.hs_of_kraus(c, g[k]).ravel()))
    else:
        ins = A.instruments_ref(d, seed, ms=(mm,))
        for k in ("feedback_m%d" % mm, "luders_m%d" % mm, "multikraus_m%d" % mm):
            base.append((k, np.concatenate([A.hs_of_kraus(c, ks).ravel() for ks in ins[k]])))
    su.base = base
    su.v_true = F.var_from_stacked(base[0][1], flag)
    su.p_true = (su.A @ su.v_true + su.b).reshape(su.S, su.m)
    if su.p_true.min() < 1e-4 or abs(su.p_true.sum(axis=1) - 1).max() > 1e-9:
        raise AssertionError("harness: true object gives a degenerate distribution")
    su.grid = None
    _SETUP[key] = su
    return su


# ------------------------------------------------------------------ points

def unisolvent(n):
    """{0, e_i, e_i + e_j (i <= j)}: determines a polynomial of degree <= 2 in n variables.
    returns V (P,n) and the index maps"""
    pts = [np.zeros(n)]
    idx_e = []
    for i in range(n):
        v = np.zeros(n)
        v[i] = 1.0
        idx_e.append(len(pts))
        pts.append(v)
    idx_p = {}
    for i in range(n):
        for j in range(i, n):
            v = np.zeros(n)
            v[i] += 1.0
            v[j] += 1.0
            idx_p[(i, j)] = len(pts)
            pts.append(v)
    return np.array(pts), idx_e, idx_p


def quadratic_from_values(f, n, idx_e, idx_p):
    """exact second differences: the unique quadratic c + g.v + v.H.v/2 through values f on unisolvent(n)"""
    f0 = f[0]
    fe = np.array([f[k] for k in idx_e])
    H = np.zeros((n, n))
    for i in range(n):
        H[i, i] = f[idx_p[(i, i)]] - 2 * fe[i] + f0
    for i in range(n):
        for j in range(i + 1, n):
            H[i, j] = H[j, i] = f[idx_p[(i, j)]] - fe[i] - fe[j] + f0
    g0 = fe - f0 - np.diag(H) / 2
    return f0, g0, H


def push_outside(F, x, eps):
    """move the smallest eigenvalue of the first Hermitian block (density matrix / POVM element / Choi matrix) to -eps
    while keeping the equality constraint (trace, completeness, trace preservation)"""
    blocks = [np.array(b, dtype=np.complex128) for b in F.to_blocks(x)]
    w, V = np.linalg.eigh((blocks[0] + blocks[0].conj().T) / 2)
    psi = V[:, 0]
    delta = w[0] + eps
    P = np.outer(psi, psi.conj())
    if F.kind == "state":
        phi = V[:, -1]
        blocks[0] = blocks[0] - delta * P + delta * np.outer(phi, phi.conj())
    elif F.kind in ("povm", "mprocess"):
        blocks[0] = blocks[0] - delta * P
        blocks[1] = blocks[1] + delta * P
    else:
        # same input marginal: rotate the OUTPUT factor (first tensor factor of the Choi matrix) only
        U = R.generic_unitary(F.d, 0, salt=2)
        psi2 = np.kron(U, np.eye(F.d)) @ psi
        blocks[0] = blocks[0] - delta * P + delta * np.outer(psi2, psi2.conj())
    return F.from_blocks(blocks)


def entropy_grid(su):
    """fixed grid: reference objects, affine combinations lam in {-0.25, 0.5, 1.25} of every pair (stay on the equality
    set, leave the physical set), axis moves of +-0.07 (leave the equality set when flag=False); only points whose
    predicted probabilities are all >= P_MARGIN are kept.  returns list of (label, v, inside_physical)"""
    if su.grid is not None:
        return su.grid
    F, flag, n = su.F, su.flag, su.n
    X = [x for _, x in su.base]
    cand = [("obj:%s" % nm, F.var_from_stacked(x, flag)) for nm, x in su.base]
    for a in range(len(X)):
        for b in range(a + 1, len(X)):
            for lam in (-0.25, 0.5, 1.25):
                cand.append(("mix:%d,%d,%g" % (a, b, lam), F.var_from_stacked(X[a] + lam * (X[b] - X[a]), flag)))
    for b in range(1, len(X)):
        for lam in (-1.0, -0.5, 1.75, 2.5):
            cand.append(("mix:0,%d,%g" % (b, lam), F.var_from_stacked(X[0] + lam * (X[b] - X[0]), flag)))
    for k, x in enumerate(X):
        for eps in (0.01, 0.05):
            cand.append(("neg:%d,%g" % (k, eps), F.var_from_stacked(push_outside(F, x, eps), flag)))
    v0 = cand[0][1]
    for i in range(min(n, 4)):
        e = np.zeros(n)
        e[i] = 0.07
        cand.append(("axis+%d" % i, v0 + e))
        e = np.zeros(n)
        e[n - 1 - i] = -0.07
        cand.append(("axis-%d" % (n - 1 - i), v0 + e))
    grid, skipped = [], 0
    for lab, v in cand:
        p = su.A @ v + su.b
        if p.min() < P_MARGIN:
            skipped += 1
            continue
        x = F.stacked_from_var(v, flag)
        inside = F.min_eig(x) >= -1e-12 and F.eq_defect(x) <= 1e-9
        grid.append((lab, np.array(v, dtype=np.float64), bool(inside)))
    su.grid = grid
    su.grid_skipped = skipped
    return grid


# ------------------------------------------------------------------ data

def round_counts(p, n):
    """largest-remainder rounding of n*p to integer counts"""
    raw = np.asarray(p, float) * n
    k = np.floor(raw + 1e-12).astype(int)
    rest = int(n - k.sum())
    order = np.argsort(-(raw - k), kind="stable")
    for i in range(rest):
        k[order[i]] += 1
    return k


def dataset_ids(m):
    ids = []
    for N in (1, 2, 3):
        K = sum(1 for _ in R.compositions(N, m))
        ids += ["tab:%d:%d" % (N, t) for t in range(K)]
    ids += ["exact:100", "exact:100000", "counts:100", "counts:100000"]
    # UNEQUAL shot counts over the schedules (1e5 / 1e2 alternating, both phases): per-schedule quantities of the
    # inverse-covariance weights must use their own schedule's count
    ids += ["exactmix:0", "exactmix:1", "countsmix:0", "countsmix:1"]
    return ids


_COMP = {}


def comps(N, m):
    if (N, m) not in _COMP:
        _COMP[(N, m)] = list(R.compositions(N, m))
    return _COMP[(N, m)]


def dataset(su, did):
    """-> list of (num_data, empirical distribution) per schedule.  'tab:N:t': schedule s gets composition number
    (t + s*(1+K//4)) mod K of N into m parts, so that over t every table occurs at every schedule position."""
    parts = did.split(":")
    if parts[0] == "tab":
        N, t = int(parts[1]), int(parts[2])
        cs = comps(N, su.m)
        K = len(cs)
        return [(N, np.array(cs[(t + s * (1 + K // 4)) % K], dtype=np.float64) / N) for s in range(su.S)]
    if parts[0] in ("exactmix", "countsmix"):
        ph = int(parts[1])
        ns = [100000 if (s + ph) % 2 == 0 else 100 for s in range(su.S)]
        if parts[0] == "exactmix":
            return [(ns[s], np.array(su.p_true[s], dtype=np.float64)) for s in range(su.S)]
        return [(ns[s], round_counts(su.p_true[s], ns[s]).astype(np.float64) / ns[s]) for s in range(su.S)]
    n = int(parts[1])
    if parts[0] == "exact":
        return [(n, np.array(su.p_true[s], dtype=np.float64)) for s in range(su.S)]
    if parts[0] == "counts":
        return [(n, round_counts(su.p_true[s], n).astype(np.float64) / n) for s in range(su.S)]
    raise ValueError(did)


# ------------------------------------------------------------------ weight alphabets

def custom_mats(tag, S, m, seed):
    """A: positive definite, non-diagonal, different per schedule; B: symmetric indefinite"""
    a = np.array(R.angles(seed, S * m * m, salt=17 if tag == "A" else 29))
    mats = []
    for s in range(S):
        G = np.cos(3 * a[s * m * m:(s + 1) * m * m].reshape(m, m) + s)
        if tag == "A":
            W = G @ G.T + 0.1 * (s + 1) * np.eye(m)
        else:
            W = (G + G.T) * (s + 1.0) - 0.5 * np.eye(m)
        mats.append(np.ascontiguousarray((W + W.T) / 2, dtype=np.float64))
    return mats


def custom_vec(tag, S):
    if tag == "A":
        return [float(0.5 + 0.75 * s) for s in range(S)]
    return [0.0 if s == 1 else float(10.0 ** ((s % 3) - 1)) for s in range(S)]


# ------------------------------------------------------------------ closed forms

def se_value(su, Q, W, V):
    """sum_s (p_s - q_s)^T W_s (p_s - q_s) at the rows of V; also the sum of absolute terms (rounding scale)"""
    Wst = np.array([np.eye(su.m)] * su.S) if W is None else np.array([np.asarray(w, float) for w in W])
    Pm = (su.A @ V.T + su.b[:, None]).reshape(su.S, su.m, -1)
    r = Pm - Q[:, :, None]
    val = np.einsum("sxp,sxy,syp->p", r, Wst, r)
    sc = np.einsum("sxp,sxy,syp->p", np.abs(r), np.abs(Wst), np.abs(r))
    return val, sc


def se_grad(su, Q, W, v):
    Wst = np.array([np.eye(su.m)] * su.S) if W is None else np.array([np.asarray(w, float) for w in W])
    r = (su.A @ v + su.b).reshape(su.S, su.m) - Q
    g = 2 * np.einsum("sxa,sxy,sy->a", su.A3, Wst, r)
    sc = 2 * np.einsum("sxa,sxy,sy->a", np.abs(su.A3), np.abs(Wst), np.abs(r)).max()
    return g, sc


def se_hess(su, W):
    Wst = np.array([np.eye(su.m)] * su.S) if W is None else np.array([np.asarray(w, float) for w in W])
    H = 2 * np.einsum("sxa,sxy,syb->ab", su.A3, Wst, su.A3)
    sc = 2 * np.einsum("sxa,sxy,syb->ab", np.abs(su.A3), np.abs(Wst), np.abs(su.A3)).max()
    return H, sc


def _kl_terms(Q, Pm):
    """q log(q/p) with 0 log 0 = 0; Q (S,m), Pm (S,m) all p > 0"""
    with np.errstate(divide="ignore", invalid="ignore"):
        t = np.where(Q > 0, Q * (np.log(np.where(Q > 0, Q, 1.0)) - np.log(Pm)), 0.0)
        a = np.where(Q > 0, Q * (np.abs(np.log(np.where(Q > 0, Q, 1.0))) + np.abs(np.log(Pm))), 0.0)
    return t, a


def re_value(su, Q, w, v):
    ws = np.ones(su.S) if w is None else np.asarray(w, float)
    Pm = (su.A @ v + su.b).reshape(su.S, su.m)
    t, a = _kl_terms(Q, Pm)
    return float((ws * t.sum(axis=1)).sum()), float((np.abs(ws) * a.sum(axis=1)).sum())


def re_grad(su, Q, w, v):
    ws = np.ones(su.S) if w is None else np.asarray(w, float)
    Pm = (su.A @ v + su.b).reshape(su.S, su.m)
    c = ws[:, None] * Q / Pm
    g = -np.einsum("sxa,sx->a", su.A3, c)
    sc = np.einsum("sxa,sx->a", np.abs(su.A3), np.abs(c)).max()
    return g, sc


def re_hess(su, Q, w, v):
    ws = np.ones(su.S) if w is None else np.asarray(w, float)
    Pm = (su.A @ v + su.b).reshape(su.S, su.m)
    c = ws[:, None] * Q / Pm ** 2
    H = np.einsum("sxa,sx,sxb->ab", su.A3, c, su.A3)
    sc = np.einsum("sxa,sx,sxb->ab", np.abs(su.A3), np.abs(c), np.abs(su.A3)).max()
    return H, sc


def richardson(f, v, h):
    """Richardson-extrapolated central differences of f along every coordinate (O(h^4)); f may be vector valued.
    returns array with the derivative index LAST"""
    v = np.asarray(v, float)
    cols = []
    for i in range(len(v)):
        e = np.zeros(len(v))
        e[i] = 1.0
        d1 = (np.asarray(f(v + h * e)) - np.asarray(f(v - h * e))) / (2 * h)
        d2 = (np.asarray(f(v + h / 2 * e)) - np.asarray(f(v - h / 2 * e))) / h
        cols.append((4 * d2 - d1) / 3)
    return np.stack(cols, axis=-1)


# ------------------------------------------------------------------ inverse covariance: Pearson judgement

def reduced_cov_unit(q):
    """(diag q - q q^T) without its last row/column"""
    q = np.asarray(q, float)
    C = np.diag(q) - np.outer(q, q)
    return C[:-1, :-1]


def restricted_inverse(W):
    """W restricted to the sum-zero subspace in the basis b_i = e_i - e_last, then inverted.
    For any generalised inverse W of a multinomial covariance C the result is C without its last row/column
    (Pearson: r^T W r = n sum r_i^2/q_i for sum-zero r).  returns None when singular."""
    W = np.asarray(W, float)
    m = W.shape[0]
    Bm = np.vstack([np.eye(m - 1), -np.ones((1, m - 1))])
    WB = Bm.T @ W @ Bm
    if not np.all(np.isfinite(WB)):
        return None
    try:
        if np.linalg.cond(WB) > 1e12:
            return None
        return np.linalg.inv(WB)
    except np.linalg.LinAlgError:
        return None


def pearson_defect(W, q, n, nprime):
    """max |inv(W restricted) - C_red/nprime| and the allowed regulariser size 2 n^-3/2"""
    Wi = restricted_inverse(W)
    if Wi is None:
        return float("inf"), 2.0 * n ** -1.5, None
    C = reduced_cov_unit(q) / nprime
    return float(np.abs(Wi - C).max()), 2.0 * n ** -1.5 + 1e-9 * float(np.abs(Wi).max()), Wi


# ------------------------------------------------------------------ smooth non-affine model (generic losses only)

class NLModel:
    """p_{s,x}(v) = c_sx + a_sx.v + v.H_sx.v/2 with fixed generic coefficients; positive on |v|_inf <= 0.5"""

    def __init__(self, S, m, n, seed):
        a = np.array(R.angles(seed, S * m * (1 + n + n * n), salt=5))
        k = 0
        self.S, self.m, self.n = S, m, n
        self.c = 1.0 / m + 0.05 * np.cos(2 * a[k:k + S * m]).reshape(S, m)
        k += S * m
        self.a = 0.12 * np.cos(3 * a[k:k + S * m * n] + 1).reshape(S, m, n)
        k += S * m * n
        G = 0.1 * np.sin(5 * a[k:k + S * m * n * n] + 2).reshape(S, m, n, n)
        self.H = (G + G.transpose(0, 1, 3, 2)) / 2

    def p(self, v):
        return self.c + self.a @ v + 0.5 * np.einsum("sxab,a,b->sx", self.H, v, v)

    def J(self, v):
        return self.a + np.einsum("sxab,b->sxa", self.H, v)

    def funcs(self):
        fp = [(lambda v, s=s: np.array(self.p(v)[s], dtype=np.float64)) for s in range(self.S)]
        fg = [(lambda al, v, s=s: np.array(self.J(v)[s][:, al], dtype=np.float64)) for s in range(self.S)]
        fh = [(lambda al, be, v, s=s: np.array(self.H[s][:, al, be], dtype=np.float64)) for s in range(self.S)]
        return fp, fg, fh

    # closed forms by the chain rule
    def se(self, Q, W, v):
        Wst = np.array([np.eye(self.m)] * self.S) if W is None else np.array(W)
        r = self.p(v) - Q
        J = self.J(v)
        val = np.einsum("sx,sxy,sy->", r, Wst, r)
        g = 2 * np.einsum("sxa,sxy,sy->a", J, Wst, r)
        Wr = np.einsum("sxy,sy->sx", Wst, r)
        Hs = 2 * (np.einsum("sxa,sxy,syb->ab", J, Wst, J) + np.einsum("sx,sxab->ab", Wr, self.H))
        second = 2 * np.einsum("sx,sxab->ab", Wr, self.H)
        sc = np.einsum("sx,sxy,sy->", np.abs(r), np.abs(Wst), np.abs(r))
        return val, g, Hs, second, max(sc, 1e-3)

    def re(self, Q, w, v):
        ws = np.ones(self.S) if w is None else np.asarray(w, float)
        P = self.p(v)
        J = self.J(v)
        t, a = _kl_terms(Q, P)
        val = float((ws * t.sum(axis=1)).sum())
        c1 = ws[:, None] * Q / P
        c2 = ws[:, None] * Q / P ** 2
        g = -np.einsum("sxa,sx->a", J, c1)
        second = -np.einsum("sx,sxab->ab", c1, self.H)
        Hs = np.einsum("sxa,sx,sxb->ab", J, c2, J) + second
        return val, g, Hs, second, max(float((np.abs(ws) * a.sum(axis=1)).sum()), 1e-3)
