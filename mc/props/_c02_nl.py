"""C02 non-linear conversions (Kraus), truncate_hs ladder, lazy-table state machine of CompositeSystem."""
import copy

import numpy as np

from mc import alphabet as A, refmodel as R
from mc.core import Out, inner
from mc.props import _c02_ref as F
from mc.props._c02_common import system, check, note, dense, Dig
from mc.props._c02_gate import kraus_action_check

NONCP = ("noncp:transpose", "noncp:neg_unitary", "noncp:id_minus_unitary")


def kraus_names(d, seed):
    names = sorted(A.gates_ref(d, seed))
    names += ["half:" + k for k in ("unitary_generic", "ampdamp")]
    ins = A.instruments_ref(d, seed)
    for k in sorted(ins):
        names += ["inst:%s:%d" % (k, x) for x in range(len(ins[k]))]
    # a unitary channel with a WEAK admixture of a second channel: Choi eigenvalues of size p far above rounding, far below 1
    names += ["weak:%s" % e for e in ("1e-06", "1e-09", "1e-11")]
    names += list(NONCP)
    return names


def ex_kraus(p, seed):
    from quara.objects import gate as G
    from quara.objects.gate import Gate
    out = Out()
    dg = Dig()
    s = system(p["sys"], seed)
    c, ref, d, n, tag = s.c, s.ref, s.d, s.n, s.tag
    name = p["name"]
    det = "sys=%s map=%s" % (tag, name)
    gates = A.gates_ref(d, seed)
    if name.startswith("noncp:"):
        U = gates["unitary_generic"][0]
        if name == "noncp:transpose":
            hs = np.array([ref.coef(ref.B[b].T) for b in range(n)]).T
        elif name == "noncp:neg_unitary":
            hs = -ref.hs_from_kraus([U])
        else:
            hs = 1.5 * np.eye(n) - 0.5 * ref.hs_from_kraus([U])
        assert np.abs(hs.imag).max() < 1e-12
        hs = np.ascontiguousarray(hs.real)
        emin = R.min_eig(ref.choi(hs))
        assert emin < -1e-3
        out.ops += 1
        ok, ks = A.call(G.to_kraus_matrices_from_hs, c, hs)
        if not ok:
            out.fail("to_kraus_matrices_from_hs:raises-%s:%s:non-cp" % (type(ks).__name__, tag), det + " | " + A.fmt_exc(ks))
        elif len(ks) != 0:
            out.fail("to_kraus_matrices_from_hs:nonempty-for-non-cp:%s" % tag, det + " | %d Kraus operators for a map whose Choi matrix has eigenvalue %.3g" % (len(ks), emin))
        else:
            out.count("kraus_noncp_empty")
        out.outcome = "noncp"
        return out
    tol_action = 1e-9
    if name.startswith("weak:"):
        pw = float(name[5:])
        ks = [np.sqrt(1 - pw) * K for K in gates["unitary_generic"]] + [np.sqrt(pw) * K for K in gates["ampdamp"]]
        tol_action = 1e-13
        out.count("kraus_weak_admixture")
    elif name.startswith("half:"):
        ks = [np.sqrt(0.5) * K for K in gates[name[5:]]]
    elif name.startswith("inst:"):
        _, k, x = name.split(":")
        ks = A.instruments_ref(d, seed)[k][int(x)]
    else:
        ks = gates[name]
    ks = [np.asarray(K, dtype=np.complex128) for K in ks]
    hs_c = ref.hs_from_kraus(ks)
    assert np.abs(hs_c.imag).max() < 1e-11
    hs = np.ascontiguousarray(hs_c.real)
    C = ref.choi(hs)
    note(out, C)
    ev = np.linalg.eigvalsh((C + C.conj().T) / 2)
    rank = int((ev > 1e-9).sum())
    unital = np.abs(R.kraus_apply(ks, np.eye(d)) - np.eye(d) * np.trace(R.kraus_apply(ks, np.eye(d))) / d).max() < 1e-9
    out.count("kraus_rank1" if rank == 1 else "kraus_rank_full" if rank == n else "kraus_rank_mid")
    if not unital:
        out.count("kraus_nonunital")
    if any(np.abs(K.imag).max() > 1e-6 for K in ks):
        out.count("kraus_complex")

    # Kraus -> HS: defining formula, and gauge freedom K'_i = sum_j V_ij K_j
    g = check(out, "to_hs_from_kraus_matrices", "formula", tag, A.call(G.to_hs_from_kraus_matrices, c, ks), hs, det)
    dg.add(g)
    if len(ks) >= 2:
        V = F.gen_unitary(len(ks), seed, 13)
        ks2 = [sum(V[i, j] * ks[j] for j in range(len(ks))) for i in range(len(ks))]
        check(out, "to_hs_from_kraus_matrices", "formula", tag + ":remixed-kraus", A.call(G.to_hs_from_kraus_matrices, c, ks2), hs, det)
        out.count("kraus_gauge")
    # HS -> Kraus: action on every matrix unit, then back
    out.ops += 1
    ok, kl = A.call(G.to_kraus_matrices_from_hs, c, hs)
    if not ok:
        out.fail("to_kraus_matrices_from_hs:raises-%s:%s" % (type(kl).__name__, tag), det + " | " + A.fmt_exc(kl))
    elif len(kl) == 0:
        # CP verdict at the default atol 1e-13: only asserted when the rounding noise of the Choi spectrum is below atol/10
        if ev.min() >= -1e-14:
            out.fail("to_kraus_matrices_from_hs:empty-for-cp:%s" % tag, det + " | no Kraus operators for a CP map (min Choi eigenvalue %.3g)" % ev.min())
        else:
            out.count("kraus_in_band")
    else:
        kk = kraus_action_check(out, "to_kraus_matrices_from_hs", tag + (":weak-admixture" if name.startswith("weak:") else ""), kl, ks, d, det, tol_action)
        if kk is not None:
            if len(kk) != rank:
                out.count("kraus_count_differs_from_rank")
            check(out, "to_hs_from_kraus_matrices", "roundtrip(to_kraus_matrices_from_hs)", tag, A.call(G.to_hs_from_kraus_matrices, c, kk), hs, det)
    gate = Gate(c, hs.copy(), is_physicality_required=False)
    out.ops += 1
    ok, kl = A.call(gate.to_kraus_matrices)
    if not ok:
        out.fail("Gate.to_kraus_matrices:raises-%s:%s" % (type(kl).__name__, tag), det + " | " + A.fmt_exc(kl))
    elif len(kl) == 0:
        # Gate.to_kraus_matrices uses eps_proj_physical (atol/10) as its CP tolerance: only asserted outside the band
        if ev.min() >= -1e-15:
            out.fail("Gate.to_kraus_matrices:empty-for-cp:%s" % tag, det + " | min Choi eigenvalue %.3g" % ev.min())
        else:
            out.count("gate_kraus_in_band")
    else:
        kraus_action_check(out, "Gate.to_kraus_matrices", tag + (":weak-admixture" if name.startswith("weak:") else ""), kl, ks, d, det, tol_action)
    out.digest = dg.hex()
    out.outcome = "rank=%d" % rank if not out.fails else "fail"
    return out


# ------------------------------------------------------------------------------------------ truncate_hs

def ex_truncate(p, seed):
    from quara.utils import matrix_util as mutil
    from quara.settings import Settings
    out = Out()
    eps_arg = p["eps"]
    atol0 = Settings.get_atol()
    if p["atol"] is not None:
        Settings.set_atol(p["atol"])
    try:
        eps = eps_arg if eps_arg is not None else (p["atol"] if p["atol"] is not None else atol0)
        cfg = "eps=%s:atol=%s" % ("default" if eps_arg is None else "given", "default" if p["atol"] is None else "changed")
        cnt = 0
        for shape in ((4,), (4, 4), (9, 9)):
            base = F.gen_real(shape, seed, 80) + 2.0       # entries well away from zero
            size = int(np.prod(shape))
            positions = range(size) if size <= 16 else (0, 7, size - 1)
            for pos in positions:
                for f in (0.0, 1e-3, 0.1, 10.0, 1e3, 1e9):
                    for sign in (1.0, -1.0):
                        if f == 0.0 and sign < 0:
                            continue
                        cnt += 1
                        x = base.astype(np.complex128)
                        x.reshape(-1)[pos] += 1j * sign * f * eps
                        det = "shape=%r imag=%g*eps at %d eps=%r" % (shape, sign * f, pos, eps)
                        for required in (True, False):
                            out.ops += 1
                            ok, v = A.call(mutil.truncate_hs, x.copy(), eps_arg, required)
                            c2 = "%s:required=%s" % (cfg, required)
                            if f <= 0.1:
                                if not ok:
                                    out.fail("truncate_hs:raises-below-threshold:%s" % c2, det + " | " + A.fmt_exc(v))
                                    continue
                                v = dense(v)
                                if required and v.dtype != np.float64:
                                    out.fail("truncate_hs:dtype:%s" % c2, det + " | dtype %s" % v.dtype)
                                if v.shape != x.shape or np.abs(v - base).max() > eps:
                                    out.fail("truncate_hs:value-below-threshold:%s" % c2, det + " | deviates from the real part by %.3e" % np.abs(v - base).max())
                                out.count("trunc_kept_real")
                            else:
                                if required:
                                    if ok or not isinstance(v, ValueError):
                                        out.fail("truncate_hs:no-raise-above-threshold:%s" % c2, det + " | returned %r" % (v,))
                                    else:
                                        out.count("trunc_raised")
                                else:
                                    if not ok:
                                        out.fail("truncate_hs:raises-not-required:%s" % c2, det + " | " + A.fmt_exc(v))
                                    elif dense(v).shape != x.shape or np.abs(dense(v) - x).max() > eps:
                                        out.fail("truncate_hs:value-not-required:%s" % c2, det)
                                    else:
                                        out.count("trunc_complex_kept")
                # computational fluctuation of the real part
                for f in (0.0, 1e-3, 0.1, 10.0, 1e3):
                    for sign in (1.0, -1.0):
                        cnt += 1
                        x = base.copy()
                        x.reshape(-1)[pos] = sign * f * eps
                        out.ops += 1
                        ok, v = A.call(mutil.truncate_hs, x.copy(), eps_arg)
                        det = "shape=%r real entry %g*eps at %d eps=%r" % (shape, sign * f, pos, eps)
                        if not ok:
                            out.fail("truncate_hs:raises-real-input:%s" % cfg, det + " | " + A.fmt_exc(v))
                            continue
                        v = dense(v)
                        got = v.reshape(-1)[pos]
                        if f <= 0.1:
                            if got != 0.0:
                                out.fail("truncate_hs:fluctuation-kept:%s" % cfg, det + " | got %r" % got)
                            out.count("trunc_fluct_zeroed")
                        else:
                            if got != sign * f * eps:
                                out.fail("truncate_hs:fluctuation-removed:%s" % cfg, det + " | got %r" % got)
                            out.count("trunc_fluct_kept")
                        y = x.copy()
                        y.reshape(-1)[pos] = v.reshape(-1)[pos]
                        if np.abs(v - y).max() != 0.0:
                            out.fail("truncate_hs:other-entries-changed:%s" % cfg, det)
        # two imaginary entries, one below and one above the threshold
        x = (F.gen_real((4, 4), seed, 81) + 2.0).astype(np.complex128)
        x[0, 1] += 0.1j * eps
        x[2, 3] -= 10j * eps
        out.ops += 1
        ok, v = A.call(mutil.truncate_hs, x, eps_arg)
        if ok or not isinstance(v, ValueError):
            out.fail("truncate_hs:no-raise-above-threshold:%s:mixed" % cfg, "entries 0.1 eps and -10 eps")
        inner(out, cnt)
    finally:
        Settings.set_atol(atol0)
    out.outcome = "ok" if not out.fails else "fail"
    return out


def ex_truncate_through(p, seed):
    """the same ladder seen through the conversions that end in truncate_hs"""
    from quara.objects import gate as G, state as S, povm as P
    out = Out()
    s = system(p["sys"], seed)
    c, ref, d, n, tag = s.c, s.ref, s.d, s.n, s.tag
    eps_arg = p["eps"]
    eps = 1e-13 if eps_arg is None else eps_arg
    cfg = "%s:eps=%s" % (tag, "default" if eps_arg is None else "given")
    C0 = F.gen_herm(n, seed, 90)
    H0 = F.gen_herm(d, seed, 91)
    a, b = 1, min(2, n - 1)
    K = np.kron(ref.B[a], ref.B[b].conj())       # Hermitian, HS-from-Choi of K is the matrix unit e_ab
    hs0 = ref.hs_from_choi(C0).real
    v0 = ref.coef(H0).real
    cnt = 0
    for f in (0.0, 0.1, -0.1, 10.0, -10.0, 1e6):
        cnt += 1
        delta = f * eps
        det = "sys=%s imaginary part %g*eps (eps=%r)" % (tag, f, eps)
        calls = [("to_hs_from_choi_with_sparsity", lambda: G.to_hs_from_choi_with_sparsity(c, C0 + 1j * delta * K, eps_arg), hs0),
                 ("to_hs_from_choi_with_dict", lambda: G.to_hs_from_choi_with_dict(c, C0 + 1j * delta * K, eps_arg), hs0),
                 ("to_vec_from_density_matrix_with_sparsity", lambda: S.to_vec_from_density_matrix_with_sparsity(c, H0 + 1j * delta * ref.B[a], eps_arg), v0),
                 ("to_vec_from_matrix_with_sparsity", lambda: P.to_vec_from_matrix_with_sparsity(c, H0 + 1j * delta * ref.B[a], eps_arg), v0)]
        for site, fn, want in calls:
            okval = A.call(fn)
            if abs(f) <= 0.1:
                check(out, site, "formula", cfg + ":imag-below-threshold", okval, want, det)
                out.count("through_below")
            else:
                out.ops += 1
                if okval[0] or not isinstance(okval[1], ValueError):
                    out.fail("%s:no-raise-above-threshold:%s" % (site, cfg), det + " | returned %r" % (okval[1],))
                else:
                    out.count("through_raised")
    inner(out, cnt - 1)
    out.outcome = "ok" if not out.fails else "fail"
    return out


# ------------------------------------------------------------------------------------------ lazy tables

USES = ("dense_fwd", "dense_inv", "dict_fwd", "dict_inv", "sp_fwd", "sp_inv", "b_T", "b_conj")
DELS = {"dict_fwd": "delete_dict_from_hs_to_choi", "dict_inv": "delete_dict_from_choi_to_hs",
        "sp_fwd": "delete_basis_basisconjugate_T_sparse", "sp_inv": "delete_basisconjugate_basis_sparse",
        "b_T": "delete_basis_T_sparse", "b_conj": "delete_basisconjugate_sparse"}
# abstract model: which tables a use creates (the sparse pairs are computed together)
CREATES = {"dense_fwd": ("bbc",), "dense_inv": ("bbc",), "dict_fwd": ("dict_fwd",), "dict_inv": ("dict_inv",),
           "sp_fwd": ("sp_fwd", "sp_inv", "sp_from1", "sp_herm"), "sp_inv": ("sp_fwd", "sp_inv", "sp_from1", "sp_herm"),
           "b_T": ("b_T", "b_conj"), "b_conj": ("b_T", "b_conj")}


def ex_cache(p, seed):
    """BFS over the presence/absence states of CompositeSystem's lazy tables; every conversion is checked in every state"""
    from quara.objects import gate as G, state as S
    out = Out()
    s = system(p["sys"], seed, fresh=True)
    ref, n, d, tag = s.ref, s.n, s.d, s.tag
    hs = F.gen_real((n, n), seed, 95)
    C = ref.choi(hs)
    vec = F.gen_real((n,), seed, 96)
    rho = ref.mat(vec)

    def use(c, u):
        if u == "dense_fwd":
            return G.to_choi_from_hs(c, hs), C
        if u == "dense_inv":
            return G.to_hs_from_choi(c, C), hs
        if u == "dict_fwd":
            return G.to_choi_from_hs_with_dict(c, hs), C
        if u == "dict_inv":
            return G.to_hs_from_choi_with_dict(c, C), hs
        if u == "sp_fwd":
            return G.to_choi_from_hs_with_sparsity(c, hs), C
        if u == "sp_inv":
            return G.to_hs_from_choi_with_sparsity(c, C), hs
        if u == "b_T":
            return S.to_density_matrix_from_vec(c, vec), rho
        return S.to_vec_from_density_matrix_with_sparsity(c, rho), vec

    actions = [("use", u) for u in USES] + [("del", u) for u in DELS]
    start = frozenset()
    snaps = {start: s.c}
    frontier = [start]
    depth = 0
    while frontier and depth < p["depth"]:
        nxt = []
        for st in frontier:
            for kind, u in actions:
                c = copy.deepcopy(snaps[st])
                out.transitions += 1
                if kind == "use":
                    want = None
                    ok, val = A.call(use, c, u)
                    if ok:
                        val, want = val
                    check(out, "lazy-tables:" + u, "formula", "%s:after-%s" % (tag, "delete" if st_has_deleted(st) else "fresh"), (ok, val), want if ok else np.zeros(1),
                          "sys=%s tables present=%r then %s" % (tag, sorted(x for x in st if not x.startswith("~")), u))
                    new = frozenset(x for x in st if x.lstrip("~") not in CREATES[u]) | frozenset(CREATES[u])
                    if st_has_deleted(st) and any(("~" + t) in st for t in CREATES[u]):
                        out.count("cache_recomputed_after_delete")
                else:
                    ok, val = A.call(getattr(c, DELS[u]))
                    out.ops += 1
                    if not ok:
                        out.fail("lazy-tables:%s:raises-%s:%s" % (DELS[u], type(val).__name__, tag), A.fmt_exc(val))
                        continue
                    if u in st:
                        new = frozenset(x for x in st if x != u) | frozenset(["~" + u])
                    else:
                        new = st
                if new not in snaps:
                    snaps[new] = c
                    nxt.append(new)
        frontier = nxt
        depth += 1
    out.states = len(snaps)
    out.info["cache_fixpoint"] = 0 if frontier else 1
    out.outcome = "states=%d" % len(snaps)
    return out


def st_has_deleted(st):
    return any(x.startswith("~") for x in st)
