"""C10 helpers: tester sets, tomography objects, the enumerated data space, reference-side true objects / Born
probabilities / origin objects, and drivers for the estimators.  The reference side uses only numpy and
mc.refmodel / mc.frames; quara objects are built through public constructors."""
import contextlib
import io
import itertools
import math

import numpy as np

from mc import alphabet as A, refmodel as R
from mc.core import HarnessError
from mc.frames import frame

# ---------------------------------------------------------------- testers (reference data)


def tester_povms_ref(d):
    """informationally complete sets of projective measurements"""
    if d == 2:
        X = np.array([[0, 1], [1, 0]], complex)
        Y = np.array([[0, -1j], [1j, 0]])
        Z = np.diag([1, -1]).astype(complex)
        return [[(np.eye(2) + P) / 2, (np.eye(2) - P) / 2] for P in (X, Y, Z)]
    if d == 3:
        w = np.exp(2j * math.pi / 3)
        Fm = R.fourier_unitary(3)
        bases = [np.eye(3, dtype=complex), Fm, np.diag([1, w, w]) @ Fm, np.diag([1, w * w, w * w]) @ Fm]
        return [[np.outer(U[:, k], U[:, k].conj()) for k in range(3)] for U in bases]
    if d == 4:
        one = tester_povms_ref(2)
        return [[np.kron(a, b) for a in P for b in Q] for P in one for Q in one]
    raise ValueError(d)


def tester_states_ref(d):
    """d^2 pure states spanning the operator space"""
    if d == 4:
        one = tester_states_ref(2)
        return [np.kron(a, b) for a in one for b in one]
    vs = []
    for k in range(d):
        e = np.zeros(d, complex)
        e[k] = 1
        vs.append(e)
    for j in range(d):
        for k in range(j + 1, d):
            e = np.zeros(d, complex)
            e[j] = 1
            e[k] = 1
            vs.append(e / math.sqrt(2))
            e = np.zeros(d, complex)
            e[j] = 1
            e[k] = 1j
            vs.append(e / math.sqrt(2))
    return [np.outer(v, v.conj()) for v in vs]


KIND_OF = {"state": "qst", "povm": "povmt", "gate": "qpt", "mprocess": "qmpt"}
_QT = {}


class Tomo:
    """a tomography object plus what the reference side reads from it as data"""

    def __init__(self, kind, systag, m, flag, epsp):
        from quara.protocol.qtomography.standard.standard_qst import StandardQst
        from quara.protocol.qtomography.standard.standard_povmt import StandardPovmt
        from quara.protocol.qtomography.standard.standard_qpt import StandardQpt
        from quara.protocol.qtomography.standard.standard_qmpt import StandardQmpt
        c = A.make_system(systag)
        d = A.dim_of(systag)
        self.kind, self.systag, self.m, self.flag, self.d = kind, systag, m, flag, d
        self.F = frame(kind, systag, m)
        self.povms_ref = tester_povms_ref(d)
        self.states_ref = tester_states_ref(d)
        kw = dict(on_para_eq_constraint=flag, schedules="all")
        if isinstance(epsp, str) and epsp.startswith("trunc:"):
            # only the OTHER tolerance is passed: the projection threshold stays the documented default
            kw["eps_truncate_imaginary_part"] = float(epsp[6:])
            epsp = None
        if epsp is not None:
            kw["eps_proj_physical"] = epsp
        self.epsp = 1e-14 if epsp is None else epsp     # Settings.get_atol() / 10 is the documented default
        if kind == "state":
            self.qt = StandardQst([A.q_povm(c, Ms) for Ms in self.povms_ref], **kw)
            self.grid = (1, len(self.povms_ref))
        elif kind == "povm":
            self.qt = StandardPovmt([A.q_state(c, r) for r in self.states_ref], m, **kw)
            self.grid = (len(self.states_ref), 1)
        elif kind == "gate":
            self.qt = StandardQpt([A.q_state(c, r) for r in self.states_ref], [A.q_povm(c, Ms) for Ms in self.povms_ref], **kw)
            self.grid = (len(self.states_ref), len(self.povms_ref))
        else:
            self.qt = StandardQmpt([A.q_state(c, r) for r in self.states_ref], [A.q_povm(c, Ms) for Ms in self.povms_ref], m, **kw)
            self.grid = (len(self.states_ref), len(self.povms_ref))
        self.A = np.array(self.qt.calc_matA(), dtype=float)
        self.b = np.array(self.qt.calc_vecB(), dtype=float).ravel()
        self.ns = int(self.qt.num_schedules)
        if self.ns != self.grid[0] * self.grid[1] or self.A.shape[0] % self.ns:
            raise HarnessError("unexpected schedule layout")
        self.no = self.A.shape[0] // self.ns
        if self.A.shape[1] != self.F.num_var(flag):
            raise HarnessError("matA has %d columns, the reference parametrisation %d variables" % (self.A.shape[1], self.F.num_var(flag)))


def tomo(kind, systag, m, flag, epsp=None):
    key = (kind, systag, m, bool(flag), epsp)
    if key not in _QT:
        _QT[key] = Tomo(kind, systag, m, bool(flag), epsp)
    return _QT[key]


def schedule_shape(kind, systag, m):
    """(number of schedules, outcomes per schedule, group size for the structured tables) without building quara objects"""
    d = A.dim_of(systag)
    npov = {2: 3, 3: 4, 4: 9}[d]
    nst = d * d
    per = {2: 2, 3: 3, 4: 4}[d]
    g = min(npov, 4)
    if kind == "state":
        return npov, per, g
    if kind == "povm":
        return nst, m, d
    if kind == "gate":
        return nst * npov, per, g
    return nst * npov, per * m, g


# ---------------------------------------------------------------- reference objects


def true_objects(kind, systag, m, seed):
    """ordered dict name -> (native reference form, stacked vector)"""
    d = A.dim_of(systag)
    F = frame(kind, systag, m)
    out = {}
    if kind == "state":
        for n, rho in A.states_ref(d, seed).items():
            out[n] = (rho, F.from_blocks([rho]))
    elif kind == "povm":
        for n, Ms in A.povms_ref(d, seed, ms=(m,)).items():
            if len(Ms) == m:
                out[n] = (Ms, F.from_blocks(Ms))
    elif kind == "gate":
        for n, ks in A.gates_ref(d, seed).items():
            if n in ("identity", "unitary_generic", "ampdamp", "kraus_generic_r2", "depolarizing", "dephasing"):
                out[n] = (ks, F.from_blocks([R.choi_from_action(lambda X, ks=ks: R.kraus_apply(ks, X), d)]))
    else:
        for n, inst in A.instruments_ref(d, seed, ms=(m,)).items():
            if len(inst) == m:
                out[n] = (inst, F.from_blocks([R.choi_from_action(lambda X, ks=ks: R.kraus_apply(ks, X), d) for ks in inst]))
    return out


def born(T, native):
    """exact distributions of a reference object, one array per schedule in the order of schedules='all'"""
    ps = []
    if T.kind == "state":
        for Ms in T.povms_ref:
            ps.append(R.born(Ms, native))
    elif T.kind == "povm":
        for rho in T.states_ref:
            ps.append(R.born(native, rho))
    elif T.kind == "gate":
        for rho in T.states_ref:
            r2 = R.kraus_apply(native, rho)
            for Ms in T.povms_ref:
                ps.append(R.born(Ms, r2))
    else:
        for rho in T.states_ref:
            posts = [R.kraus_apply(ks, rho) for ks in native]
            for Ms in T.povms_ref:
                ps.append(np.array([np.trace(M @ r).real for r in posts for M in Ms]))
    out = []
    for p in ps:
        p = np.clip(np.array(p, dtype=np.float64), 0.0, None)      # rounding of order 1e-17 below zero: a distribution is non-negative
        if abs(p.sum() - 1.0) > 1e-9:
            raise HarnessError("reference Born distribution does not sum to one")
        out.append(p / p.sum())
    return out


def origin_stacked(F):
    """the origin object of each type: maximally mixed state, I/m, completely depolarising channel, its m-th part"""
    d = F.d
    if F.kind == "state":
        return F.from_blocks([np.eye(d) / d])
    if F.kind == "povm":
        return F.from_blocks([np.eye(d) / F.m] * F.m)
    if F.kind == "gate":
        return F.from_blocks([np.eye(d * d) / d])
    return F.from_blocks([np.eye(d * d) / (d * F.m)] * F.m)


# ---------------------------------------------------------------- the data space

_COMP = {}


def comps(N, no):
    if (N, no) not in _COMP:
        _COMP[(N, no)] = list(R.compositions(N, no))
    return _COMP[(N, no)]


def ntab(ns, no, N):
    return len(comps(N, no)) ** ns


def table(ns, no, N, index):
    """index-th count table (mixed radix over the compositions of N into `no` parts, schedule 0 = most significant)"""
    cs = comps(N, no)
    base = len(cs)
    digits = []
    for _ in range(ns):
        digits.append(index % base)
        index //= base
    digits.reverse()
    return [np.array(cs[k], dtype=np.float64) / N for k in digits]


def nstruct(ns, no, g, tmax, cmax):
    return min(no, cmax) * min(no, tmax) ** g


def struct_table(ns, no, g, tmax, cmax, index):
    """one-shot tables with outcome x(s) = (t[s % g] + c * (s // g)) % no"""
    tb = min(no, tmax)
    c = index // (tb ** g)
    r = index % (tb ** g)
    t = []
    for _ in range(g):
        t.append(r % tb)
        r //= tb
    t.reverse()
    out = []
    for s in range(ns):
        p = np.zeros(no)
        p[(t[s % g] + c * (s // g)) % no] = 1.0
        out.append(p)
    return out, c, t


FAR_NEGATIVE = ("negative", "negative_big", "alternating")
FAR = ("zeros", "ones", "scaled10", "negative", "negative_big", "alternating", "one_schedule_off", "uniform_double")


def far_vector(name, ns, no):
    """data that no experiment produces (the estimators are linear algebra + optimisation and must still answer)"""
    out = []
    for s in range(ns):
        p = np.zeros(no)
        if name == "zeros":
            pass
        elif name == "ones":
            p[:] = 1.0
        elif name == "scaled10":
            p[s % no] = 10.0
        elif name == "negative":
            p[s % no] = 2.0
            p[(s + 1) % no] += -1.0
        elif name == "negative_big":
            p[0] = -5.0
            p[no - 1] += 6.0
        elif name == "alternating":
            p[:] = [3.0 if (k + s) % 2 == 0 else -2.5 for k in range(no)]
        elif name == "one_schedule_off":
            p[:] = 1.0 / no
            if s == 0:
                p[0] += 5.0
        elif name == "uniform_double":
            p[:] = 2.0 / no
        else:
            raise ValueError(name)
        out.append(p)
    return out


def expand(T, chunk, seed):
    """chunk spec -> list of (name, data class, [p per schedule], N, true stacked vector or None)"""
    t = chunk["t"]
    out = []
    if t == "tab":
        N = chunk["N"]
        for i in range(chunk["lo"], chunk["hi"]):
            out.append(("tab:N=%d:%d" % (N, i), "fewshot", table(T.ns, T.no, N, i), N, None))
    elif t == "st":
        g = schedule_shape(T.kind, T.systag, T.m)[2]
        for i in range(chunk["lo"], chunk["hi"]):
            ps, c, tt = struct_table(T.ns, T.no, g, chunk["tmax"], chunk["cmax"], i)
            out.append(("st:c=%d:t=%s" % (c, "".join(map(str, tt))), "fewshot", ps, 1, None))
    elif t == "exact":
        objs = true_objects(T.kind, T.systag, T.m, seed)
        for n in (chunk.get("names") or list(objs)):
            native, x = objs[n]
            out.append(("exact:" + n, "exact", born(T, native), 1000, x))
    elif t == "far":
        for n in (chunk.get("names") or FAR):
            out.append(("far:" + n, "improper", far_vector(n, T.ns, T.no), 100, None))
    else:
        raise ValueError(t)
    return out


def chunk_size(chunk, T=None):
    t = chunk["t"]
    if t in ("tab", "st"):
        return chunk["hi"] - chunk["lo"]
    if t == "far":
        return len(chunk.get("names") or FAR)
    return len(chunk["names"]) if chunk.get("names") else 6


# ---------------------------------------------------------------- estimator drivers

OPTSETS = ("default", "default100", "var", "absloss2", "projgrad", "tuned", "start", "start_plain", "eq_only", "ineq_only")


def algo_option(algo, optset, order, T, seed):
    """returns (algorithm object, option object, dict with what the reference side needs to know)"""
    from quara.minimization_algorithm.projected_gradient_descent_backtracking import (
        ProjectedGradientDescentBacktracking as PGDB, ProjectedGradientDescentBacktrackingOption as PGDBO)
    from quara.minimization_algorithm.projected_gradient_descent_with_momentum import (
        ProjectedGradientDescentWithMomentum as PGDM, ProjectedGradientDescentWithMomentumOption as PGDMO)
    from quara.minimization_algorithm.projected_fast_iterative_shrinkage_thresholding_algorithm import (
        ProjectedFastIterativeShrinkageThresholdingAlgorithm as FISTA, ProjectedFastIterativeShrinkageThresholdingAlgorithmOption as FISTAO)
    cls, ocls = {"pgdb": (PGDB, PGDBO), "pgdm": (PGDM, PGDMO), "fista": (FISTA, FISTAO)}[algo]
    kw = {"mode_proj_order": order}
    info = {"eps": 1e-14, "eq": True, "ineq": True, "capped": False, "start": None}
    if optset == "default":
        pass
    elif optset == "default100":
        kw.update(max_iteration_optimization=100)      # momentum oscillates for a long time on some data: bound the cost of the bulk runs
    elif optset == "var":
        kw.update(mode_stopping_criterion_gradient_descent="sum_absolute_difference_variable", eps=1e-9)
        if algo != "pgdb":
            kw.update(max_iteration_optimization=60)      # momentum / FISTA rarely meet this criterion: bound the cost
        info["eps"] = 1e-9
    elif optset == "absloss2":
        kw.update(mode_stopping_criterion_gradient_descent="sum_absolute_difference_loss", num_history_stopping_criterion_gradient_descent=2, eps=1e-12)
        if algo != "pgdb":
            kw.update(max_iteration_optimization=60)
        info["eps"] = 1e-12
    elif optset == "projgrad":
        # for momentum / FISTA this criterion is the norm of the iterate, which never becomes small: the run ends at the cap
        kw.update(mode_stopping_criterion_gradient_descent="sum_absolute_difference_projected_gradient", eps=1e-6,
                  max_iteration_optimization=200 if algo == "pgdb" else 25)
        info["eps"] = 1e-6
        info["capped"] = algo != "pgdb"
    elif optset == "tuned":
        kw.update(eps=1e-12, max_iteration_proj_physical=5000, num_history_stopping_criterion_gradient_descent=3)
        kw.update({"pgdb": {"mu": 0.7, "gamma": 0.1}, "pgdm": {"r": 1.0}, "fista": {"delta": 0.05}}[algo])
        info["eps"] = 1e-12
    elif optset in ("start", "start_plain"):
        objs = true_objects(T.kind, T.systag, T.m, seed)
        x = objs[list(objs)[1]][1]          # a physical boundary object of the alphabet
        v = T.F.var_from_stacked(x, T.flag)
        kw.update(var_start=v.copy())
        info["start"] = x
    elif optset == "eq_only":
        kw.update(on_algo_ineq_constraint=False, max_iteration_optimization=40)
        info["ineq"] = False
    elif optset == "ineq_only":
        kw.update(on_algo_eq_constraint=False, max_iteration_optimization=40)
        info["eq"] = False
    else:
        raise ValueError(optset)
    return cls(), ocls(**kw), info


def loss_objects(loss, num_var=None):
    from quara.loss_function.standard_qtomography_based_weighted_probability_based_squared_error import (
        StandardQTomographyBasedWeightedProbabilityBasedSquaredError as SEF,
        StandardQTomographyBasedWeightedProbabilityBasedSquaredErrorOption as SEFO)
    from quara.loss_function.standard_qtomography_based_weighted_relative_entropy import (
        StandardQTomographyBasedWeightedRelativeEntropy as REF, StandardQTomographyBasedWeightedRelativeEntropyOption as REFO)
    from quara.loss_function.weighted_probability_based_squared_error import (
        WeightedProbabilityBasedSquaredError as SEG, WeightedProbabilityBasedSquaredErrorOption as SEGO)
    from quara.loss_function.weighted_relative_entropy import WeightedRelativeEntropy as REG, WeightedRelativeEntropyOption as REGO
    cls, ocls = {"se_fast": (SEF, SEFO), "re_fast": (REF, REFO), "se_gen": (SEG, SEGO), "re_gen": (REG, REGO)}[loss]
    return (cls() if num_var is None else cls(num_var=num_var)), ocls("identity")


def quiet(fn, *a, **k):
    """library call under test with its console warnings captured: (ok, value-or-exception, captured text)"""
    buf = io.StringIO()
    with contextlib.redirect_stdout(buf):
        ok, val = A.call(fn, *a, **k)
    return ok, val, buf.getvalue()


def emp_of(ps, N):
    return [(int(N), np.array(p, dtype=np.float64)) for p in ps]
