"""Shared finite alphabets: systems, bases, operators, physical objects.

Everything is deterministic.  VERIF_SEED only rotates the "generic" (irrational
angle) representatives; it never selects which cases run.
Reference-side objects are plain numpy (density matrices, Kraus lists, POVM
matrix lists, instruments = list of Kraus lists); `q_*` helpers turn them into
quara objects through the public constructors only.
"""
import math

import numpy as np

from mc import refmodel as R

# ---------------------------------------------------------------- systems


def make_system(tag, names=None):
    """tag in Q1, Q3, Q3g, Q2, Q6, Q1u (unnormalised Pauli), Q1h / Q3h (normalised hermitian basis,
    identity not first), Q1c (computational basis), Q222 etc. via dims string e.g. 'D2,3,2'.
    names: optional list of elemental-system names (ints) in the order given."""
    from quara.objects.composite_system import CompositeSystem
    from quara.objects.elemental_system import ElementalSystem
    from quara.objects import matrix_basis as mb

    def q(name):
        return ElementalSystem(name, mb.get_normalized_pauli_basis())

    def t(name):
        return ElementalSystem(name, mb.get_normalized_gell_mann_basis())

    if tag == "Q1":
        return CompositeSystem([q((names or [0])[0])])
    if tag == "Q3":
        return CompositeSystem([t((names or [0])[0])])
    if tag == "Q3g":
        return CompositeSystem([ElementalSystem((names or [0])[0], mb.get_normalized_generalized_gell_mann_basis(1, 3))])
    if tag == "Q2":
        n = names or [0, 1]
        return CompositeSystem([q(n[0]), q(n[1])])
    if tag == "Q6":
        n = names or [0, 1]
        return CompositeSystem([q(n[0]), t(n[1])])
    if tag == "Q1u":
        return CompositeSystem([ElementalSystem((names or [0])[0], mb.get_pauli_basis())])
    if tag == "Q1h":
        return CompositeSystem([ElementalSystem((names or [0])[0], mb.get_normalized_hermitian_basis(2))])
    if tag == "Q3h":
        return CompositeSystem([ElementalSystem((names or [0])[0], mb.get_normalized_hermitian_basis(3))])
    if tag == "Q1r":
        # identity first, then the Pauli matrices conjugated by a generic unitary: orthonormal Hermitian, transition matrix from the
        # Pauli basis is a generic (non-symmetric) rotation
        from mc import refmodel as _R
        P = [np.array(x, dtype=np.complex128) for x in mb.get_normalized_pauli_basis()]
        U = _R.generic_unitary(2, 0, salt=9)
        return CompositeSystem([ElementalSystem((names or [0])[0], mb.MatrixBasis([P[0]] + [U @ x @ U.conj().T for x in P[1:]]))])
    if tag == "Q1x":
        # normalised Pauli basis with X FIRST: orthonormal Hermitian, first element has a constant (zero) diagonal but is not ~ identity
        P = mb.get_normalized_pauli_basis()
        return CompositeSystem([ElementalSystem((names or [0])[0], mb.MatrixBasis([np.array(P[k]) for k in (1, 0, 2, 3)]))])
    if tag == "Q3x":
        # normalised Gell-Mann basis with lambda_1 first
        G = mb.get_normalized_gell_mann_basis()
        return CompositeSystem([ElementalSystem((names or [0])[0], mb.MatrixBasis([np.array(G[k]) for k in (1, 0, 2, 3, 4, 5, 6, 7, 8)]))])
    if tag == "Q1c":
        return CompositeSystem([ElementalSystem((names or [0])[0], mb.get_comp_basis(2))])
    if tag.startswith("D"):
        dims = [int(x) for x in tag[1:].split(",")]
        n = names or list(range(len(dims)))
        return CompositeSystem([q(nm) if d == 2 else t(nm) for d, nm in zip(dims, n)])
    raise ValueError(tag)


def dim_of(tag):
    return {"Q1": 2, "Q3": 3, "Q3g": 3, "Q2": 4, "Q6": 6, "Q1u": 2, "Q1h": 2, "Q3h": 3, "Q1c": 2, "Q1x": 2, "Q3x": 3, "Q1r": 2}[tag]


# ---------------------------------------------------------------- spectra / hermitian alphabet


def spectra(d):
    """named eigenvalue patterns (dyadic where possible)"""
    out = {
        "fullrank": [0.5 ** (k + 1) for k in range(d - 1)] + [0.5 ** (d - 1)],
        "degenerate": [0.5] * (d - 1) + [-0.25] if d > 2 else [0.75, 0.75],
        "rank1": [1.0] + [0.0] * (d - 1),
        "one_negative": [1.0] + [0.25] * (d - 2) + [-0.5],
        "all_negative": [-(0.5 ** k) for k in range(d)],
        "zero": [0.0] * d,
        "mixed_sign": [(-1) ** k * 0.5 ** k for k in range(d)],
    }
    if d > 2:
        out["rank_dm1"] = [0.5 ** (k + 1) for k in range(d - 1)] + [0.0]
    return out


def eigenbases(d, seed):
    return {
        "id": np.eye(d, dtype=np.complex128),
        "fourier": R.fourier_unitary(d),
        "generic": R.generic_unitary(d, seed),
    }


def hermitian_alphabet(d, seed, scales=(1.0,), which=None, bases=None):
    """list of (name, matrix)"""
    out = []
    sp = spectra(d)
    eb = eigenbases(d, seed)
    for sn in (which or list(sp)):
        for bn in (bases or list(eb)):
            if sn == "zero" and bn != "id":
                continue
            for sc in scales:
                out.append(("%s/%s/%g" % (sn, bn, sc), sc * R.hermitian_from(sp[sn], eb[bn])))
    return out


# ---------------------------------------------------------------- physical objects (reference side)


def states_ref(d, seed):
    """dict name -> density matrix (physical)"""
    U = R.generic_unitary(d, seed)
    F = R.fourier_unitary(d)
    out = {}
    e0 = np.zeros((d, d), dtype=np.complex128)
    e0[0, 0] = 1
    out["z0"] = e0
    psi = U[:, 0]
    out["pure_generic"] = np.outer(psi, psi.conj())
    psi = F[:, 1 % d]
    out["pure_fourier"] = np.outer(psi, psi.conj())
    w = np.array([0.5 ** (k + 1) for k in range(d - 1)] + [0.5 ** (d - 1)])
    out["mixed_generic"] = R.hermitian_from(w, U)
    if d > 2:
        w2 = np.array([0.75, 0.25] + [0.0] * (d - 2))
        out["boundary_generic"] = R.hermitian_from(w2, R.generic_unitary(d, seed, salt=3))
    out["maxmixed"] = np.eye(d, dtype=np.complex128) / d
    return out


def _inv_sqrt(S):
    w, V = np.linalg.eigh((S + S.conj().T) / 2)
    return (V / np.sqrt(w)) @ V.conj().T


def _sqrtm_psd(M):
    w, V = np.linalg.eigh((M + M.conj().T) / 2)
    return (V * np.sqrt(np.clip(w, 0, None))) @ V.conj().T


def povm_generic(d, m, seed, salt=0, rank=None):
    """m-outcome POVM with non-commuting elements; rank=None -> full rank elements, rank=1 -> rank-1"""
    if rank == 1 and m >= d:
        # rows of an m x d isometry (QR of a generic matrix): well conditioned, sum = I to machine precision
        G = np.vstack([R.generic_matrix(d, seed, salt=salt + 5 * x + 1)[:1, :] for x in range(m)])
        G = G + 0.35 * np.eye(m, d)
        Q, _ = np.linalg.qr(G)
        Ms = [np.outer(Q[x].conj(), Q[x]) for x in range(m)]
        return [(M + M.conj().T) / 2 for M in Ms]
    As = []
    for x in range(m):
        G = R.generic_matrix(d, seed, salt=salt + 5 * x + 1)
        if rank is None:
            A = G @ G.conj().T + 0.1 * (x + 1) * np.eye(d)
        else:
            v = G[:, :rank]
            A = v @ v.conj().T
        As.append(A)
    S = sum(As)
    if rank is not None and np.linalg.matrix_rank(S) < d:
        raise ValueError("rank-deficient frame")
    Si = _inv_sqrt(S)
    Ms = [Si @ A @ Si for A in As]
    Ms = [(M + M.conj().T) / 2 for M in Ms]
    # make the elements sum to the identity to machine precision (the library's verdict is absolute, atol = 1e-13)
    Ms[-1] = np.eye(d, dtype=np.complex128) - sum(Ms[:-1])
    return Ms


def povms_ref(d, seed, ms=(2, 3, 4)):
    """dict name -> list of matrices.  Names carry the outcome count: e.g. 'generic_m3'."""
    out = {}
    for m in ms:
        out["generic_m%d" % m] = povm_generic(d, m, seed, salt=m)
        if m >= d:
            try:
                out["rank1_m%d" % m] = povm_generic(d, m, seed, salt=m + 11, rank=1)
            except Exception:
                pass
        if m <= d:
            # projective measurement in a generic basis (blocks of the eigenbasis)
            U = R.generic_unitary(d, seed, salt=m + 2)
            sizes = [d // m + (1 if x < d % m else 0) for x in range(m)]
            Ms, k = [], 0
            for s in sizes:
                P = U[:, k:k + s] @ U[:, k:k + s].conj().T
                Ms.append(P)
                k += s
            out["projective_m%d" % m] = Ms
        if m >= 3:
            # one exactly-zero element
            base = povm_generic(d, m - 1, seed, salt=m + 23)
            out["withzero_m%d" % m] = base[:1] + [np.zeros((d, d), dtype=np.complex128)] + base[1:]
    # computational-basis measurement (z-type), d outcomes
    Ms = []
    for x in range(d):
        P = np.zeros((d, d), dtype=np.complex128)
        P[x, x] = 1
        Ms.append(P)
    out["comp_m%d" % d] = Ms
    return out


def gates_ref(d, seed):
    """dict name -> Kraus list (CPTP)"""
    U = R.generic_unitary(d, seed, salt=1)
    F = R.fourier_unitary(d)
    out = {"identity": [np.eye(d, dtype=np.complex128)], "unitary_generic": [U], "unitary_fourier": [F]}
    # dephasing in the computational basis with probability 1/4
    ks = [math.sqrt(0.75) * np.eye(d, dtype=np.complex128)]
    for x in range(d):
        P = np.zeros((d, d), dtype=np.complex128)
        P[x, x] = 1
        ks.append(math.sqrt(0.25) * P)
    out["dephasing"] = ks
    # amplitude damping towards |0> (non-unital)
    g = 0.375
    K0 = np.eye(d, dtype=np.complex128)
    ks = []
    for x in range(1, d):
        K0[x, x] = math.sqrt(1 - g)
        Kx = np.zeros((d, d), dtype=np.complex128)
        Kx[0, x] = math.sqrt(g)
        ks.append(Kx)
    out["ampdamp"] = [K0] + ks
    # generic Kraus rank 2 and rank d: blocks of a generic isometry
    for r in (2, d * d):
        out["kraus_generic_r%d" % r] = isometry_blocks(d, r, seed, salt=r)
    # depolarising p = 0.25 : (1-p) rho + p I/d  via Weyl operators
    p = 0.25
    ks = []
    X = np.roll(np.eye(d), 1, axis=0).astype(np.complex128)
    Z = np.diag([np.exp(2j * math.pi * k / d) for k in range(d)])
    for a in range(d):
        for b in range(d):
            W = np.linalg.matrix_power(X, a) @ np.linalg.matrix_power(Z, b)
            wgt = (1 - p) + p / (d * d) if (a, b) == (0, 0) else p / (d * d)
            ks.append(math.sqrt(wgt) * W)
    out["depolarizing"] = ks
    return out


def isometry_blocks(d, r, seed, salt=0):
    """r Kraus operators with sum K^+K = I from the first d columns of a generic (d r) unitary"""
    n = d * r
    # build an n x d isometry by Gram-Schmidt (QR) of a generic matrix - deterministic
    G = np.zeros((n, d), dtype=np.complex128)
    a = R.angles(seed, 2 * n * d, salt)
    k = 0
    for i in range(n):
        for j in range(d):
            G[i, j] = math.cos(2 * a[k] + 0.3 * i) + 1j * math.sin(3 * a[k + 1] + 0.7 * j)
            k += 2
    Q, _ = np.linalg.qr(G)
    return [Q[x * d:(x + 1) * d, :] for x in range(r)]


def instruments_ref(d, seed, ms=(2, 3)):
    """dict name -> list (per outcome) of Kraus lists; trace-preserving in sum"""
    out = {}
    for m in ms:
        P = povm_generic(d, m, seed, salt=m + 31)
        out["luders_m%d" % m] = [[_sqrtm_psd(M)] for M in P]
        # unitary feedback depending on the outcome (non-Lueders, one Kraus per outcome)
        out["feedback_m%d" % m] = [[R.generic_unitary(d, seed, salt=x + 4) @ _sqrtm_psd(M)] for x, M in enumerate(P)]
        # several Kraus operators per outcome
        blocks = isometry_blocks(d, 2 * m, seed, salt=m + 41)
        out["multikraus_m%d" % m] = [blocks[2 * x:2 * x + 2] for x in range(m)]
    # projective z-type instrument, d outcomes
    inst = []
    for x in range(d):
        Pm = np.zeros((d, d), dtype=np.complex128)
        Pm[x, x] = 1
        inst.append([Pm])
    out["comp_m%d" % d] = inst
    return out


# ---------------------------------------------------------------- quara constructors


def real_checked(v, what, tol=1e-10):
    v = np.asarray(v)
    if np.abs(v.imag).max(initial=0.0) > tol:
        raise AssertionError("harness: %s has imaginary coefficients %g" % (what, np.abs(v.imag).max()))
    return np.ascontiguousarray(v.real, dtype=np.float64)


def q_state(c_sys, rho, **kw):
    from quara.objects.state import State
    B = R.basis_mats(c_sys)
    return State(c_sys, real_checked(R.coeffs(rho, B), "state"), **kw)


def q_povm(c_sys, Ms, **kw):
    from quara.objects.povm import Povm
    B = R.basis_mats(c_sys)
    return Povm(c_sys, [real_checked(R.coeffs(M, B), "povm") for M in Ms], **kw)


def hs_of_kraus(c_sys, ks):
    B = R.basis_mats(c_sys)
    return real_checked(R.hs_from_kraus(ks, B), "hs")


def q_gate(c_sys, ks, **kw):
    from quara.objects.gate import Gate
    return Gate(c_sys, hs_of_kraus(c_sys, ks), **kw)


def q_mprocess(c_sys, inst, **kw):
    from quara.objects.mprocess import MProcess
    return MProcess(c_sys, [hs_of_kraus(c_sys, ks) for ks in inst], **kw)


# reading quara objects back into reference form (through the basis as data only)

def rho_of(state):
    return R.mat_from_coeffs(np.asarray(state.vec), R.basis_mats(state.composite_system))


def mats_of(povm):
    B = R.basis_mats(povm.composite_system)
    return [R.mat_from_coeffs(np.asarray(v), B) for v in povm.vecs]


def action_of_hs(c_sys, hs):
    return R.action_from_hs(np.asarray(hs), R.basis_mats(c_sys))


def call(fn, *a, **k):
    """run a library call under test: returns (True, value) or (False, exception)"""
    try:
        return True, fn(*a, **k)
    except Exception as e:  # noqa
        return False, e


def fmt_exc(e):
    return "%s: %s" % (type(e).__name__, str(e)[:300])


def digest(*arrays):
    import hashlib
    h = hashlib.sha1()
    for a in arrays:
        h.update(np.ascontiguousarray(np.asarray(a)).tobytes())
    return h.hexdigest()[:12]
