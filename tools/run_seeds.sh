#!/bin/bash
# usage: run_seeds.sh "1 2 3" [props...]   - all quick checks for several VERIF_SEED values, one summary line per (seed, property)
SEEDS="$1"; shift
cd /verif
for S in $SEEDS; do
  VERIF_SEED=$S tools/run_all.sh "$@" 2>&1 | sed "s/^/seed=$S /"
done
