"""C01 extra families (added after seeded changes r2C01-b / r2C01-c):

history      verdicts must describe the operator the object denotes NOW: after set_zero(), after an in-place write
             through the array the constructor adopted, after verdicts were already evaluated (caches).
tiny_outcome a measurement process with one additional outcome that is tiny overall (all HS entries <= 1e-8) and
             not completely positive by delta: the CP verdict has no second tolerance besides atol.
"""
import numpy as np

from mc import alphabet as A, refmodel as R
from mc.core import Out
from mc.frames import frame


def ex_history(p, seed):
    out = Out()
    kind, tag = p["kind"], p["tag"]
    m = 3 if kind in ("povm", "mprocess") else None
    if kind == "mprocess":
        m = 2
    F = frame(kind, tag, m)
    d = F.d
    bd = F.block_dim()
    sp = A.spectra(bd)
    U = A.eigenbases(bd, seed)["generic"]
    # a physical point and a non-PSD one
    from mc.props.c05 import physical_points
    phys = list(physical_points(F, seed).values())[1]
    bad = F.from_blocks([R.hermitian_from(sp["one_negative"], U) * (1.0 + 0.25 * k) for k in range(F.nblocks())])
    zero = np.zeros(F.n)

    def verdicts(obj):
        return (bool(obj.is_eq_constraint_satisfied()), bool(obj.is_ineq_constraint_satisfied()), bool(obj.is_physical()))

    def ref(x):
        eq = F.eq_defect(x) <= 1e-14
        ineq = F.min_eig(x) >= -1e-14
        return (eq, ineq, eq and ineq)

    def clear(x):        # verdict well away from the band
        e, mn = F.eq_defect(x), F.min_eig(x)
        return (e < 1e-15 or e > 1e-6) and (mn > -1e-15 or mn < -1e-6)
    for name, x0 in (("physical", phys), ("nonpsd", bad)):
        for flag in (True, False):
            obj = F.make(x0, on_para_eq_constraint=flag)
            v0 = verdicts(obj)                       # evaluates (and possibly caches) everything once
            out.ops += 3
            if clear(x0) and v0 != ref(x0):
                out.fail("history:%s:fresh-verdict-wrong:%s" % (kind, name), "%r vs reference %r" % (v0, ref(x0)))
            # --- set_zero(): the object now denotes the zero operator
            obj.set_zero()
            v1 = verdicts(obj)
            out.ops += 3
            out.traces += 1
            out.count("history_set_zero")
            if v1 != ref(zero):
                out.fail("history:%s:verdict-stale-after-set_zero:%s" % (kind, name),
                         "%s %s flag=%s: after set_zero() the verdicts (eq, ineq, physical) are %r, the zero operator has %r" % (kind, tag, flag, v1, ref(zero)))
    # --- in-place write through the array adopted by the constructor (State / Gate adopt their argument)
    if kind in ("state", "gate"):
        from quara.objects.state import State
        from quara.objects.gate import Gate
        for first, second in ((phys, bad), (bad, phys)):
            arr = np.array(first, dtype=np.float64)
            if kind == "gate":
                arr = arr.reshape(F.D, F.D)
            obj = (State if kind == "state" else Gate)(F.c_sys, arr, is_physicality_required=False)
            verdicts(obj)
            aliased = np.shares_memory(arr, obj.to_stacked_vector())
            arr[...] = np.array(second, dtype=np.float64).reshape(arr.shape)
            now = F.stacked(obj)
            v2 = verdicts(obj)
            out.ops += 3
            out.traces += 1
            out.count("history_alias_write")
            if clear(now) and v2 != ref(now):
                out.fail("history:%s:verdict-stale-after-write-through-adopted-array" % kind,
                         "%s %s (aliased=%s): verdicts %r, the parameters now denote an operator with %r" % (kind, tag, aliased, v2, ref(now)))
    out.outcome = "ok" if not out.fails else "fail"
    return out


def ex_tiny(p, seed):
    """MProcess = physical instrument + one extra outcome delta*N with N = (transpose - identity), trace annihilating, not CP"""
    from quara.objects.mprocess import MProcess
    out = Out()
    tag = p["tag"]
    c = A.make_system(tag)
    d = c.dim
    B = R.basis_mats(c)
    inst = A.instruments_ref(d, seed, ms=(2,))["feedback_m2"]
    hss = [A.hs_of_kraus(c, ks) for ks in inst]
    N = A.real_checked(R.hs_from_action(lambda X: X.T - X, B), "N")
    choiN = R.choi_from_action(lambda X: X.T - X, d)
    mineig = R.min_eig(choiN)          # negative, O(1)
    for delta in (1e-12, 1e-11, 1e-10, 1e-9, 3e-9):
        for atol in (None, 1e-13, 1e-12, 1e-10, 1e-8):
            a = 1e-13 if atol is None else atol
            viol = -delta * mineig
            if a / 10 < viol < 10 * a:
                continue
            expect_cp = viol <= a / 10
            mp = MProcess(c, [h.copy() for h in hss] + [delta * N], is_physicality_required=False)
            for name, fn in (("is_cp", lambda: mp.is_cp(atol)), ("is_ineq_constraint_satisfied", lambda: mp.is_ineq_constraint_satisfied(atol)),
                             ("is_physical", lambda: mp.is_physical(atol, atol))):
                ok, v = A.call(fn)
                out.ops += 1
                out.traces += 1
                out.count("tiny_outcome_verdict_%s" % str(bool(v)).lower() if ok else "tiny_raises")
                if not ok or bool(v) != expect_cp:
                    out.fail("MProcess.%s:tiny-outcome:%s" % (name, "false-accept" if expect_cp is False else "false-reject"),
                             "%s: extra outcome %.0e*(transpose - id), CP violation %.3g, atol %r: verdict %r" % (tag, delta, viol, atol, v))
            ok, v = A.call(lambda: MProcess(c, [h.copy() for h in hss] + [delta * N], is_physicality_required=True))
            out.ops += 1
            if atol is None and (ok != expect_cp):
                out.fail("MProcess.__init__:tiny-outcome:%s" % ("accepted-nonphysical" if ok else "rejected-physical"),
                         "%s: extra outcome %.0e*(transpose - id), CP violation %.3g" % (tag, delta, viol))
    out.outcome = "ok" if not out.fails else "fail"
    return out
