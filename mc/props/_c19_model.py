"""Reference side of C19: tester sets, true objects, reference probability maps (Born rule on dense matrices),
reference parametrisation (mc.frames) and the complete multinomial enumerations.  No quara conversions are used on
this side; quara objects are only built through the public constructors (A.q_*)."""
import itertools
import math

import numpy as np

from mc import alphabet as A, refmodel as R
from mc.frames import Frame

KIND = {"qst": "state", "povmt": "povm", "qpt": "gate", "qmpt": "mprocess"}

# ------------------------------------------------------------------------------------------------ testers


def generic_states(d, K, seed):
    """K generic tester states (pure for even k, mixed with the maximally mixed state for odd k)"""
    out = []
    for k in range(K):
        U = R.generic_unitary(d, seed, salt=3 * k + 7)
        psi = U[:, k % d]
        rho = np.outer(psi, psi.conj())
        if k % 2:
            rho = 0.75 * rho + 0.25 * np.eye(d) / d
        out.append(rho)
    return out


def tester_states_ref(d, name, seed):
    if d == 2 and name in ("s4", "s5"):
        st = A.states_ref(2, seed)
        names = ["z0", "pure_generic", "pure_fourier", "mixed_generic"] + (["maxmixed"] if name == "s5" else [])
        return [st[k] for k in names]
    if name.startswith("g"):
        return generic_states(d, int(name[1:]), seed)
    raise ValueError(name)


Q1_POVM_SETS = {
    "m2": ["comp_m2", "projective_m2", "generic_m2"],
    "m2x4": ["comp_m2", "projective_m2", "generic_m2", "rank1_m2"],
    "m3": ["generic_m3", "rank1_m3"],
    "m3x3": ["generic_m3", "rank1_m3", "withzero_m3"],
    "m4": ["rank1_m4"],
    "m4x2": ["generic_m4", "rank1_m4"],
    "mixed234": ["comp_m2", "generic_m3", "rank1_m4"],
    "mixed23": ["generic_m2", "generic_m3"],
    "mixed42": ["rank1_m4", "projective_m2"],
}


def tester_povms_ref(d, name, seed):
    """name: a Q1 set name, or 'g<m>x<K>' = K generic m-outcome POVMs"""
    if d == 2 and name in Q1_POVM_SETS:
        pv = A.povms_ref(2, seed)
        return [pv[k] for k in Q1_POVM_SETS[name]]
    if name.startswith("g"):
        m, K = name[1:].split("x")
        return [A.povm_generic(d, int(m), seed, salt=10 * k + int(m)) for k in range(int(K))]
    raise ValueError(name)


def truths_ref(tomo, d, m, seed):
    """dict name -> reference data of physical true objects"""
    if tomo == "qst":
        return A.states_ref(d, seed)
    if tomo == "povmt":
        pv = A.povms_ref(d, seed)
        return {k: v for k, v in pv.items() if len(v) == m}
    if tomo == "qpt":
        return A.gates_ref(d, seed)
    ins = A.instruments_ref(d, seed)
    return {k: v for k, v in ins.items() if len(v) == m}


# ------------------------------------------------------------------------------------------------ reference statistics

def stacked_of(kind, data, B):
    if kind == "state":
        return A.real_checked(R.coeffs(data, B), "state")
    if kind == "povm":
        return np.concatenate([A.real_checked(R.coeffs(M, B), "povm") for M in data])
    if kind == "gate":
        return A.real_checked(R.hs_from_kraus(data, B), "gate").ravel()
    return np.concatenate([A.real_checked(R.hs_from_kraus(ks, B), "mprocess").ravel() for ks in data])


def ref_probs(tomo, x, B, rho_t, povm_t, m_est):
    """Born probabilities of ONE schedule for the (not necessarily physical) estimated object with stacked vector x;
    rho_t / povm_t are the tester matrices of the schedule (None where the estimated object sits)."""
    D = len(B)
    if tomo == "qst":
        rho = R.mat_from_coeffs(x, B)
        return np.array([np.trace(M @ rho) for M in povm_t])
    if tomo == "povmt":
        Ms = [R.mat_from_coeffs(x[k * D:(k + 1) * D], B) for k in range(m_est)]
        return np.array([np.trace(M @ rho_t) for M in Ms])
    if tomo == "qpt":
        out = R.action_from_hs(x.reshape(D, D), B)(rho_t)
        return np.array([np.trace(M @ out) for M in povm_t])
    res = []
    for k in range(m_est):                       # time order: mprocess outcome first, then the POVM outcome
        out = R.action_from_hs(x[k * D * D:(k + 1) * D * D].reshape(D, D), B)(rho_t)
        res.extend(np.trace(M @ out) for M in povm_t)
    return np.array(res)


class Setup:
    """one (tomography type, tester set, true object, flag) configuration"""

    def __init__(self, p, seed):
        from quara.protocol.qtomography.standard.standard_qst import StandardQst
        from quara.protocol.qtomography.standard.standard_povmt import StandardPovmt
        from quara.protocol.qtomography.standard.standard_qpt import StandardQpt
        from quara.protocol.qtomography.standard.standard_qmpt import StandardQmpt
        self.p = p
        tomo, flag, sysname = p["tomo"], p["flag"], p["sys"]
        self.tomo, self.flag = tomo, flag
        self.kind = KIND[tomo]
        self.c_sys = A.make_system(sysname)
        self.B = R.basis_mats(self.c_sys)
        d = self.B[0].shape[0]
        self.d, self.D = d, d * d
        self.m_est = p.get("m")
        self.F = Frame(self.kind, self.c_sys, self.m_est)
        self.states_ref = tester_states_ref(d, p["states"], seed) if tomo != "qst" else []
        self.povms_ref = tester_povms_ref(d, p["povms"], seed) if tomo != "povmt" else []
        self.q_states = [A.q_state(self.c_sys, r) for r in self.states_ref]
        self.q_povms = [A.q_povm(self.c_sys, Ms) for Ms in self.povms_ref]
        sched = p.get("sched", "all")
        ns, npv = len(self.states_ref), len(self.povms_ref)
        if tomo == "qst":
            pairs = [(None, j) for j in range(npv)]
            if sched == "perm":                   # reversed order and the first tester repeated at the end
                pairs = pairs[::-1] + [pairs[0]]
            schedules = [[("state", 0), ("povm", j)] for _, j in pairs]
            self.qt = StandardQst(self.q_povms, on_para_eq_constraint=flag, schedules=schedules if sched != "all" else "all")
        elif tomo == "povmt":
            pairs = [(i, None) for i in range(ns)]
            self.qt = StandardPovmt(self.q_states, self.m_est, on_para_eq_constraint=flag)
        elif tomo == "qpt":
            pairs = [(i, j) for i in range(ns) for j in range(npv)]
            if sched == "perm":
                pairs = pairs[::-1] + [pairs[0]]
            schedules = [[("state", i), ("gate", 0), ("povm", j)] for i, j in pairs]
            self.qt = StandardQpt(self.q_states, self.q_povms, on_para_eq_constraint=flag,
                                  schedules=schedules if sched != "all" else "all")
        else:
            pairs = [(i, j) for i in range(ns) for j in range(npv)]
            self.qt = StandardQmpt(self.q_states, self.q_povms, self.m_est, on_para_eq_constraint=flag)
        self.pairs = pairs
        self.S = len(pairs)
        if self.qt.num_schedules != self.S:
            raise AssertionError("harness: schedule count")
        # true object
        data = truths_ref(tomo, d, self.m_est, seed)[p["true"]]
        self.x_true = stacked_of(self.kind, data, self.B)
        self.v_true = self.F.var_from_stacked(self.x_true, flag)
        ctor = {"state": A.q_state, "povm": A.q_povm, "gate": A.q_gate, "mprocess": A.q_mprocess}[self.kind]
        self.qope = ctor(self.c_sys, data, on_para_eq_constraint=flag)
        # reference affine parametrisation: stacked = J v + c0
        nv = self.F.num_var(flag)
        self.nv = nv
        self.c0 = self.F.stacked_from_var(np.zeros(nv), flag)
        J = np.zeros((self.F.n, nv))
        for k in range(nv):
            e = np.zeros(nv)
            e[k] = 1
            J[:, k] = self.F.stacked_from_var(e, flag) - self.c0
        self.J = J
        if np.abs(J @ self.v_true + self.c0 - self.x_true).max() > 1e-12:
            raise AssertionError("harness: true object does not satisfy its equality constraint")
        # reference probability maps P_j (linear in the stacked vector), gradients w.r.t. var, true probabilities
        self.P, self.G, self.probs, self.M = [], [], [], []
        n = self.F.n
        for (i, j) in pairs:
            rho_t = self.states_ref[i] if i is not None else None
            povm_t = self.povms_ref[j] if j is not None else None
            cols = []
            for k in range(n):
                e = np.zeros(n)
                e[k] = 1
                cols.append(ref_probs(tomo, e, self.B, rho_t, povm_t, self.m_est))
            Pj = np.array(cols).T
            if np.abs(Pj.imag).max() > 1e-12:
                raise AssertionError("harness: complex probabilities")
            Pj = Pj.real.copy()
            pj = Pj @ self.x_true
            if abs(pj.sum() - 1) > 1e-11 or pj.min() < -1e-11:
                raise AssertionError("harness: reference probabilities are not a distribution: %r" % (pj,))
            pj = np.where(np.abs(pj) < 1e-13, 0.0, pj)
            pj = pj / pj.sum()
            self.P.append(Pj)
            self.G.append(Pj @ J)
            self.probs.append(pj)
            self.M.append(len(pj))
        self.min_prob = min(float(q.min()) for q in self.probs)

    def base_dataset(self, n_list=None):
        return [((n_list[j] if n_list else 1), self.probs[j].copy()) for j in range(self.S)]


def comps_and_pmf(n, p):
    comps = list(R.compositions(n, len(p)))
    pm = np.array([R.multinomial_pmf(c, p) for c in comps])
    if abs(pm.sum() - 1) > 1e-12:
        raise AssertionError("harness: multinomial pmf does not sum to one")
    return np.array(comps, dtype=float), pm


def n_comps(n, m):
    return math.comb(n + m - 1, m - 1)


def nmax_for(M, cap, hard=8):
    n = 1
    while n < hard and n_comps(n + 1, M) <= cap:
        n += 1
    return n


class Enum:
    """exact first and second moments for schedule j at sample size n (complete enumeration, the library's estimator
    run on every dataset = exact true probabilities on the other schedules, the enumerated frequencies on schedule j)"""
    __slots__ = ("n", "count", "bias_v", "S2_v", "bias_o", "S2o_tr", "cov_f", "mean_f", "mse_f", "conv_err")


def run_estimator(S, est, seq):
    """library estimator on a batch of datasets -> (ok, vars (N x nv), library object-level stacked vectors (N x n))"""
    ok, res = A.call(est.calc_estimate_sequence, S.qt, seq)
    if not ok:
        return False, res, None
    V = np.array([np.asarray(v, float).ravel() for v in res.estimated_var_sequence])
    ok, objs = A.call(lambda: res.estimated_qoperation_sequence)
    if not ok:
        return False, objs, None
    O = np.array([Frame.stacked(o) for o in objs])
    return True, V, O


def enum_schedule(S, est, j, n):
    fs, pm = comps_and_pmf(n, S.probs[j])
    fs = fs / n
    base = S.base_dataset()
    seq = []
    for f in fs:
        ds = list(base)
        ds[j] = (n, f)
        seq.append(ds)
    ok, V, O = run_estimator(S, est, seq)
    if not ok:
        return False, V
    e = Enum()
    e.n, e.count = n, len(pm)
    dv = V - S.v_true
    do = O - S.x_true
    e.bias_v = pm @ dv
    e.S2_v = (dv * pm[:, None]).T @ dv
    e.bias_o = pm @ do
    e.S2o_tr = float(pm @ (do * do).sum(axis=1))
    df = fs - S.probs[j]
    e.mean_f = pm @ fs
    e.cov_f = (df * pm[:, None]).T @ df
    e.mse_f = float(pm @ (df * df).sum(axis=1))
    # library object conversion against the reference parametrisation
    e.conv_err = float(np.abs(O - (V @ S.J.T + S.c0)).max())
    return True, e


def joint_enumeration(S, est, n_list, chunk=4000):
    """complete enumeration of the JOINT datasets over all schedules (no independence shortcut except the product pmf)"""
    per = [comps_and_pmf(n, S.probs[j]) for j, n in enumerate(n_list)]
    fsl = [c / n for (c, _), n in zip(per, n_list)]
    pml = [pm for _, pm in per]
    total = int(np.prod([len(pm) for pm in pml]))
    nv, nx = S.nv, S.F.n
    tot_m = sum(S.M)
    p_all = np.concatenate(S.probs)
    acc = {"w": 0.0, "mean_v": np.zeros(nv), "S2_v": np.zeros((nv, nv)), "mean_o": np.zeros(nx), "mse_o": 0.0,
           "S2_f": np.zeros((tot_m, tot_m)), "mean_f": np.zeros(tot_m), "mse_f": 0.0, "count": total, "conv_err": 0.0}
    it = itertools.product(*[range(len(pm)) for pm in pml])
    while True:
        idx = list(itertools.islice(it, chunk))
        if not idx:
            break
        idx = np.array(idx)
        w = np.ones(len(idx))
        for j in range(S.S):
            w = w * pml[j][idx[:, j]]
        Fm = np.hstack([fsl[j][idx[:, j]] for j in range(S.S)])
        seq = [[(n_list[j], fsl[j][row[j]]) for j in range(S.S)] for row in idx]
        ok, V, O = run_estimator(S, est, seq)
        if not ok:
            return False, V
        dv, do, df = V - S.v_true, O - S.x_true, Fm - p_all
        acc["w"] += w.sum()
        acc["mean_v"] += w @ dv
        acc["S2_v"] += (dv * w[:, None]).T @ dv
        acc["mean_o"] += w @ do
        acc["mse_o"] += float(w @ (do * do).sum(axis=1))
        acc["mean_f"] += w @ df
        acc["S2_f"] += (df * w[:, None]).T @ df
        acc["mse_f"] += float(w @ (df * df).sum(axis=1))
        acc["conv_err"] = max(acc["conv_err"], float(np.abs(O - (V @ S.J.T + S.c0)).max()))
    if abs(acc["w"] - 1) > 1e-11:
        raise AssertionError("harness: joint pmf does not sum to one")
    return True, acc
