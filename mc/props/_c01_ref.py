"""Reference side of the C01 check (no quara code; basis matrices are read as data only).

Textbook definitions in dense numpy, vectorised so that 36 x 36 superoperators are cheap:

* an operator X is stored row-major, vec(X)[a*d+b] = X[a,b];
* a linear map G on operators is its matrix S on vec(X):  S = sum_k K (x) conj(K) for a Kraus list;
* the parameters quara stores are expansion coefficients in the system's matrix basis B_0..B_{n-1}:
  T = [vec(B_0) ... vec(B_{n-1})], coefficient vector c = T^-1 vec(X), HS matrix hs = T^-1 S T;
* Choi matrix (convention sum_ij G(E_ij) (x) E_ij): C[(a,i),(b,j)] = S[(a,b),(i,j)];
* trace functional: Tr G(X) - Tr X = (vec(I)^T S - vec(I)^T) vec(X).

`RefSys.selfcheck` compares these formulas with the slow definitions of mc.refmodel.
"""
import math

import numpy as np

from mc import alphabet as A, refmodel as R

BCLASS = {"Q1": "normalised", "Q3": "normalised", "Q3g": "normalised", "Q2": "normalised", "Q6": "normalised",
          "Q1u": "unnormalised", "Q1h": "hermitian-identity-not-first", "Q3h": "hermitian-identity-not-first",
          "Q1x": "hermitian-identity-not-first", "Q3x": "hermitian-identity-not-first"}
NORMALISED = ("Q1", "Q3", "Q3g", "Q2", "Q6")


class RefSys:
    def __init__(self, tag):
        self.tag = tag
        self.bclass = BCLASS[tag]
        self.c_sys = A.make_system(tag)
        self.B = R.basis_mats(self.c_sys)
        self.d = d = self.B[0].shape[0]
        self.n = n = len(self.B)
        if n != d * d:
            raise AssertionError("harness: basis of %s has %d elements" % (tag, n))
        self.T = np.array([b.reshape(-1) for b in self.B]).T
        self.Tinv = np.linalg.inv(self.T)
        G = self.T.conj().T @ self.T
        self.gram_diag = np.real(np.diag(G)).copy()
        self.orthogonal = bool(np.abs(G - np.diag(np.diag(G))).max() < 1e-12)
        self.orthonormal = bool(np.abs(G - np.eye(n)).max() < 1e-12)
        self.hermitian = all(np.abs(b - b.conj().T).max() < 1e-15 for b in self.B)
        self.identity_first = bool(np.abs(self.B[0] - self.B[0][0, 0] * np.eye(d)).max() < 1e-12 and abs(self.B[0][0, 0]) > 0.1)
        self.vecI = np.eye(d).reshape(-1).astype(np.complex128)
        if not self.hermitian:
            raise AssertionError("harness: C01 only uses Hermitian bases")
        if d <= 3:
            self.selfcheck()

    # ---- parametrisation <-> operators
    def coeffs(self, M):
        return A.real_checked(self.Tinv @ np.asarray(M, dtype=np.complex128).reshape(-1), "coefficients")

    def mat(self, c):
        return (self.T @ np.asarray(c, dtype=np.complex128)).reshape(self.d, self.d)

    def superop(self, kraus):
        S = np.zeros((self.n, self.n), dtype=np.complex128)
        for K in kraus:
            S = S + np.kron(K, K.conj())
        return S

    def hs_of_superop(self, S):
        return A.real_checked(self.Tinv @ S @ self.T, "hs")

    def superop_of_hs(self, hs):
        return self.T @ np.asarray(hs, dtype=np.complex128) @ self.Tinv

    def reshuffle(self, M):
        """superoperator <-> Choi (an involution)"""
        d = self.d
        return M.reshape(d, d, d, d).transpose(0, 2, 1, 3).reshape(d * d, d * d)

    def trace_functional(self, S):
        """D with Tr G(X) - Tr X = sum_ij D[i,j] X[i,j]"""
        return (self.vecI @ S - self.vecI).reshape(self.d, self.d)

    def selfcheck(self):
        d = self.d
        U = R.generic_unitary(d, 1, salt=2)
        ks = [math.sqrt(0.6) * U, math.sqrt(0.4) * R.fourier_unitary(d)]
        S = self.superop(ks)
        X = R.generic_matrix(d, 2)
        if np.abs((S @ X.reshape(-1)).reshape(d, d) - R.kraus_apply(ks, X)).max() > 1e-12:
            raise AssertionError("harness: superoperator formula wrong")
        hs_slow = R.hs_from_kraus(ks, self.B)
        if np.abs(hs_slow - self.Tinv @ S @ self.T).max() > 1e-12:
            raise AssertionError("harness: hs formula wrong")
        C_slow = R.choi_from_action(lambda Y: R.kraus_apply(ks, Y), d)
        if np.abs(C_slow - self.reshuffle(S)).max() > 1e-12:
            raise AssertionError("harness: Choi formula wrong")
        S2 = 1.25 * S
        D = self.trace_functional(S2)
        slow = R.tp_defect(lambda Y: (S2 @ Y.reshape(-1)).reshape(d, d), d)
        if abs(np.abs(D).max() - slow) > 1e-12 or abs(slow - 0.25) > 1e-12:
            raise AssertionError("harness: trace functional wrong")
        M = R.hermitian_from([0.3, -0.2] + [0.1] * (d - 2), U)
        if np.abs(self.mat(self.coeffs(M)) - M).max() > 1e-12:
            raise AssertionError("harness: coefficient roundtrip wrong")
        if np.abs(np.array(self.coeffs(M)) - np.real(R.coeffs(M, self.B))).max() > 1e-12:
            raise AssertionError("harness: coefficients differ from refmodel")


_SYS = {}


def refsys(tag):
    if tag not in _SYS:
        _SYS[tag] = RefSys(tag)
    return _SYS[tag]


# ------------------------------------------------------------------ violation sizes from the definitions
# every measure is an interval (lo, hi) of the violation size under the reasonable norms; a verdict is
# asserted true when hi <= atol/10 and false when lo >= 10*atol.

def _herm_min_eig(M):
    return float(np.linalg.eigvalsh((M + M.conj().T) / 2).min())


def _herm_defect(M):
    return float(np.abs(M - M.conj().T).max())


def _op_norms(Dm):
    mx = float(np.abs(Dm).max())
    fro = float(np.linalg.norm(Dm))
    op = float(np.linalg.norm(Dm, 2))
    return mx, max(mx, fro, op)


def measure_state(rs, vec):
    rho = rs.mat(vec)
    e = float(abs(np.trace(rho) - 1.0))
    lam = _herm_min_eig(rho)
    v = max(0.0, -lam)
    return {"eq": (e, e), "ineq": (v, v), "herm": _herm_defect(rho), "lam": lam}


def measure_povm(rs, vecs):
    Ms = [rs.mat(v) for v in vecs]
    lo, hi = _op_norms(sum(Ms) - np.eye(rs.d))
    lam = min(_herm_min_eig(M) for M in Ms)
    v = max(0.0, -lam)
    return {"eq": (lo, hi), "ineq": (v, v), "herm": max(_herm_defect(M) for M in Ms), "lam": lam}


def _tp_interval(rs, S):
    D = rs.trace_functional(S)
    mx, hi = _op_norms(D)
    on_basis = float(np.abs(D.reshape(-1) @ rs.T).max())       # max_a |Tr G(B_a) - Tr B_a|
    vals = [mx, hi, on_basis, on_basis / math.sqrt(rs.d)]
    return min(vals), max(vals)


def _cp_interval(rs, S):
    C = rs.reshuffle(S)
    lam = _herm_min_eig(C)
    v = max(0.0, -lam)
    # Choi matrix normalised to trace d (quara) or to trace 1; a non-normalised orthogonal basis rescales the
    # library's sum_ab hs[a,b] B_a (x) conj(B_b) by the common squared norm
    g = float(rs.gram_diag.max())
    return v * min(1.0 / rs.d, 1.0), v * max(1.0, g), _herm_defect(C), lam


def measure_gate(rs, hs):
    S = rs.superop_of_hs(hs)
    lo, hi, hd, lam = _cp_interval(rs, S)
    return {"eq": _tp_interval(rs, S), "ineq": (lo, hi), "herm": hd, "lam": lam}


def measure_mprocess(rs, hss):
    Ss = [rs.superop_of_hs(h) for h in hss]
    cps = [_cp_interval(rs, S) for S in Ss]
    return {"eq": _tp_interval(rs, sum(Ss)), "ineq": (max(c[0] for c in cps), max(c[1] for c in cps)),
            "herm": max(c[2] for c in cps), "lam": min(c[3] for c in cps)}


MEASURE = {"State": measure_state, "Povm": measure_povm, "Gate": measure_gate, "MProcess": measure_mprocess}


def expected(interval, atol):
    lo, hi = interval
    if hi <= atol / 10.0:
        return True
    if lo >= 10.0 * atol:
        return False
    return None


# ------------------------------------------------------------------ inputs: physical objects and one-constraint breaks

def _proj(v):
    return np.outer(v, v.conj())


def _generic_psi(d, seed):
    return R.generic_unitary(d, seed, salt=5)[:, 0]


def state_inputs(rs, rho, deltas, seed, deep):
    """yield (kind, delta, vec)"""
    d = rs.d
    yield "none", 0.0, rs.coeffs(rho)
    w, V = np.linalg.eigh((rho + rho.conj().T) / 2)
    P0, P1 = _proj(V[:, 0]), _proj(V[:, -1])
    Pm = _proj(V[:, 1]) if d > 2 else None
    for dl in deltas:
        yield "trace_scale+", dl, rs.coeffs(rho * (1 + dl))
        yield "trace_scale-", dl, rs.coeffs(rho * (1 - dl))
        yield "trace_shift+", dl, rs.coeffs(rho + dl * np.eye(d) / d)
        # smallest eigenvalue pushed to -delta, the weight moved to the top eigenvector (trace kept)
        yield "eig_push", dl, rs.coeffs(rho - (w[0] + dl) * P0 + (w[0] + dl) * P1)
        yield "eig_push_nocomp", dl, rs.coeffs(rho - (w[0] + dl) * P0)
        if deep and Pm is not None:
            yield "eig_push_mid", dl, rs.coeffs(rho - (w[1] + dl) * Pm + (w[1] + dl) * P1)


def povm_inputs(rs, Ms, deltas, seed, deep):
    d, m = rs.d, len(Ms)
    yield "none", 0.0, [rs.coeffs(M) for M in Ms]
    psi = _generic_psi(d, seed)
    Ppsi = _proj(psi)
    Off = np.zeros((d, d), dtype=np.complex128)
    Off[0, 1] = Off[1, 0] = 1.0
    OffI = np.zeros((d, d), dtype=np.complex128)
    OffI[0, d - 1] = -1j
    OffI[d - 1, 0] = 1j
    xs = list(range(m)) if deep else sorted({0, m - 1})
    for x in xs:
        w, V = np.linalg.eigh((Ms[x] + Ms[x].conj().T) / 2)
        P0 = _proj(V[:, 0])
        y = (x + 1) % m

        def repl(new_x, new_y=None):
            out = [np.array(M) for M in Ms]
            out[x] = new_x
            if new_y is not None:
                out[y] = new_y
            return [rs.coeffs(M) for M in out]

        for dl in deltas:
            yield "sum_scale+@%d" % x, dl, repl(Ms[x] * (1 + dl))
            yield "sum_scale-@%d" % x, dl, repl(Ms[x] * (1 - dl))
            yield "sum_proj+@%d" % x, dl, repl(Ms[x] + dl * Ppsi)
            yield "sum_diag+@%d" % x, dl, repl(Ms[x] + dl * np.eye(d))
            yield "sum_offdiag@%d" % x, dl, repl(Ms[x] + dl * Off)
            yield "sum_offdiag_imag@%d" % x, dl, repl(Ms[x] + dl * OffI)
            # smallest eigenvalue of element x pushed to -delta, compensated on element y (sum kept)
            yield "eig_push@%d" % x, dl, repl(Ms[x] - (w[0] + dl) * P0, Ms[y] + (w[0] + dl) * P0)
            yield "eig_push_nocomp@%d" % x, dl, repl(Ms[x] - (w[0] + dl) * P0)


def _cpadd(rs, seed):
    """superoperator of X -> Tr(|psi><psi| X) I/d (completely positive, not trace preserving)"""
    d = rs.d
    psi = _generic_psi(d, seed)
    ks = []
    for i in range(d):
        K = np.zeros((d, d), dtype=np.complex128)
        K[i, :] = psi.conj() / math.sqrt(d)
        ks.append(K)
    return rs.superop(ks)


def _choi_push(rs, S, dl):
    """(superop with smallest Choi eigenvalue at -delta, the rank-one Choi change)"""
    C = rs.reshuffle(S)
    w, V = np.linalg.eigh((C + C.conj().T) / 2)
    dC = -(w[0] + dl) * _proj(V[:, 0])
    return C + dC, dC


def _tp_fix(rs, C):
    """subtract I/d (x) (Tr_out C - I): the result is trace preserving"""
    d = rs.d
    pt = np.einsum("aiaj->ij", C.reshape(d, d, d, d))
    return C - np.kron(np.eye(d) / d, pt - np.eye(d))


def gate_inputs(rs, kraus, deltas, seed, deep):
    n = rs.n
    S = rs.superop(kraus)
    hs0 = rs.hs_of_superop(S)
    yield "none", 0.0, hs0
    Sadd = _cpadd(rs, seed)
    cols = list(range(n)) if deep else sorted({0, 1, n - 1})
    for dl in deltas:
        yield "tp_scale+", dl, rs.hs_of_superop(S * (1 + dl))
        yield "tp_scale-", dl, rs.hs_of_superop(S * (1 - dl))
        yield "tp_cpadd", dl, rs.hs_of_superop(S + dl * Sadd)
        for b in cols:
            for sgn in (1.0, -1.0):
                h = hs0.copy()
                h[0, b] += sgn * dl
                yield "row0%s:%d" % ("+" if sgn > 0 else "-", b), dl, h
        C1, _ = _choi_push(rs, S, dl)
        yield "choi_push_nocomp", dl, rs.hs_of_superop(rs.reshuffle(C1))
        yield "choi_push_tp", dl, rs.hs_of_superop(rs.reshuffle(_tp_fix(rs, C1)))


def mprocess_inputs(rs, inst, deltas, seed, deep):
    n, m = rs.n, len(inst)
    Ss = [rs.superop(ks) for ks in inst]
    hss0 = [rs.hs_of_superop(S) for S in Ss]
    yield "none", 0.0, [h.copy() for h in hss0]
    Sadd = _cpadd(rs, seed)
    xs = list(range(m)) if deep else sorted({0, m - 1})
    cols = list(range(n)) if deep else sorted({0, n - 1})
    for x in xs:
        y = (x + 1) % m

        def repl(hx, hy=None):
            out = [h.copy() for h in hss0]
            out[x] = hx
            if hy is not None:
                out[y] = hy
            return out

        for dl in deltas:
            yield "tp_scale+@%d" % x, dl, repl(rs.hs_of_superop(Ss[x] * (1 + dl)))
            yield "tp_scale-@%d" % x, dl, repl(rs.hs_of_superop(Ss[x] * (1 - dl)))
            yield "tp_cpadd@%d" % x, dl, repl(rs.hs_of_superop(Ss[x] + dl * Sadd))
            for b in cols:
                h = hss0[x].copy()
                h[0, b] += dl
                yield "row0+:%d@%d" % (b, x), dl, repl(h)
            C1, dC = _choi_push(rs, Ss[x], dl)
            Cy = rs.reshuffle(Ss[y]) - dC
            yield "choi_push@%d" % x, dl, repl(rs.hs_of_superop(rs.reshuffle(C1)), rs.hs_of_superop(rs.reshuffle(Cy)))
            yield "choi_push_nocomp@%d" % x, dl, repl(rs.hs_of_superop(rs.reshuffle(C1)))


INPUTS = {"State": state_inputs, "Povm": povm_inputs, "Gate": gate_inputs, "MProcess": mprocess_inputs}


def alphabet_of(typ, d, seed, ms):
    if typ == "State":
        return A.states_ref(d, seed)
    if typ == "Povm":
        return A.povms_ref(d, seed, ms=ms)
    if typ == "Gate":
        return A.gates_ref(d, seed)
    return A.instruments_ref(d, seed, ms=ms)
