"""C07 Tensor products and embeddings respect subsystem structure.

E1 over arrangements: (number of subsystems, their dimensions, argument order = permutation of
the subsystem names, binary grouping of the pairwise products, call form, operand types) is walked
completely inside the stated bounds.  Every binary step of every grouping runs the real
`tensor_product` and is compared with the reference: the Kronecker product of the factor
operators in ascending subsystem name.  The reference never looks at the argument order or at the
grouping, so agreement on all arrangements is independence of order and grouping.

The reference is evaluated twice, by two independent routes:
 (a) coefficients: the result's composite basis (read as data) must be the Kronecker product of the
     elemental bases in ascending name order and the result's coefficient arrays must be the
     Kronecker product of the factors' coefficient arrays in that order (bilinearity of (x));
 (b) dense operators (total dimension <= DENSE_MAX): the operator denoted by the result through its
     own basis is compared with numpy.kron of the factor density matrices / POVM elements, and for
     channels the superoperator with sum_K (K (x) conj K) over the products of the factor Kraus
     operators, i.e. the action on all product matrix units.
Outcome layouts are judged against the shape the result itself reports: every factor carries a
different outcome count, hence every reported axis identifies exactly one factor.

Families: state / povm / channel (gate, mprocess) / ensemble arrangements on generic factors, `pairs` (every
ordered pair of the named shared alphabet on two subsystems), `joint` (a non-product factor on two subsystems
times a factor on a third one, the three interleavings of the names; reference = tensor-axis transposition of
the dense Kronecker product), `basis` (MatrixBasis / SparseMatrixBasis sequences), `embed`, `embed2`.

Embedding (qutrit -> two qubits): the reference only knows the Born rule.  Statistics of embedded
states under embedded gates / measurement processes / POVMs are compared with the qutrit statistics,
physicality of every embedded object is re-derived from dense matrices.
"""
import itertools
import math
import re

import numpy as np

from mc import alphabet as A, refmodel as R
from mc.core import Out, inner

ID = "C07"
RULE = ("one evaluation = one (operand types by subsystem, dimensions by subsystem, argument order, grouping or "
        "call form) arrangement of tensor_product, or one (embedded object, partner object) statistic; distinct = "
        "distinct parameter tuples; non-trivial = at least two subsystems (tensor) / a non-empty statistic table (embed)")
ASSUMPTIONS = [
    "factors are fixed generic physical objects per (type, subsystem rank, dimension) plus every ordered pair of the "
    "shared named alphabet for two subsystems; tensor_product is multilinear in the factor coefficients, so a "
    "value-independent misplacement shows on generic factors (sensitivity of the oracle to order and axis swaps is guard-checked)",
    "cost wall of the implementation, not of the property: calc_permutation_matrix and CompositeSystem materialise "
    "dense prod(d_i^2)-square matrices, _tensor_product_hs_hs a dense (d1 d2)^2-square permutation; arrangements are "
    "bounded by prod(d_i^2) <= 1296 (states, POVMs, ensembles, bases; i.e. 4 subsystems with at most two qutrits) and HS "
    "dimension <= 81 (gates, measurement processes: three qubits, qubit x qutrit, qutrit x qutrit)",
    "elemental bases: normalised Pauli / Gell-Mann, and the normalised Hermitian basis (identity not first) for two "
    "(thorough: three) subsystems of states, POVMs and gates",
    "joint (non-product) factors on two subsystems are explored against one single-subsystem factor in all three "
    "interleavings of the names; otherwise multi-subsystem operands arise as intermediate products of the groupings",
    "outcome layouts are judged against the shape the result itself reports (any consistent axis order is accepted)",
    "embedding: one qutrit into two qubits for all four types (every 1-qutrit catalogue name + the shared alphabet); two "
    "qutrits into four qubits for states and POVMs in the thorough tier only",
]
BOUNDS = {
    "quick": "states, POVMs: 2-3 subsystems all dims in {2,3}, 4 subsystems with at most one qutrit (POVMs: 4 qubits), all name permutations, "
             "all binary groupings, varargs/list/mixed call forms; gates/measurement processes: 2 subsystems (2,2),(2,3),(3,2) "
             "all four type pairs, 3 qubits for the type patterns GGG MGM GMM MMM; ensembles: 2 subsystems all, 3 subsystems "
             "dims (2,2,2),(2,3,2) all 7 type patterns; bases: 2 factors over 7 bases, 3 factors over 4, 4 factors over 2, dense "
             "and sparse classes; named-alphabet ordered pairs (gate/mprocess partners limited for qubit x qutrit); joint "
             "factor x single factor in 3 interleavings; embedding of every 1-qutrit catalogue and alphabet object with "
             "statistics against all states x POVMs and two-step chains",
    "thorough": "as quick plus: states on 4 subsystems with two qutrits, POVMs on 4 subsystems with one qutrit, Hermitian-basis variant on 3 subsystems, qutrit x "
                "qutrit channels, all 8 three-qubit channel type patterns with the flat call forms, ensembles on 3 subsystems "
                "of all dims and on 4 qubits, bases 3 factors over 6 / 4 factors over 3, all named gate pairs for qubit x "
                "qutrit and limited partners for qutrit x qutrit, joint factors on two qutrits, 2-qutrit -> 4-qubit embedding "
                "of states and POVMs",
}
EXHAUSTIVE = {"quick": True, "thorough": True}
CASE_TIMEOUT = 900
CHUNK = 2

NAMES = (-4, 0, 12, 40)     # subsystem names by rank (ascending, not contiguous, not equal to positions; a negative name and the falsy name 0)
COUNTS = (2, 3, 4, 5)       # outcome counts / ensemble sizes by rank: pairwise different
ATOL = 1e-9
DENSE_MAX = 36              # dense operator cross-check up to this total dimension (states / POVMs)
DENSE_MAX_CH = 9            # ... for channels

_C = {}


# ------------------------------------------------------------------------------------------------
# systems and product bases (reference side: elemental bases are read as data only)
# ------------------------------------------------------------------------------------------------

def esys(rank, d, bv):
    key = ("esys", rank, d, bv)
    if key not in _C:
        from quara.objects.composite_system import CompositeSystem
        from quara.objects.elemental_system import ElementalSystem
        from quara.objects import matrix_basis as mb
        if bv == 0:
            basis = mb.get_normalized_pauli_basis() if d == 2 else mb.get_normalized_gell_mann_basis()
        else:
            basis = mb.get_normalized_hermitian_basis(d)
        e = ElementalSystem(NAMES[rank], basis)
        c = CompositeSystem([e])
        _C[key] = (e, c, R.basis_mats(c))
    return _C[key]


def prod_bflat(dims, bv):
    """reference product basis: rows = flattened kron_{ascending rank} B_r[a_r], multi-index row-major."""
    key = ("bflat", tuple(dims), bv)
    if key not in _C:
        cur = [np.ones((1, 1), dtype=np.complex128)]
        for r, d in enumerate(dims):
            Bl = esys(0, d, bv)[2]      # the basis depends on (d, bv) only
            cur = [np.kron(a, b) for a in cur for b in Bl]
        if len(_C) > 400:
            for k in [k for k in _C if k[0] == "bflat"]:
                del _C[k]
        _C[key] = np.array([m.ravel() for m in cur])
    return _C[key]


def impl_bflat(c_sys):
    from scipy import sparse
    rows = [sparse.csr_matrix(b).reshape(1, -1) for b in c_sys.basis()]
    return sparse.vstack(rows).toarray()


def sqrtm_psd(M):
    w, V = np.linalg.eigh((M + M.conj().T) / 2)
    return (V * np.sqrt(np.clip(w, 0, None))) @ V.conj().T


# ------------------------------------------------------------------------------------------------
# factors: reference data + the quara object built from it through the public constructors
# ------------------------------------------------------------------------------------------------

SPECTRA = {2: [[0.625, 0.375], [1.0, 0.0], [0.8125, 0.1875], [0.5625, 0.4375]],
           3: [[0.5, 0.3125, 0.1875], [1.0, 0.0, 0.0], [0.75, 0.25, 0.0], [0.4375, 0.375, 0.1875]]}


def ref_state(d, rank, seed, j=0):
    return R.hermitian_from(SPECTRA[d][(rank + j) % 4], R.generic_unitary(d, seed, salt=2 * rank + 1 + 5 * j))


def ref_povm(d, rank, seed):
    m = COUNTS[rank]
    if rank == 2:
        try:
            return A.povm_generic(d, m, seed, salt=7 * rank + 2, rank=1)
        except ValueError:
            pass
    return A.povm_generic(d, m, seed, salt=7 * rank + 2)


def ref_gate(d, rank, seed):
    if rank == 0:
        return A.isometry_blocks(d, 2, seed, salt=3)
    if rank == 1:
        return [R.generic_unitary(d, seed, salt=6)]
    if rank == 2:
        U = R.generic_unitary(d, seed, salt=4)
        return [U @ K @ U.conj().T for K in A.gates_ref(d, seed)["ampdamp"]]
    return A.isometry_blocks(d, 3, seed, salt=9)


def ref_instrument(d, rank, seed):
    m = COUNTS[rank]
    if rank % 2 == 0:
        P = A.povm_generic(d, m, seed, salt=31 + rank)
        return [[R.generic_unitary(d, seed, salt=x + 4 + rank) @ sqrtm_psd(M)] for x, M in enumerate(P)]
    blocks = A.isometry_blocks(d, 2 * m, seed, salt=41 + rank)
    return [blocks[2 * x:2 * x + 2] for x in range(m)]


def coef(M, B):
    return A.real_checked(R.coeffs(M, B), "factor")


class Fac:
    __slots__ = ("typ", "obj", "elems", "count", "dense", "probs", "rank", "d", "label")


def make_factor(ch, rank, d, bv, seed, named=None):
    """ch in S P G M E.  named: name of a shared-alphabet object instead of the generic one."""
    key = ("fac", ch, rank, d, bv, seed, named)
    if key in _C:
        return _C[key]
    from quara.objects.state import State
    from quara.objects.povm import Povm
    from quara.objects.gate import Gate
    from quara.objects.mprocess import MProcess
    from quara.objects.state_ensemble import StateEnsemble
    from quara.objects.multinomial_distribution import MultinomialDistribution
    e, c, B = esys(rank, d, bv)
    f = Fac()
    f.rank, f.d, f.label, f.probs, f.count = rank, d, named or "generic", None, None
    if ch == "S":
        rho = A.states_ref(d, seed)[named] if named else ref_state(d, rank, seed)
        f.typ, f.dense, f.elems = "state", [rho], [coef(rho, B)]
        f.obj = State(c, f.elems[0])
    elif ch == "E":
        k = COUNTS[rank]
        f.typ, f.count = "ensemble", k
        f.dense = [ref_state(d, rank, seed, j + 1) for j in range(k)]
        f.elems = [coef(r, B) for r in f.dense]
        w = np.array([j + 1.0 + rank for j in range(k)])
        f.probs = w / w.sum()
        f.obj = StateEnsemble([State(c, v) for v in f.elems], MultinomialDistribution(np.array(f.probs)))
    elif ch == "P":
        Ms = A.povms_ref(d, seed)[named] if named else ref_povm(d, rank, seed)
        f.typ, f.count, f.dense = "povm", len(Ms), Ms
        f.elems = [coef(M, B) for M in Ms]
        f.obj = Povm(c, f.elems)
    elif ch == "G":
        ks = A.gates_ref(d, seed)[named] if named else ref_gate(d, rank, seed)
        f.typ, f.dense = "gate", [ks]
        f.elems = [A.hs_of_kraus(c, ks)]
        f.obj = Gate(c, f.elems[0])
    elif ch == "M":
        inst = A.instruments_ref(d, seed)[named] if named else ref_instrument(d, rank, seed)
        f.typ, f.count, f.dense = "mprocess", len(inst), inst
        f.elems = [A.hs_of_kraus(c, ks) for ks in inst]
        f.obj = MProcess(c, f.elems)
    else:
        raise ValueError(ch)
    _C[key] = f
    return f


# ------------------------------------------------------------------------------------------------
# observation of a result, expectation for a set of factors
# ------------------------------------------------------------------------------------------------

def observe(obj):
    """-> (type label, reported shape, coefficient arrays in serial order, probabilities or None, composite systems)"""
    from quara.objects.state import State
    from quara.objects.povm import Povm
    from quara.objects.gate import Gate
    from quara.objects.mprocess import MProcess
    from quara.objects.state_ensemble import StateEnsemble
    t = type(obj)
    if t is State:
        return "state", (), [np.asarray(obj.vec)], None, [obj.composite_system]
    if t is Povm:
        return "povm", tuple(int(x) for x in obj.nums_local_outcomes), [np.asarray(v) for v in obj.vecs], None, [obj.composite_system]
    if t is Gate:
        return "gate", (), [np.asarray(obj.hs)], None, [obj.composite_system]
    if t is MProcess:
        return "mprocess", tuple(int(x) for x in obj.shape), [np.asarray(h) for h in obj.hss], None, [obj.composite_system]
    if t is StateEnsemble:
        return ("ensemble", tuple(int(x) for x in obj.prob_dist.shape), [np.asarray(s.vec) for s in obj.states],
                np.asarray(obj.prob_dist.ps, dtype=float), [s.composite_system for s in obj.states])
    return "other:" + t.__name__, (), [], None, []


def accessor(obj, typ, multi):
    """the library's own multi-index accessor: this is what 'the reported shape says'"""
    if typ == "povm":
        return np.asarray(obj.vec(tuple(multi))), None
    if typ == "mprocess":
        return np.asarray(obj.hs(tuple(multi))), None
    if typ == "ensemble":
        return np.asarray(obj.state(tuple(multi)).vec), float(obj.prob_dist[tuple(multi)])
    raise ValueError(typ)


def expected_type(facs):
    typs = {f.typ for f in facs}
    if typs <= {"state"}:
        return "state"
    if typs <= {"state", "ensemble"}:
        return "ensemble"
    if typs <= {"povm"}:
        return "povm"
    if typs <= {"gate"}:
        return "gate"
    if typs <= {"gate", "mprocess"}:
        return "mprocess"
    raise ValueError(typs)


def expected_tensor(facs):
    """facs in ascending rank.  -> (counts of outcome-bearing factors ascending, array[(x_ob...), *elem shape], probs or None)"""
    cur = [((), np.ones((1, 1)) if facs[0].elems[0].ndim == 2 else np.ones(1), 1.0)]
    for f in facs:
        new = []
        for multi, arr, p in cur:
            for x, e in enumerate(f.elems):
                new.append((multi + ((x,) if f.count is not None else ()), np.kron(arr, e),
                            p * (f.probs[x] if f.probs is not None else 1.0)))
        cur = new
    counts = tuple(f.count for f in facs if f.count is not None)
    arr = np.array([a for _, a, _ in cur])
    arr = arr.reshape(counts + arr.shape[1:])
    probs = np.array([p for _, _, p in cur]).reshape(counts) if any(f.probs is not None for f in facs) else None
    return counts, arr, probs


def slug(exc):
    words = re.findall(r"[A-Za-z]+", str(exc))[:4]
    return type(exc).__name__ + ("-" + "-".join(w.lower() for w in words) if words else "")


def match_permutation(impl, exp, tol):
    """is impl a re-ordering of exp (as lists of arrays)?"""
    if len(impl) != len(exp):
        return False
    used = set()
    for a in impl:
        hit = None
        for j, b in enumerate(exp):
            if j not in used and a.shape == b.shape and np.abs(a - b).max() <= tol:
                hit = j
                break
        if hit is None:
            return False
        used.add(hit)
    return True


def verify(out, obj, facs, where, cfg, dims_all, bv, final=False, mcfg=""):
    """judge one result against the reference for the factor set `facs` (ascending rank).
    where: '<call site>:<operand types>' ; cfg: configuration class for the sig.  Returns True iff everything agreed."""
    n0 = len(out.fails)
    lcfg = cfg + (":" + mcfg if mcfg else "")       # configuration class of outcome-layout failures
    typ, shape, elems, probs, csyss = observe(obj)
    want_typ = expected_type(facs)
    out.traces += 1
    if typ != want_typ:
        out.fail("%s:result-type:%s-instead-of-%s:%s" % (where, typ, want_typ, cfg), "got %s" % type(obj).__name__)
        return False
    ranks = [f.rank for f in facs]
    dims = [f.d for f in facs]
    # composite system: the factors' elemental systems, ascending name
    want_es = [esys(f.rank, f.d, bv)[0] for f in facs]
    for cs in csyss:
        got_es = list(cs.elemental_systems)
        if [e.name for e in got_es] != [NAMES[r] for r in ranks]:
            out.fail("%s:composite-system-order:%s" % (where, cfg), "names %r, wanted %r" % ([e.name for e in got_es], [NAMES[r] for r in ranks]))
            return False
        if not all(a is b for a, b in zip(got_es, want_es)):
            out.fail("%s:composite-system-identity:%s" % (where, cfg), "elemental systems are not the factors' instances")
            return False
    # the composite basis is the product basis (route (a), first half)
    Bref = prod_bflat(dims, bv)
    Bimp = impl_bflat(csyss[0])
    if Bimp.shape != Bref.shape or np.abs(Bimp - Bref).max() > 1e-12:
        out.fail("composite_system:product-basis:dims=%s" % ("x".join(map(str, dims))), "basis of the result is not kron of the elemental bases in ascending name")
        return False
    counts, exp, exp_p = expected_tensor(facs)
    nob = len(counts)
    if tuple(sorted(shape)) != tuple(sorted(counts)):
        out.fail("%s:reported-shape-not-factor-counts:%s" % (where, lcfg), "reported shape %r, factor outcome counts (ascending name) %r" % (shape, counts))
        return False
    # axis a of the reported shape belongs to the factor with that count (counts pairwise different)
    axis_src = [counts.index(m) for m in shape]
    exp_rep = np.transpose(exp, axis_src + list(range(nob, exp.ndim)))
    exp_list = list(exp_rep.reshape((-1,) + exp.shape[nob:]))
    scale = max(1.0, float(np.abs(exp).max()))
    tol = ATOL * scale
    flat = exp_rep.reshape((-1,) + exp.shape[nob:])
    if nob:
        out.count("layout_judged")
        if len(set(shape)) > 1:
            out.count("layout_judged_unequal_counts")
        if nob >= 2:
            # oracle sensitivity (vacuity): reading the axes in the reverse order gives a different list
            alt = np.transpose(exp_rep, list(reversed(range(nob))) + list(range(nob, exp.ndim))).reshape(flat.shape)
            if np.abs(alt - flat).max() > 1e-3:
                out.count("oracle_axis_sensitive")
    if len(elems) != len(exp_list) or any(a.shape != b.shape for a, b in zip(elems, exp_list)):
        out.fail("%s:result-size:%s" % (where, cfg), "%d elements of shape %r, wanted %d of %r" % (
            len(elems), elems[0].shape if elems else None, len(exp_list), exp_list[0].shape))
        return False
    err = max(float(np.abs(a - b).max()) for a, b in zip(elems, exp_list))
    if err > tol:
        if nob and match_permutation(elems, exp_list, tol):
            out.fail("%s:outcome-layout:%s" % (where, lcfg),
                     "elements are the right operators but not laid out as the reported shape %r says (factor counts ascending name %r); "
                     "first mismatch at serial index %d" % (shape, counts, next(i for i, (a, b) in enumerate(zip(elems, exp_list)) if np.abs(a - b).max() > tol)))
        else:
            out.fail("%s:wrong-operator:%s" % (where, cfg), "max coefficient deviation %.3e from kron of the factors in ascending name (dims %r)" % (err, dims))
        return False
    if probs is not None or exp_p is not None:
        ep = np.transpose(exp_p, axis_src).ravel()
        if probs is None or probs.shape != ep.shape or np.abs(probs - ep).max() > tol:
            out.fail("%s:ensemble-probabilities:%s" % (where, cfg), "got %r wanted %r" % (probs, ep))
            return False
    # multi-index accessors agree with the serial order
    if nob:
        for s, multi in enumerate(itertools.product(*[range(m) for m in shape])):
            ok, val = A.call(accessor, obj, typ, multi)
            out.ops += 1
            if not ok:
                out.fail("%s:accessor-raises:%s:%s" % (where, slug(val), cfg), "index %r: %s" % (multi, A.fmt_exc(val)))
                return False
            a, p = val
            if np.abs(a - exp_list[s]).max() > tol or (p is not None and abs(p - np.transpose(exp_p, axis_src).ravel()[s]) > tol):
                out.fail("%s:accessor-layout:%s" % (where, lcfg), "multi-index %r of shape %r does not return the product element" % (multi, shape))
                return False
    # route (b): dense operators
    D = int(np.prod(dims))
    if typ in ("state", "ensemble", "povm") and D <= DENSE_MAX:
        dense_exp = [np.ones((1, 1), dtype=np.complex128)]
        for f in facs:
            dense_exp = [np.kron(a, b) for a in dense_exp for b in f.dense]
        dense_exp = np.array([m.ravel() for m in dense_exp]).reshape(counts + (D * D,))
        dense_exp = np.transpose(dense_exp, axis_src + [nob]).reshape(-1, D * D)
        dense_imp = np.array(elems) @ Bimp
        out.count("dense_checks")
        if np.abs(dense_imp - dense_exp).max() > tol:
            out.fail("%s:dense-operator:%s" % (where, cfg), "operator denoted through the result's basis differs from numpy.kron of the factor operators by %.3e" % np.abs(dense_imp - dense_exp).max())
            return False
        if typ == "povm":
            # product statistics on the product of the generic states of the same ranks
            rhos = [ref_state(f.d, f.rank, 0) for f in facs]
            rho = rhos[0]
            for r_ in rhos[1:]:
                rho = np.kron(rho, r_)
            p_imp = np.array([np.trace(M.reshape(D, D) @ rho).real for M in dense_imp])
            locs = [R.born(f.dense, r_) for f, r_ in zip(facs, rhos)]
            p_exp = locs[0]
            for l_ in locs[1:]:
                p_exp = np.multiply.outer(p_exp, l_)
            p_exp = np.transpose(p_exp, axis_src).ravel()
            out.count("product_statistics")
            if np.abs(p_imp - p_exp).max() > tol or abs(p_imp.sum() - 1) > tol:
                out.fail("%s:product-statistics:%s" % (where, cfg), "p(x_A,x_B,..) != prod p_i, deviation %.3e" % np.abs(p_imp - p_exp).max())
                return False
    if typ in ("gate", "mprocess") and D <= DENSE_MAX_CH:
        T = Bimp.T                                   # columns = vec(B_k), row-major vec
        Ti = np.linalg.inv(T)
        ks_lists = [[[np.ones((1, 1), dtype=np.complex128)]]]
        for f in facs:
            ks_lists = [[np.kron(a, b) for a in cur for b in ks] for cur in ks_lists for ks in f.dense]
        S_exp = np.array([sum(np.kron(K, K.conj()) for K in ks) for ks in ks_lists]).reshape(counts + (D * D, D * D))
        S_exp = np.transpose(S_exp, axis_src + [nob, nob + 1]).reshape(-1, D * D, D * D)
        out.count("dense_checks")
        for s, h in enumerate(elems):
            S_imp = T @ h @ Ti
            # columns of S are the images of the product matrix units E_ij (x) E_kl (x) ..
            if np.abs(S_imp - S_exp[s]).max() > tol * 10:
                out.fail("%s:dense-action:%s" % (where, cfg), "action on product matrix units differs from the factor-wise action by %.3e (element %d)" % (np.abs(S_imp - S_exp[s]).max(), s))
                return False
    if final and len(facs) >= 2:
        # oracle sensitivity (vacuity): the reversed-order Kronecker product is a different array
        rev = expected_tensor(list(reversed(facs)))[1]
        rev = np.transpose(rev, list(reversed(range(nob))) + list(range(nob, rev.ndim)))
        if rev.shape != exp.shape or np.abs(rev - exp).max() > 1e-3:
            out.count("oracle_order_sensitive")
    return len(out.fails) == n0


# ------------------------------------------------------------------------------------------------
# arrangements
# ------------------------------------------------------------------------------------------------

def trees(lo, hi):
    if hi - lo == 1:
        return [lo]
    out = []
    for mid in range(lo + 1, hi):
        for L in trees(lo, mid):
            for Rr in trees(mid, hi):
                out.append((L, Rr))
    return out


def left_fold(n):
    t = 0
    for k in range(1, n):
        t = (t, k)
    return t


def shape_of(obj):
    _, shape, _, _, _ = observe(obj)
    return shape


def step_cfg(Lf, Rf, Lobj, Robj):
    names = [f.rank for f in Lf] + [f.rank for f in Rf]
    srt = "sorted" if names == sorted(names) else "unsorted"
    cfg = "n=%d+%d:%s" % (len(Lf), len(Rf), srt)
    ls, rs = shape_of(Lobj), shape_of(Robj)
    mcfg = "m=(%s)x(%s)" % (",".join(map(str, ls)), ",".join(map(str, rs))) if (ls or rs) else ""
    return cfg, srt, mcfg


def eval_tree(tree, leaves, memo, out, dims_all, bv):
    """bottom-up evaluation with a check after every binary step. Returns (obj, facs ascending) or None."""
    if isinstance(tree, int):
        f = leaves[tree]
        return f.obj, [f]
    key = repr(tree)
    if key in memo:
        return memo[key]
    from quara.objects.operators import tensor_product
    L = eval_tree(tree[0], leaves, memo, out, dims_all, bv)
    Rr = eval_tree(tree[1], leaves, memo, out, dims_all, bv)
    if L is None or Rr is None:
        memo[key] = None
        return None
    (Lobj, Lf), (Robj, Rf) = L, Rr
    lt, rt = observe(Lobj)[0], observe(Robj)[0]
    where = "tensor_product:%s_%s" % (lt, rt)
    cfg, srt, mcfg = step_cfg(Lf, Rf, Lobj, Robj)
    out.count("step:%s_%s" % (lt, rt))
    out.count("steps_" + srt)
    ok, val = A.call(tensor_product, Lobj, Robj)
    out.ops += 1
    if not ok:
        out.fail("%s:raises-%s:%s" % (where, slug(val), cfg), "dims(by name)=%r operands on names %r and %r: %s" % (
            dims_all, [NAMES[f.rank] for f in Lf], [NAMES[f.rank] for f in Rf], A.fmt_exc(val)))
        memo[key] = None
        return None
    facs = sorted(Lf + Rf, key=lambda f: f.rank)
    good = verify(out, val, facs, where, cfg, dims_all, bv, final=(len(facs) == len(leaves)), mcfg=mcfg)
    memo[key] = (val, facs) if good else None
    if good:
        out.count("steps_verified")
    return memo[key]


def ex_arrangement(p, seed):
    """one (pattern, dims, argument order): all groupings, then the flat call forms"""
    from quara.objects.operators import tensor_product
    out = Out()
    pat, dims, perm, bv = p["pat"], p["dims"], p["perm"], p.get("bv", 0)
    n = len(dims)
    facs_by_rank = [make_factor(pat[r], r, dims[r], bv, seed) for r in range(n)]
    leaves = [facs_by_rank[r] for r in perm]
    memo = {}
    n_eval = 0
    digs = []
    all_trees = trees(0, n)
    lf_ok = False
    for t in all_trees:
        res = eval_tree(t, leaves, memo, out, dims, bv)
        n_eval += 1
        if res is not None:
            digs.append(np.round(observe(res[0])[2][0], 9))
            if t == left_fold(n):
                lf_ok = True
    if n >= 4:
        out.count("n4_arrangements", len(all_trees))
    if perm != sorted(perm):
        out.count("unsorted_arrangements", len(all_trees))
    # flat call forms are the left fold: judged when the explicit left fold was right
    if lf_ok and n >= 3 and p.get("flat", True):
        objs = [f.obj for f in leaves]
        forms = {"varargs": lambda: tensor_product(*objs), "list": lambda: tensor_product(list(objs)),
                 "mixed": lambda: tensor_product(objs[0], list(objs[1:]))}
        facs = sorted(leaves, key=lambda f: f.rank)
        for name, fn in forms.items():
            ok, val = A.call(fn)
            out.ops += 1
            n_eval += 1
            srt = "sorted" if perm == sorted(perm) else "unsorted"
            cfg = "n=%d:%s" % (n, srt)
            where = "tensor_product:flat-%s:%s" % (name, expected_type(facs))
            if not ok:
                out.fail("%s:raises-%s:%s" % (where, slug(val), cfg), A.fmt_exc(val))
            else:
                verify(out, val, facs, where, cfg, dims, bv)
                out.count("flat_forms")
    inner(out, n_eval - 1)
    out.nontrivial = n >= 2
    out.outcome = "n=%d:%s" % (n, "ok" if not out.fails else "fail")
    if digs:
        out.digest = A.digest(*digs)
    return out


# ---- named alphabet pairs (two subsystems, every ordered pair, both argument orders) ----------------

def alphabet_names(kind, d, seed):
    if kind == "S":
        return list(A.states_ref(d, seed))
    if kind == "P":
        return list(A.povms_ref(d, seed))
    if kind == "G":
        return list(A.gates_ref(d, seed))
    return list(A.instruments_ref(d, seed))


def ex_pairs(p, seed):
    from quara.objects.operators import tensor_product
    out = Out()
    kind, dims, a, bv = p["kind"], p["dims"], p["a"], 0
    fa = make_factor(kind, 0, dims[0], bv, seed, named=a)
    n_eval = 0
    for b in p["partners"]:
        fb = make_factor(kind, 1, dims[1], bv, seed, named=b)
        if fa.count is not None and fa.count == fb.count:
            out.count("pairs_skipped_equal_counts")
            continue
        for order in ((0, 1), (1, 0)):
            leaves = [(fa, fb)[i] for i in order]
            res = eval_tree((0, 1), leaves, {}, out, dims, bv)
            n_eval += 1
            out.count("pairs_judged")
    inner(out, max(0, n_eval - 1))
    out.nontrivial = n_eval > 0
    out.outcome = "pairs:%s" % ("ok" if not out.fails else "fail")
    return out


# ---- joint (non-product) factor on two subsystems x factor on a third, names interleaved ----------------

JOINT_COUNT = 5      # outcome count of the joint POVM / instrument: different from COUNTS[0..2]
JOINT_SPECTRA = {4: [0.4, 0.3, 0.2, 0.1], 6: [0.3, 0.25, 0.2, 0.15, 0.07, 0.03], 9: [0.2, 0.18, 0.16, 0.14, 0.11, 0.09, 0.06, 0.04, 0.02]}


def permute_op(X, cur, dimmap):
    """operator on subsystems listed in the order `cur` (ranks) -> the same operator with subsystems ascending"""
    ds = [dimmap[r] for r in cur]
    n = len(cur)
    T = np.asarray(X).reshape(ds + ds)
    order = sorted(range(n), key=lambda a: cur[a])
    T = T.transpose(order + [n + a for a in order])
    D = int(np.prod(ds))
    return T.reshape(D, D)


def ex_joint(p, seed):
    from quara.objects.operators import tensor_product
    from quara.objects.composite_system import CompositeSystem
    out = Out()
    kind, jd, sd, place = p["kind"], p["jd"], p["sd"], p["place"]
    jr = [(1, 2), (0, 2), (0, 1)][place]
    sr = [0, 1, 2][place]
    dimmap = {jr[0]: jd[0], jr[1]: jd[1], sr: sd}
    dims = [dimmap[r] for r in range(3)]
    DJ = jd[0] * jd[1]
    cJ = CompositeSystem([esys(jr[0], jd[0], 0)[0], esys(jr[1], jd[1], 0)[0]])
    single = make_factor(kind, sr, sd, 0, seed)
    # the joint factor: reference data (dense) + quara object through the public constructor
    if kind == "S":
        ops_J = [R.hermitian_from(JOINT_SPECTRA[DJ], R.generic_unitary(DJ, seed, salt=2))]
        obj_J = A.q_state(cJ, ops_J[0])
        ops_S = single.dense
    elif kind == "P":
        ops_J = A.povm_generic(DJ, JOINT_COUNT, seed, salt=13)
        obj_J = A.q_povm(cJ, ops_J)
        ops_S = single.dense
    elif kind == "G":
        ops_J = [A.isometry_blocks(DJ, 2, seed, salt=17)]
        obj_J = A.q_gate(cJ, ops_J[0])
        ops_S = single.dense
    else:
        P = A.povm_generic(DJ, JOINT_COUNT, seed, salt=19)
        ops_J = [[R.generic_unitary(DJ, seed, salt=x + 1) @ sqrtm_psd(M)] for x, M in enumerate(P)]
        obj_J = A.q_mprocess(cJ, ops_J)
        ops_S = single.dense
    cJ_count = None if kind in "SG" else JOINT_COUNT
    counts_by_name = []     # outcome counts in the order (joint, single)
    D = int(np.prod(dims))
    cur = [jr[0], jr[1], sr]
    if kind in "SP":
        exp = np.array([[permute_op(np.kron(a, b), cur, dimmap).ravel() for b in ops_S] for a in ops_J])
    else:
        exp = np.array([[sum(np.kron(K, K.conj()) for K in [permute_op(np.kron(ka, kb), cur, dimmap) for ka in a for kb in b]).ravel()
                         for b in ops_S] for a in ops_J])
    # exp[x_joint, x_single, :]
    typ_name = {"S": "state", "P": "povm", "G": "gate", "M": "mprocess"}[kind]
    want_es = [esys(r, dimmap[r], 0)[0] for r in range(3)]
    n_eval = 0
    for order in ("JS", "SJ"):
        ops = (obj_J, single.obj) if order == "JS" else (single.obj, obj_J)
        names = ([NAMES[r] for r in jr] + [NAMES[sr]]) if order == "JS" else ([NAMES[sr]] + [NAMES[r] for r in jr])
        srt = "sorted" if names == sorted(names) else "unsorted"
        cfg = "joint-%s:n=%s:%s" % ("left" if order == "JS" else "right", "2+1" if order == "JS" else "1+2", srt)
        where = "tensor_product:%s_%s" % (typ_name, typ_name)
        ok, val = A.call(tensor_product, *ops)
        out.ops += 1
        n_eval += 1
        out.count("joint_judged")
        if srt == "unsorted":
            out.count("joint_interleaved")
        if not ok:
            out.fail("%s:raises-%s:%s" % (where, slug(val), cfg), "joint factor on names %r, single on %r, dims(by name) %r: %s" % (
                [NAMES[r] for r in jr], NAMES[sr], dims, A.fmt_exc(val)))
            continue
        typ, shape, elems, _, csyss = observe(val)
        out.traces += 1
        if typ != typ_name:
            out.fail("%s:result-type:%s" % (where, cfg), "got %s" % typ)
            continue
        got_es = list(csyss[0].elemental_systems)
        if len(got_es) != 3 or not all(a is b for a, b in zip(got_es, want_es)):
            out.fail("%s:composite-system-order:%s" % (where, cfg), "names %r" % [e.name for e in got_es])
            continue
        Bimp = impl_bflat(csyss[0])
        Bref = prod_bflat(dims, 0)
        if Bimp.shape != Bref.shape or np.abs(Bimp - Bref).max() > 1e-12:
            out.fail("composite_system:product-basis:dims=%s" % ("x".join(map(str, dims))), "basis of the result is not the product basis")
            continue
        counts = tuple(c for c in (cJ_count, single.count) if c is not None)
        if tuple(sorted(shape)) != tuple(sorted(counts)):
            out.fail("%s:reported-shape-not-factor-counts:%s" % (where, cfg), "reported %r, factors (joint, single) %r" % (shape, counts))
            continue
        e = exp.reshape(tuple(c if c is not None else 1 for c in (cJ_count, single.count)) + (-1,))
        e = e.reshape(counts + (e.shape[-1],))
        axis_src = [counts.index(m) for m in shape]
        e = np.transpose(e, axis_src + [len(counts)]).reshape(-1, e.shape[-1])
        if kind in "SP":
            got = np.array(elems) @ Bimp
        else:
            T = Bimp.T
            Ti = np.linalg.inv(T)
            got = np.array([(T @ h @ Ti).ravel() for h in elems])
        if got.shape != e.shape:
            out.fail("%s:result-size:%s" % (where, cfg), "%r instead of %r" % (got.shape, e.shape))
            continue
        err = float(np.abs(got - e).max())
        if err > ATOL * 10:
            lay = len(counts) >= 1 and match_permutation(list(got), list(e), ATOL * 10)
            out.fail("%s:%s:%s" % (where, "outcome-layout" if lay else "wrong-operator", cfg),
                     "dense operator differs from the re-ordered Kronecker product by %.3e (dims by name %r)" % (err, dims))
            continue
        out.count("joint_verified")
    inner(out, n_eval - 1)
    out.outcome = "joint:%s" % ("ok" if not out.fails else "fail")
    return out


# ---- matrix bases -------------------------------------------------------------------------------------

BASIS_KINDS = {"pauli": 2, "npauli": 2, "comp2": 2, "herm2": 2, "gm": 3, "ngm": 3, "comp3": 3}


def get_basis(kind, cls):
    key = ("mb", kind, cls)
    if key not in _C:
        from quara.objects import matrix_basis as mb
        b = {"pauli": mb.get_pauli_basis, "npauli": mb.get_normalized_pauli_basis, "comp2": lambda: mb.get_comp_basis(2),
             "herm2": lambda: mb.get_normalized_hermitian_basis(2), "gm": mb.get_gell_mann_basis,
             "ngm": mb.get_normalized_gell_mann_basis, "comp3": lambda: mb.get_comp_basis(3)}[kind]()
        dense = [R.dense(x) for x in b]
        if cls == "sparse":
            b = mb.SparseMatrixBasis(list(b.basis))
        elif type(b) is not mb.MatrixBasis:
            b = mb.MatrixBasis(list(b.basis))
        _C[key] = (b, dense)
    return _C[key]


def ex_basis(p, seed):
    from quara.objects.operators import tensor_product
    from quara.objects import matrix_basis as mb
    out = Out()
    seq, cls = p["seq"], p["cls"]
    n = len(seq)
    want_cls = mb.SparseMatrixBasis if cls == "sparse" else mb.MatrixBasis
    leaves = [get_basis(k, cls) for k in seq]
    memo = {}

    def ev(tree):
        if isinstance(tree, int):
            return leaves[tree]
        key = repr(tree)
        if key in memo:
            return memo[key]
        L, Rr = ev(tree[0]), ev(tree[1])
        if L is None or Rr is None:
            memo[key] = None
            return None
        out.count("step:basis_%s" % cls)
        ok, val = A.call(tensor_product, L[0], Rr[0])
        out.ops += 1
        cfg = "cls=%s:n=%d" % (cls, n)
        if not ok:
            out.fail("tensor_product:basis_basis:raises-%s:%s" % (slug(val), cfg), "%r: %s" % (seq, A.fmt_exc(val)))
            memo[key] = None
            return None
        dense = [np.kron(a, b) for a in L[1] for b in Rr[1]]
        good = check_basis(val, dense, "tensor_product:basis_basis", cfg)
        memo[key] = (val, dense) if good else None
        return memo[key]

    def check_basis(val, dense, where, cfg):
        out.traces += 1
        if type(val) is not want_cls:
            out.fail("%s:result-type:%s" % (where, cfg), "got %s" % type(val).__name__)
            return False
        got = [R.dense(x) for x in val]
        if len(got) != len(dense) or got[0].shape != dense[0].shape:
            out.fail("%s:result-size:%s" % (where, cfg), "%d elements %r, wanted %d %r" % (len(got), got[0].shape, len(dense), dense[0].shape))
            return False
        err = np.abs(np.array(got) - np.array(dense)).max()
        if err > 1e-12:
            kind = "element-order" if match_permutation(got, dense, 1e-12) else "wrong-element"
            out.fail("%s:%s:%s" % (where, kind, cfg), "%r: element (i,j,..) is not kron(B1_i, B2_j, ..) row-major; deviation %.3e" % (seq, err))
            return False
        out.count("basis_verified")
        return True

    n_eval = 0
    lf = None
    for t in trees(0, n):
        r = ev(t)
        n_eval += 1
        if t == left_fold(n):
            lf = r
    if lf is not None and n >= 3:
        objs = [b for b, _ in leaves]
        for name, fn in (("varargs", lambda: tensor_product(*objs)), ("list", lambda: tensor_product(list(objs)))):
            ok, val = A.call(fn)
            out.ops += 1
            n_eval += 1
            cfg = "cls=%s:n=%d" % (cls, n)
            if not ok:
                out.fail("tensor_product:flat-%s:basis:raises-%s:%s" % (name, slug(val), cfg), A.fmt_exc(val))
            else:
                check_basis(val, lf[1], "tensor_product:flat-%s:basis" % name, cfg)
    # kron(B1,B2) != kron(B2,B1) for this sequence?  (oracle sensitivity)
    if n == 2 and seq[0] != seq[1]:
        a, b = leaves[0][1], leaves[1][1]
        x = np.array([np.kron(u, v) for u in a for v in b])
        y = np.array([np.kron(v, u) for v in b for u in a])
        if x.shape != y.shape or np.abs(x - y).max() > 1e-3:
            out.count("oracle_order_sensitive")
    inner(out, n_eval - 1)
    out.outcome = "basis:n=%d:%s" % (n, "ok" if not out.fails else "fail")
    return out


# ------------------------------------------------------------------------------------------------
# embedding qutrit -> two qubits
# ------------------------------------------------------------------------------------------------

WEAK = (1e-6, 1e-9, 1e-11)


def emb_systems():
    key = ("embsys",)
    if key not in _C:
        from quara.objects.composite_system import CompositeSystem
        from quara.objects.elemental_system import ElementalSystem
        from quara.objects import matrix_basis as mb
        e3 = [ElementalSystem(NAMES[1], mb.get_normalized_gell_mann_basis()), ElementalSystem(NAMES[3], mb.get_normalized_gell_mann_basis())]
        c3 = CompositeSystem([e3[0]])
        c33 = CompositeSystem(e3)
        eq = [ElementalSystem(nm, mb.get_normalized_pauli_basis()) for nm in (2, 7, 11, 30)]
        _C[key] = (e3, c3, c33, eq)
    return _C[key]


def emb_inputs(kind, seed):
    """list of (label, quara qutrit object)"""
    key = ("embin", kind, seed)
    if key in _C:
        return _C[key]
    from quara.objects import state_typical, povm_typical, gate_typical, mprocess_typical
    _, c3, _, _ = emb_systems()
    res = []
    if kind == "state":
        for k, v in A.states_ref(3, seed).items():
            res.append(("alphabet:" + k, A.q_state(c3, v)))
        for nm in state_typical.get_state_names_1qutrit():
            res.append(("catalogue:" + nm, state_typical.generate_state_from_name(c3, nm)))
    elif kind == "povm":
        for k, v in A.povms_ref(3, seed).items():
            res.append(("alphabet:" + k, A.q_povm(c3, v)))
        for nm in povm_typical.get_povm_names_1qutrit():
            res.append(("catalogue:" + nm, povm_typical.generate_povm_from_name(nm, c3)))
    elif kind == "gate":
        for k, v in A.gates_ref(3, seed).items():
            res.append(("alphabet:" + k, A.q_gate(c3, v)))
        for nm in gate_typical.get_gate_names_1qutrit():
            res.append(("catalogue:" + nm, gate_typical.generate_gate_from_gate_name(nm, c3)))
        g3 = A.gates_ref(3, seed)
        for pw in WEAK:
            # a unitary with a weak admixture of a second channel: Choi eigenvalues of size p (far above rounding, far below 1)
            res.append(("weak:%g" % pw, A.q_gate(c3, [np.sqrt(1 - pw) * K for K in g3["unitary_generic"]] + [np.sqrt(pw) * K for K in g3["ampdamp"]])))
    elif kind == "mprocess":
        for k, v in A.instruments_ref(3, seed).items():
            res.append(("alphabet:" + k, A.q_mprocess(c3, v)))
        for nm in mprocess_typical.get_mprocess_names_type1() + mprocess_typical.get_mprocess_names_type2():
            if nm.startswith("z3") or nm.startswith("z2"):
                res.append(("catalogue:" + nm, mprocess_typical.generate_mprocess_from_name(c3, nm)))
    _C[key] = res
    return res


def emb_labels(kind, seed):
    from quara.objects import state_typical, povm_typical, gate_typical, mprocess_typical
    if kind == "state":
        return ["alphabet:" + k for k in A.states_ref(3, seed)] + ["catalogue:" + k for k in state_typical.get_state_names_1qutrit()]
    if kind == "povm":
        return ["alphabet:" + k for k in A.povms_ref(3, seed)] + ["catalogue:" + k for k in povm_typical.get_povm_names_1qutrit()]
    if kind == "gate":
        return ["alphabet:" + k for k in A.gates_ref(3, seed)] + ["catalogue:" + k for k in gate_typical.get_gate_names_1qutrit()] + [
            "weak:%g" % pw for pw in WEAK]
    return ["alphabet:" + k for k in A.instruments_ref(3, seed)] + [
        "catalogue:" + k for k in mprocess_typical.get_mprocess_names_type1() + mprocess_typical.get_mprocess_names_type2()
        if k.startswith("z3") or k.startswith("z2")]


class Dense:
    """dense reading of a quara object through its composite basis as data"""

    def __init__(self, obj):
        typ, shape, elems, _, csyss = observe(obj)
        self.typ, self.shape = typ, shape
        Bf = impl_bflat(csyss[0])
        D = int(round(math.sqrt(Bf.shape[1])))
        self.D = D
        if typ in ("state", "povm"):
            self.mats = [(np.asarray(e) @ Bf).reshape(D, D) for e in elems]
        else:
            T = Bf.T
            Ti = np.linalg.inv(T)
            self.sups = [T @ e @ Ti for e in elems]     # row-major vec superoperators

    def apply(self, k, rho):
        return (self.sups[k] @ rho.reshape(-1)).reshape(self.D, self.D)


def choi_of_sup(S, D):
    C = np.zeros((D * D, D * D), dtype=np.complex128)
    for i in range(D):
        for j in range(D):
            E = np.zeros((D, D), dtype=np.complex128)
            E[i, j] = 1
            C = C + np.kron((S @ E.reshape(-1)).reshape(D, D), E)
    return C


def tp_defect_sup(S, D):
    worst = 0.0
    for i in range(D):
        for j in range(D):
            E = np.zeros((D, D), dtype=np.complex128)
            E[i, j] = 1
            worst = max(worst, abs(np.trace((S @ E.reshape(-1)).reshape(D, D)) - (1.0 if i == j else 0.0)))
    return worst


def physical_defects(dn, tol=None):
    """reference-side physicality of a dense reading: list of (what, size)"""
    bad = []
    D = dn.D
    if dn.typ == "state":
        rho = dn.mats[0]
        bad += [("hermitian", R.herm_defect(rho)), ("trace-one", abs(np.trace(rho) - 1)), ("positive", max(0.0, -R.min_eig(rho)))]
    elif dn.typ == "povm":
        bad += [("hermitian", max(R.herm_defect(M) for M in dn.mats)), ("positive", max(max(0.0, -R.min_eig(M)) for M in dn.mats)),
                ("identity-sum", float(np.abs(sum(dn.mats) - np.eye(D)).max()))]
    else:
        bad += [("completely-positive", max(max(0.0, -R.min_eig(choi_of_sup(S, D))) for S in dn.sups)),
                ("trace-preserving", tp_defect_sup(sum(dn.sups), D))]
    return [(w, float(v)) for w, v in bad if v > ATOL]


def embed(obj, order, n_qutrits=1):
    from quara.objects.qoperation import QOperation
    _, _, _, eq = emb_systems()
    es = list(eq[:2 * n_qutrits])
    if order == 1:
        es = list(reversed(es))
    elif order == 2:
        es = [es[1], es[0]] + es[2:]
    return A.call(QOperation.embed_qoperation_from_qutrits_to_qubits, obj, es), sorted(es, key=lambda e: e.name)


def emb_cached(kind, label, order, seed):
    """embedded partner objects (dense readings), cached per worker"""
    key = ("embdense", kind, label, order, seed)
    if key not in _C:
        obj = dict(emb_inputs(kind, seed))[label]
        (ok, val), _ = embed(obj, order)
        _C[key] = (Dense(obj), Dense(val) if ok else None)
    return _C[key]


PARTNER_GATES = ["alphabet:unitary_generic", "alphabet:ampdamp"]


def ex_embed(p, seed):
    out = Out()
    kind, label, order = p["kind"], p["label"], p["order"]
    obj = dict(emb_inputs(kind, seed))[label]
    (ok, emb), want_es = embed(obj, order)
    out.ops += 1
    site = "embed_qoperation_from_qutrits_to_qubits:%s" % kind
    src = label.split(":")[0]
    if not ok:
        out.fail("%s:raises-%s:%s" % (site, slug(emb), src), "%s: %s" % (label, A.fmt_exc(emb)))
        out.outcome = "embed:fail"
        return out
    out.count("emb_objects_" + kind)
    if type(emb) is not type(obj):
        out.fail("%s:result-type:%s" % (site, src), "%s -> %s" % (type(obj).__name__, type(emb).__name__))
        return out
    got_es = list(emb.composite_system.elemental_systems)
    if len(got_es) != len(want_es) or not all(a is b for a, b in zip(got_es, want_es)):
        out.fail("%s:composite-system:%s" % (site, src), "names %r" % [e.name for e in got_es])
        return out
    d_in, d_emb = Dense(obj), Dense(emb)
    if d_emb.shape != d_in.shape:
        out.fail("%s:outcome-shape:%s" % (site, src), "%r -> %r" % (d_in.shape, d_emb.shape))
        return out
    # preconditions of the statement: the input is physical (reference side)
    if physical_defects(d_in):
        raise AssertionError("harness: unphysical embedding input %s %r" % (label, physical_defects(d_in)))
    out.traces += 1
    # a weak admixture is exact algebra too: its embedding is physical to rounding accuracy, not merely to ATOL
    for what, size in physical_defects(d_emb, 1e-13 if src == "weak" else None):
        out.fail("%s:physicality:%s:%s" % (site, what, src), "%s embedded is not %s (defect %.3e)" % (label, what, size))
    okp, phys = A.call(emb.is_physical)
    if okp and not phys and not physical_defects(d_emb):
        out.count("emb_lib_verdict_differs")
    # statistics
    n_stat = 0
    worst = 0.0
    failed_tags = set()

    def compare(p_in, p_emb, tag, partners):
        nonlocal n_stat, worst
        n_stat += 1
        p_in, p_emb = np.asarray(p_in).real, np.asarray(p_emb).real
        dev = float(np.abs(p_in - p_emb).max())
        worst = max(worst, dev)
        if abs(p_in.sum() - 1) > 1e-9:
            raise AssertionError("harness: reference statistics do not sum to one")
        if dev > ATOL:
            out.count("emb_stats_deviating")
            if tag not in failed_tags:          # one report per (case, chain shape); the counter has the total
                failed_tags.add(tag)
                out.fail("%s:statistics:%s:%s" % (site, tag, src), "%s with %s: qutrit %r embedded %r" % (label, partners, np.round(p_in, 6), np.round(p_emb, 6)))
        if p_in.max() < 1 - 1e-6:
            out.count("emb_stats_nondeterministic")

    states = [l for l in emb_labels("state", seed)]
    povms = [l for l in emb_labels("povm", seed)]
    if kind == "state":
        for pl in povms:
            pin, pem = emb_cached("povm", pl, 0, seed)
            if pem is None:
                continue
            compare([np.trace(M @ d_in.mats[0]) for M in pin.mats], [np.trace(M @ d_emb.mats[0]) for M in pem.mats], "state-povm", pl)
    elif kind == "povm":
        for sl in states:
            sin, sem = emb_cached("state", sl, 0, seed)
            if sem is None:
                continue
            compare([np.trace(M @ sin.mats[0]) for M in d_in.mats], [np.trace(M @ sem.mats[0]) for M in d_emb.mats], "state-povm", sl)
    else:
        partner_g = [emb_cached("gate", gl, 0, seed) for gl in PARTNER_GATES]
        for sl in states:
            sin, sem = emb_cached("state", sl, 0, seed)
            if sem is None:
                continue
            for pl in povms:
                pin, pem = emb_cached("povm", pl, 0, seed)
                if pem is None:
                    continue
                # joint distribution p(x, y): x outcome of this operation (one for a gate), y of the POVM
                j_in = [[np.trace(M @ d_in.apply(k, sin.mats[0])) for M in pin.mats] for k in range(len(d_in.sups))]
                j_em = [[np.trace(M @ d_emb.apply(k, sem.mats[0])) for M in pem.mats] for k in range(len(d_emb.sups))]
                compare(np.array(j_in).ravel(), np.array(j_em).ravel(), "state-%s-povm" % kind, (sl, pl))
            # two-step chains with the partner gates, before and after, measured by the first and the last POVM
            for (gin, gem), gl in zip(partner_g, PARTNER_GATES):
                if gem is None:
                    continue
                for pl in (povms[0], povms[-1]):
                    pin, pem = emb_cached("povm", pl, 0, seed)
                    if pem is None:
                        continue
                    j_in = [[np.trace(M @ gin.apply(0, d_in.apply(k, sin.mats[0]))) for M in pin.mats] for k in range(len(d_in.sups))]
                    j_em = [[np.trace(M @ gem.apply(0, d_emb.apply(k, sem.mats[0]))) for M in pem.mats] for k in range(len(d_emb.sups))]
                    compare(np.array(j_in).ravel(), np.array(j_em).ravel(), "state-%s-gate-povm" % kind, (sl, gl, pl))
                    j_in = [[np.trace(M @ d_in.apply(k, gin.apply(0, sin.mats[0]))) for M in pin.mats] for k in range(len(d_in.sups))]
                    j_em = [[np.trace(M @ d_emb.apply(k, gem.apply(0, sem.mats[0]))) for M in pem.mats] for k in range(len(d_emb.sups))]
                    compare(np.array(j_in).ravel(), np.array(j_em).ravel(), "state-gate-%s-povm" % kind, (sl, gl, pl))
    out.traces += n_stat
    out.count("emb_stats", n_stat)
    inner(out, n_stat, n_stat)
    out.nontrivial = n_stat > 0
    out.outcome = "embed:%s:%s" % (kind, "ok" if not out.fails else "fail")
    out.digest = A.digest(*(observe(emb)[2]))
    return out


def ex_embed2(p, seed):
    """two qutrits -> four qubits: product and entangled states against product POVMs (thorough tier)"""
    from quara.objects.operators import tensor_product
    from quara.objects import state_typical
    out = Out()
    e3, c3, c33, eq = emb_systems()
    from quara.objects.composite_system import CompositeSystem
    cB = CompositeSystem([e3[1]])
    sref, pref = A.states_ref(3, seed), A.povms_ref(3, seed)
    site = "embed_qoperation_from_qutrits_to_qubits:2-qutrit"

    def prod_state(a, b):
        return A.q_state(c33, np.kron(sref[a], sref[b]))

    def prod_povm(a, b):
        return A.q_povm(c33, [np.kron(x, y) for x in pref[a] for y in pref[b]])

    if p["what"] == "state":
        if p["a"] == "catalogue":
            obj = state_typical.generate_state_from_name(c33, "00_11_22_superposition")
        elif p["a"] == "mixture":
            obj = A.q_state(c33, 0.5 * np.kron(sref["pure_generic"], sref["z0"]) + 0.5 * np.kron(sref["z0"], sref["pure_fourier"]))
        else:
            obj = prod_state(p["a"], p["b"])
        partners = [prod_povm(a, b) for a, b in (("generic_m2", "comp_m3"), ("projective_m3", "generic_m2"))]
    else:
        obj = prod_povm(p["a"], p["b"])
        partners = [prod_state("pure_generic", "mixed_generic"), state_typical.generate_state_from_name(c33, "00_11_22_superposition"),
                    prod_state("boundary_generic", "pure_fourier")]
    n_stat = 0
    for order in (0, 1, 2):
        (ok, emb), want_es = embed(obj, order, 2)
        out.ops += 1
        if not ok:
            out.fail("%s:%s:raises-%s" % (site, p["what"], slug(emb)), A.fmt_exc(emb))
            continue
        d_in, d_emb = Dense(obj), Dense(emb)
        for what, size in physical_defects(d_emb):
            out.fail("%s:%s:physicality:%s" % (site, p["what"], what), "defect %.3e" % size)
        for q in partners:
            (ok2, qe), _ = embed(q, 0, 2)
            out.ops += 1
            if not ok2:
                out.fail("%s:partner:raises-%s" % (site, slug(qe)), A.fmt_exc(qe))
                continue
            q_in, q_emb = Dense(q), Dense(qe)
            s_in, s_em, m_in, m_em = (d_in, d_emb, q_in, q_emb) if p["what"] == "state" else (q_in, q_emb, d_in, d_emb)
            pi = np.array([np.trace(M @ s_in.mats[0]).real for M in m_in.mats])
            pe = np.array([np.trace(M @ s_em.mats[0]).real for M in m_em.mats])
            n_stat += 1
            if pi.shape != pe.shape or np.abs(pi - pe).max() > ATOL:
                out.fail("%s:%s:statistics" % (site, p["what"]), "qutrit %r embedded %r" % (np.round(pi, 6), np.round(pe, 6)))
    out.traces += n_stat
    out.count("emb2_stats", n_stat)
    inner(out, n_stat, n_stat)
    out.outcome = "embed2:%s" % ("ok" if not out.fails else "fail")
    return out


# ------------------------------------------------------------------------------------------------
# enumeration
# ------------------------------------------------------------------------------------------------

def n_qutrits(dims):
    return sum(1 for d in dims if d == 3)


def arrangements(pats_by_n, dims_filter, bvs=(0,)):
    cases = []
    for n in sorted(pats_by_n):
        for dims in itertools.product((2, 3), repeat=n):
            if not dims_filter(n, dims):
                continue
            for pat in pats_by_n[n]:
                for perm in itertools.permutations(range(n)):
                    for bv in bvs:
                        cases.append({"pat": pat, "dims": list(dims), "perm": list(perm), "bv": bv})
    return cases


def families(tier, seed):
    quick = tier == "quick"
    fams = []
    max_q4 = 1 if quick else 2
    for name, ch in (("state", "S"), ("povm", "P")):
        # POVMs: the operator permutation is the states' one and the outcome-list permutation does not depend on dims
        mq = max_q4 if ch == "S" else (0 if quick else 1)
        cases = arrangements({2: [ch * 2], 3: [ch * 3], 4: [ch * 4]}, lambda n, dims: n < 4 or n_qutrits(dims) <= mq)
        cases += arrangements({2: [ch * 2]} if quick else {2: [ch * 2], 3: [ch * 3]}, lambda n, dims: True, bvs=(1,))
        cases.sort(key=lambda c: (len(c["dims"]), n_qutrits(c["dims"])))
        fams.append((name, cases))
    # channels
    two = ["GG", "GM", "MG", "MM"]
    three = ["GGG", "MGM", "GMM", "MMM"] if quick else ["".join(x) for x in itertools.product("GM", repeat=3)]
    cases = arrangements({2: two}, lambda n, dims: quick and dims != (3, 3) or not quick)
    cases += arrangements({2: ["GG"]}, lambda n, dims: dims != (3, 3), bvs=(1,))
    cases += arrangements({3: three}, lambda n, dims: dims == (2, 2, 2))
    for c in cases:
        c["flat"] = not quick        # the flat call forms are the left fold; for 3-qubit channels thorough only (cost)
    fams.append(("channel", cases))
    # ensembles
    two = ["SE", "ES", "EE"]
    three = ["".join(x) for x in itertools.product("SE", repeat=3) if "E" in x]
    cases = arrangements({2: two}, lambda n, dims: True)
    cases += arrangements({3: three}, lambda n, dims: (dims in ((2, 2, 2), (2, 3, 2))) if quick else True)
    if not quick:
        cases += arrangements({4: ["SESE", "ESSE", "EESS"]}, lambda n, dims: dims == (2, 2, 2, 2))
    fams.append(("ensemble", cases))
    # bases
    cases = []
    kinds2 = list(BASIS_KINDS)
    kinds3 = ["pauli", "npauli", "comp2", "ngm"] if quick else ["pauli", "npauli", "comp2", "gm", "ngm", "comp3"]
    kinds4 = ["npauli", "ngm"] if quick else ["npauli", "comp2", "ngm"]
    for cls in ("dense", "sparse"):
        for seq in itertools.product(kinds2, repeat=2):
            cases.append({"seq": list(seq), "cls": cls})
        for seq in itertools.product(kinds3, repeat=3):
            cases.append({"seq": list(seq), "cls": cls})
        for seq in itertools.product(kinds4, repeat=4):
            if sum(1 for k in seq if BASIS_KINDS[k] == 3) <= max_q4:
                cases.append({"seq": list(seq), "cls": cls})
    fams.append(("basis", cases))
    # named alphabet pairs
    cases = []
    for kind in "SPGM":
        for dims in ((2, 2), (2, 3), (3, 2), (3, 3)):
            na, nb = alphabet_names(kind, dims[0], seed), alphabet_names(kind, dims[1], seed)
            if kind in "GM":
                if dims == (3, 3):
                    if quick:
                        continue
                    nb = [x for x in nb if x in ("unitary_generic", "ampdamp", "feedback_m2", "multikraus_m3")]
                elif dims != (2, 2) and quick:
                    nb = [x for x in nb if x in ("unitary_generic", "ampdamp", "feedback_m2", "multikraus_m3")]
            for a in na:
                cases.append({"kind": kind, "dims": list(dims), "a": a, "partners": list(nb)})
    fams.append(("pairs", cases))
    # joint factor on two subsystems x single factor, names interleaved
    cases = []
    for kind in "SPGM":
        for jd in ((2, 2), (2, 3), (3, 2)) + (() if quick else ((3, 3),)):
            for sd in (2, 3):
                if kind in "GM" and (jd != (2, 2) or sd != 2):
                    continue            # cost wall: (d1 d2)^2-square permutation
                for place in (0, 1, 2):
                    cases.append({"kind": kind, "jd": list(jd), "sd": sd, "place": place})
    fams.append(("joint", cases))
    # embedding
    cases = []
    for kind in ("state", "povm", "gate", "mprocess"):
        for label in emb_labels(kind, seed):
            for order in (0, 1):
                cases.append({"kind": kind, "label": label, "order": order})
    fams.append(("embed", cases))
    if not quick:
        cases = [{"what": "state", "a": "catalogue", "b": ""}, {"what": "state", "a": "mixture", "b": ""}]
        for a, b in (("pure_generic", "mixed_generic"), ("boundary_generic", "pure_fourier"), ("z0", "maxmixed")):
            cases.append({"what": "state", "a": a, "b": b})
        for a, b in (("generic_m2", "comp_m3"), ("rank1_m4", "projective_m2"), ("withzero_m3", "generic_m2")):
            cases.append({"what": "povm", "a": a, "b": b})
        fams.append(("embed2", cases))
    return fams


def execute(family, params, seed):
    if family in ("state", "povm", "channel", "ensemble"):
        return ex_arrangement(params, seed)
    return {"pairs": ex_pairs, "joint": ex_joint, "basis": ex_basis, "embed": ex_embed, "embed2": ex_embed2}[family](params, seed)


def guards(summary):
    g = []
    info = summary["info"]
    need = ["step:state_state", "step:povm_povm", "step:gate_gate", "step:gate_mprocess", "step:mprocess_gate",
            "step:mprocess_mprocess", "step:state_ensemble", "step:ensemble_state", "step:ensemble_ensemble",
            "step:basis_dense", "step:basis_sparse", "steps_unsorted", "steps_sorted", "steps_verified",
            "n4_arrangements", "unsorted_arrangements", "layout_judged_unequal_counts", "oracle_order_sensitive",
            "oracle_axis_sensitive", "dense_checks", "product_statistics", "flat_forms", "basis_verified", "pairs_judged", "joint_judged", "joint_interleaved", "joint_verified",
            "emb_objects_state", "emb_objects_povm", "emb_objects_gate", "emb_objects_mprocess", "emb_stats",
            "emb_stats_nondeterministic"]
    for k in need:
        if info.get(k, 0) < 1:
            g.append("never observed: %s" % k)
    return g
