"""C02 linear conversions of State and Povm (complete bases + generic combinations)."""
import math

import numpy as np

from mc import alphabet as A, refmodel as R
from mc.core import Out, inner
from mc.props import _c02_ref as F
from mc.props._c02_common import system, check, check_list, lin_check, note, dense, Dig

S_LIN = -1.7


def herm_inputs(N, seed):
    """complete Hermitian basis of N x N matrices + 3 generic Hermitian matrices"""
    out = [("H%d" % k, F.herm_elem(N, de)) for k, de in enumerate(F.herm_descriptors(N))]
    out += [("Hgen%d" % g, F.gen_herm(N, seed, 11 + g)) for g in range(3)]
    return out


def vec_inputs(n, seed):
    out = []
    for i in range(n):
        e = np.zeros(n)
        e[i] = 1.0
        out.append(("e%d" % i, e))
    out += [("gen%d" % g, F.gen_real((n,), seed, 20 + g)) for g in range(3)]
    return out


# ------------------------------------------------------------------------------------------ State

def ex_state(p, seed):
    from quara.objects import state as S
    from quara.objects import matrix_basis as mb
    from quara.objects.state import State
    out = Out()
    dg = Dig()
    s = system(p["sys"], seed)
    c, ref, d, n, tag = s.c, s.ref, s.d, s.n, s.tag
    cnt = 0

    def mk(vec):
        return State(c, np.array(vec, dtype=np.float64), is_physicality_required=False)

    # vec -> density matrix (three implementations), inverse, other bases
    for nm, vec in vec_inputs(n, seed):
        cnt += 1
        st = mk(vec)
        rho = ref.mat(vec)
        note(out, rho)
        det = "sys=%s vec=%s" % (tag, nm)
        a = check(out, "State.to_density_matrix", "formula", tag, A.call(st.to_density_matrix), rho, det)
        b = check(out, "State.to_density_matrix_with_sparsity", "formula", tag, A.call(st.to_density_matrix_with_sparsity), rho, det)
        check(out, "to_density_matrix_from_vec", "formula", tag, A.call(S.to_density_matrix_from_vec, c, vec), rho, det)
        dg.add(a)
        if a is not None and b is not None:
            check(out, "State.to_density_matrix~with_sparsity", "alt-impl", tag, (True, a), b, det)
        if b is not None:
            check(out, "to_vec_from_density_matrix_with_sparsity", "roundtrip(to_density_matrix)", tag,
                  A.call(S.to_vec_from_density_matrix_with_sparsity, c, b), vec, det)
        check(out, "calc_mat_from_coefficient_basis", "formula", tag, A.call(mb.calc_mat_from_coefficient_basis, vec, c.basis()), rho, det)
        for tn, tobj, T in s.targets:
            want = ref.vec_in_basis(vec, T)
            g1 = check(out, "State.convert_basis", "formula", "%s->%s" % (tag, tn), A.call(st.convert_basis, tobj), want, det)
            g2 = check(out, "convert_vec", "formula", "%s->%s" % (tag, tn), A.call(mb.convert_vec, vec, c.basis(), tobj), want, det)
            if g2 is not None:
                check(out, "convert_vec", "roundtrip(back)", "%s->%s" % (tag, tn), A.call(mb.convert_vec, g2, tobj, c.basis()), vec, det)
            if tn.startswith("comp_") and g1 is not None:
                # computational-basis coefficients are the matrix entries in the stated order
                flat = rho.reshape(-1) if tn == "comp_row_major" else rho.T.reshape(-1)
                check(out, "State.convert_basis", "comp-entries", "%s->%s" % (tag, tn), (True, g1), flat, det)
    xs = [v for _, v in vec_inputs(n, seed)[-3:]]
    lin_check(out, "State.to_density_matrix", tag, lambda v: mk(v).to_density_matrix(), xs[0], xs[1], S_LIN, "sys=%s" % tag)
    lin_check(out, "State.to_density_matrix_with_sparsity", tag, lambda v: mk(v).to_density_matrix_with_sparsity(), xs[1], xs[2], S_LIN, "sys=%s" % tag)
    for tn, tobj, T in s.targets:
        lin_check(out, "convert_vec", "%s->%s" % (tag, tn), lambda v: mb.convert_vec(v, c.basis(), tobj), xs[0], xs[2], S_LIN, "sys=%s" % tag)
    rc = [g for g in s.targets if g[0].startswith("comp_")]
    vg = xs[0]
    if np.abs(ref.vec_in_basis(vg, rc[0][2]) - ref.vec_in_basis(vg, rc[1][2])).max() > 1e-3:
        out.count("rowcol_differ")

    # Hermitian matrix -> vec
    hin = herm_inputs(d, seed)
    for nm, H in hin:
        cnt += 1
        note(out, H)
        want = ref.coef(H)
        assert np.abs(want.imag).max() < 1e-12
        det = "sys=%s matrix=%s" % (tag, nm)
        v = check(out, "to_vec_from_density_matrix_with_sparsity", "formula", tag,
                  A.call(S.to_vec_from_density_matrix_with_sparsity, c, H), want.real, det)
        dg.add(v)
        if v is not None:
            if np.asarray(v).dtype != np.float64:
                out.fail("to_vec_from_density_matrix_with_sparsity:dtype:%s" % tag, "%s | dtype %s" % (det, np.asarray(v).dtype))
            check(out, "to_density_matrix_from_vec", "roundtrip(to_vec_from_density_matrix)", tag,
                  A.call(S.to_density_matrix_from_vec, c, v), H, det)
        check(out, "calc_hermitian_matrix_expansion_coefficient_hermitian_basis", "formula", tag,
              A.call(mb.calc_hermitian_matrix_expansion_coefficient_hermitian_basis, H, c.basis()), want.real, det)
    Hg = [H for _, H in hin[-3:]]
    lin_check(out, "to_vec_from_density_matrix_with_sparsity", tag, lambda M: S.to_vec_from_density_matrix_with_sparsity(c, M),
              Hg[0], Hg[1], S_LIN, "sys=%s" % tag)
    for k, E in enumerate(R.matrix_units(d)):
        cnt += 1
        note(out, ref.coef(E))
        check(out, "calc_matrix_expansion_coefficient", "formula", tag, A.call(mb.calc_matrix_expansion_coefficient, E, c.basis()),
              ref.coef(E), "sys=%s matrix unit %d" % (tag, k))

    # var helpers
    for flag in (True, False):
        if flag and not s.id_first:
            continue
        out.count("flag_%s" % flag)
        cfg = "%s:eq=%s" % (tag, flag)
        nv = n - 1 if flag else n
        vin = [("zero", np.zeros(nv))] + vec_inputs(nv, seed)
        for nm, var in vin:
            cnt += 1
            vec = np.concatenate([[1 / math.sqrt(d)], var]) if flag else var
            rho = ref.mat(vec)
            det = "sys=%s flag=%s var=%s" % (tag, flag, nm)
            g = check(out, "to_density_matrix_from_var", "formula", cfg, A.call(S.to_density_matrix_from_var, c, var, flag), rho, det)
            if g is not None:
                check(out, "to_var_from_density_matrix", "roundtrip(to_density_matrix_from_var)", cfg,
                      A.call(S.to_var_from_density_matrix, c, g, flag), var, det)
        lin_check(out, "to_density_matrix_from_var", cfg, lambda v: S.to_density_matrix_from_var(c, v, flag), vin[-1][1], vin[-2][1], S_LIN, "sys=%s" % tag)
        for nm, H in hin:
            cnt += 1
            if flag:
                H = H - (np.trace(H) - 1.0) / d * np.eye(d)   # trace-one member of the affine space
            cf = ref.coef(H).real
            want = cf[1:] if flag else cf
            det = "sys=%s flag=%s matrix=%s" % (tag, flag, nm)
            g = check(out, "to_var_from_density_matrix", "formula", cfg, A.call(S.to_var_from_density_matrix, c, H, flag), want, det)
            dg.add(g)
            if g is not None:
                check(out, "to_density_matrix_from_var", "roundtrip(to_var_from_density_matrix)", cfg,
                      A.call(S.to_density_matrix_from_var, c, g, flag), H, det)
        lin_check(out, "to_var_from_density_matrix", cfg, lambda M: S.to_var_from_density_matrix(c, M, flag), Hg[1], Hg[2], S_LIN, "sys=%s" % tag)
    inner(out, cnt - 1)
    out.digest = dg.hex()
    out.outcome = "ok" if not out.fails else "fail"
    return out


# ------------------------------------------------------------------------------------------ Povm

def ex_povm(p, seed):
    from quara.objects import povm as P
    from quara.objects.povm import Povm
    out = Out()
    dg = Dig()
    s = system(p["sys"], seed)
    c, ref, d, n, tag = s.c, s.ref, s.d, s.n, s.tag
    m = p["m"]
    cfgm = "%s:m=%d" % (tag, m)
    cnt = 0

    def mk(vecs):
        return Povm(c, [np.array(v, dtype=np.float64) for v in vecs], is_physicality_required=False)

    def as_vecs(flat):
        return [np.array(flat[x * n:(x + 1) * n]) for x in range(m)]

    inputs = []
    for x in range(m):
        for i in range(n):
            f = np.zeros(m * n)
            f[x * n + i] = 1.0
            inputs.append(("x%d.e%d" % (x, i), f))
    inputs += [("gen%d" % g, F.gen_real((m * n,), seed, 30 + g)) for g in range(3)]
    for nm, flat in inputs:
        cnt += 1
        vecs = as_vecs(flat)
        pv = mk(vecs)
        mats = [ref.mat(v) for v in vecs]
        for M in mats:
            note(out, M)
        det = "sys=%s m=%d vecs=%s" % (tag, m, nm)
        a = check_list(out, "Povm.matrices", "formula", cfgm, A.call(pv.matrices), mats, det)
        b = check_list(out, "Povm.matrices_with_sparsity", "formula", cfgm, A.call(pv.matrices_with_sparsity), mats, det)
        check_list(out, "to_matrices_from_vecs", "formula", cfgm, A.call(P.to_matrices_from_vecs, c, vecs), mats, det)
        if a is not None:
            dg.add(np.array(a))
        if a is not None and b is not None:
            check_list(out, "Povm.matrices~with_sparsity", "alt-impl", cfgm, (True, a), b, det)
        for x in range(m):
            for idx, inm in ((x, "int"), ((x,), "tuple")):
                g1 = check(out, "Povm.matrix", "formula", "%s:index=%s" % (cfgm, inm), A.call(pv.matrix, idx), mats[x], det + " index=%r" % (idx,))
                g2 = check(out, "Povm.matrix_with_sparsity", "formula", "%s:index=%s" % (cfgm, inm), A.call(pv.matrix_with_sparsity, idx), mats[x], det + " index=%r" % (idx,))
                if g1 is not None and g2 is not None:
                    check(out, "Povm.matrix~with_sparsity", "alt-impl", cfgm, (True, g1), g2, det)
                if inm == "tuple":
                    out.count("tuple_index")
        if b is not None:
            check_list(out, "to_vecs_from_matrices_with_sparsity", "roundtrip(matrices)", cfgm,
                       A.call(P.to_vecs_from_matrices_with_sparsity, c, b), vecs, det)
        for tn, tobj, T in s.targets:
            want = [ref.vec_in_basis(v, T) for v in vecs]
            check_list(out, "Povm.convert_basis", "formula", "%s->%s" % (cfgm, tn), A.call(pv.convert_basis, tobj), want, det)
    g3 = [f for _, f in inputs[-3:]]
    lin_check(out, "Povm.matrices", cfgm, lambda f: mk(as_vecs(f)).matrices(), g3[0], g3[1], S_LIN, det, aslist=True)
    lin_check(out, "Povm.matrices_with_sparsity", cfgm, lambda f: mk(as_vecs(f)).matrices_with_sparsity(), g3[1], g3[2], S_LIN, det, aslist=True)

    # Hermitian matrices -> vec(s)
    hin = herm_inputs(d, seed)
    for nm, H in hin:
        cnt += 1
        want = ref.coef(H).real
        det = "sys=%s matrix=%s" % (tag, nm)
        v = check(out, "to_vec_from_matrix_with_sparsity", "formula", tag, A.call(P.to_vec_from_matrix_with_sparsity, c, H), want, det)
        dg.add(v)
    Hs = [H for _, H in hin]
    for x in range(m):
        for k in range(len(Hs)):
            cnt += 1
            # element k in slot x, different generic Hermitian matrices elsewhere: slots must not be mixed up
            ms = [Hs[-1 - ((y + k) % 3)] for y in range(m)]
            ms[x] = Hs[k]
            want = [ref.coef(M).real for M in ms]
            det = "sys=%s m=%d slot=%d matrix=%s" % (tag, m, x, hin[k][0])
            v = check_list(out, "to_vecs_from_matrices_with_sparsity", "formula", cfgm, A.call(P.to_vecs_from_matrices_with_sparsity, c, ms), want, det)
            if v is not None:
                check_list(out, "to_matrices_from_vecs", "roundtrip(to_vecs_from_matrices)", cfgm, A.call(P.to_matrices_from_vecs, c, v), ms, det)
    lin_check(out, "to_vec_from_matrix_with_sparsity", tag, lambda M: P.to_vec_from_matrix_with_sparsity(c, M), Hs[-1], Hs[-2], S_LIN, "sys=%s" % tag)

    # var helpers
    for flag in (True, False):
        if flag and not s.id_first:
            continue
        cfg = "%s:eq=%s" % (cfgm, flag)
        mv = m - 1 if flag else m
        vin = [("zero", np.zeros(mv * n))] + vec_inputs(mv * n, seed)
        for nm, var in vin:
            cnt += 1
            vecs = [np.array(var[x * n:(x + 1) * n]) for x in range(mv)]
            mats = [ref.mat(v) for v in vecs]
            if flag:
                mats.append(np.eye(d) - sum(mats))
            det = "sys=%s m=%d flag=%s var=%s" % (tag, m, flag, nm)
            g = check_list(out, "to_matrices_from_var", "formula", cfg, A.call(P.to_matrices_from_var, c, var, flag), mats, det)
            if g is not None:
                dg.add(np.array(g))
                check(out, "to_var_from_matrices", "roundtrip(to_matrices_from_var)", cfg, A.call(P.to_var_from_matrices, c, g, flag), var, det)
        lin_check(out, "to_matrices_from_var", cfg, lambda v: P.to_matrices_from_var(c, v, flag), vin[-1][1], vin[-2][1], S_LIN, "sys=%s" % tag, aslist=True)
        for x in range(m):
            for k in range(len(Hs)):
                cnt += 1
                ms = [Hs[-1 - ((y + k) % 3)] for y in range(m)]
                ms[x] = Hs[k]
                if flag:
                    # a member of the affine space: elements sum to the identity
                    ms[-1 if x != m - 1 else 0] = ms[-1 if x != m - 1 else 0] + (np.eye(d) - sum(ms))
                cf = [ref.coef(M).real for M in ms]
                want = np.concatenate(cf[:-1] if flag else cf)
                det = "sys=%s m=%d flag=%s slot=%d matrix=%s" % (tag, m, flag, x, hin[k][0])
                g = check(out, "to_var_from_matrices", "formula", cfg, A.call(P.to_var_from_matrices, c, ms, flag), want, det)
                if g is not None:
                    check_list(out, "to_matrices_from_var", "roundtrip(to_var_from_matrices)", cfg, A.call(P.to_matrices_from_var, c, g, flag), ms, det)
    inner(out, cnt - 1)
    out.digest = dg.hex()
    out.outcome = "ok" if not out.fails else "fail"
    return out


def ex_povm_multi(p, seed):
    """multi-dimensional outcome index of a tensor-product POVM: matrix(multi) is the element with row-major serial index;
    2 and 3 local measurements (three factors with non-palindromic outcome counts expose stride mix-ups)"""
    import itertools
    from quara.objects.povm import Povm
    from quara.objects.operators import tensor_product
    out = Out()
    ms = list(p["m"])
    cfg = "D%s:m=(%s)" % (",".join("2" for _ in ms), ",".join(map(str, ms)))
    povms = []
    for k, mk in enumerate(ms):
        ck = A.make_system("Q1", [k])
        povms.append(A.q_povm(ck, A.povm_generic(2, mk, seed, salt=mk + 7 * k)))
    ok, pv = A.call(tensor_product, *povms)
    if not ok or list(pv.nums_local_outcomes) != ms:
        out.count("multi_setup_failed")   # tensor products are C07's subject
        out.outcome = "setup-failed"
        return out
    ref = F.Ref(R.basis_mats(pv.composite_system))
    mats = [ref.mat(np.asarray(v)) for v in pv.vecs]
    cnt = 0
    for idx in itertools.product(*[range(mk) for mk in ms]):
        cnt += 1
        want = mats[R.row_major_index(idx, tuple(ms))]
        det = "index=%r of nums_local_outcomes=%r" % (idx, pv.nums_local_outcomes)
        check(out, "Povm.matrix", "formula", cfg + ":index=multi", A.call(pv.matrix, tuple(idx)), want, det)
        check(out, "Povm.matrix_with_sparsity", "formula", cfg + ":index=multi", A.call(pv.matrix_with_sparsity, tuple(idx)), want, det)
        okv, vv = A.call(pv.vec, tuple(idx))
        out.ops += 1
        if not okv or np.abs(np.asarray(vv) - np.asarray(pv.vecs[R.row_major_index(idx, tuple(ms))])).max() > 1e-12:
            out.fail("Povm.vec:multi-index:%s" % cfg, det)
        out.count("multi_index")
        if len(set(ms)) > 1:
            out.count("multi_index_unequal")
        if len(ms) >= 3:
            out.count("multi_index_three_factors")
    inner(out, cnt - 1)
    out.outcome = "ok" if not out.fails else "fail"
    return out
