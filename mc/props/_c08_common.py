"""Shared by C08 and C09: tester pools with mixed outcome counts, tomography configurations, schedule lists,
the reference Born-rule forward model (dense matrices, outcomes in TIME order) and affine bases of variable space.

Reference side: density matrices, POVM matrix lists, the unknown as a stacked real vector turned into matrices /
a superoperator action through the basis matrices (read as data).  No quara conversion is used for predictions.
"""
import itertools
import math

import numpy as np

from mc import alphabet as A, refmodel as R
from mc.frames import Frame

TOMOS = ("qst", "povmt", "qpt", "qmpt")
KIND = {"qst": "state", "povmt": "povm", "qpt": "gate", "qmpt": "mprocess"}
TOL = 1e-9

_POOL = {}
_CTX = {}


# ------------------------------------------------------------------------------------------- tester pools

class Pool:
    """reference-side tester states / POVMs of one system plus their quara counterparts (public constructors)."""

    def __init__(self, systag, seed):
        self.systag = systag
        self.c_sys = A.make_system(systag)
        self.d = d = A.dim_of(systag)
        self.D = D = d * d
        self.B = R.basis_mats(self.c_sys)
        G = R.gram(self.B)
        if np.abs(G - np.eye(D)).max() > 1e-12:
            raise AssertionError("harness: basis of %s not orthonormal" % systag)
        self.Bm = np.array([b.ravel() for b in self.B])          # rows = flattened basis matrices
        self.states = {}
        self.povms = {}
        self._build_states(seed)
        self._build_povms(seed)
        self._qs = {}
        self._frames = {}
        self._qp = {}
        self.state_sets = self._state_sets()
        self.povm_sets = self._povm_sets()
        self._verify_sets()

    # ---- states
    def _build_states(self, seed):
        d, D = self.d, self.D
        st = A.states_ref(d, seed)
        S = self.states
        S["z0"] = st["z0"]
        S["pure_fourier"] = st["pure_fourier"]
        S["maxmixed"] = st["maxmixed"]
        if d > 2:
            S["boundary"] = st["boundary_generic"]
        for s in range(D + 3):
            U = R.generic_unitary(d, seed, salt=s)
            psi = U[:, 0]
            S["pg%d" % s] = np.outer(psi, psi.conj())
        w = np.arange(1, d + 1, dtype=float)
        w = w / w.sum()
        for s in range(3):
            S["mg%d" % s] = R.hermitian_from(w, R.generic_unitary(d, seed, salt=20 + s))
        # commuting (diagonal) states: span only d dimensions
        for k in range(D + 1):
            a = np.array(R.angles(seed, d, salt=3 * k + 1))
            if k < d:
                wk = np.zeros(d)
                wk[k] = 1.0
            else:
                wk = a / a.sum()
            S["dg%d" % k] = np.diag(wk).astype(np.complex128)
        if d == 4:
            # well-conditioned 2-qubit testers: products of the 1-qubit complete set
            P1 = pool("Q1", seed)
            names = P1.state_sets["complete"]
            for a in names:
                for b in names:
                    S["prod_%s_%s" % (a, b)] = np.kron(P1.states[a], P1.states[b])

    def _state_sets(self):
        d, D = self.d, self.D
        base = ["z0", "pure_fourier", "mg0"] + ["pg%d" % s for s in range(D - 3)]
        if d == 4:
            base = sorted(n for n in self.states if n.startswith("prod_"))
        assert len(base) == D
        return {
            "complete": base,
            "over": base + ["pg%d" % (D - 3), "maxmixed"] + (["boundary"] if d > 2 else ["mg1"]),
            "incomplete_few": base[:D - 2],
            "incomplete_diag": ["dg%d" % k for k in range(D + 1)],
        }

    # ---- povms
    def _build_povms(self, seed):
        d = self.d
        P = self.povms
        for k, v in A.povms_ref(d, seed).items():
            P[k] = v
        for m in (2, 3, 4):
            for s in range(6):
                P["g%ds%d" % (m, s)] = A.povm_generic(d, m, seed, salt=60 + 7 * s + m)
        if d == 4:
            P1 = pool("Q1", seed)
            names = P1.povm_sets["equal_complete"]
            for a in names:
                for b in names:
                    P["prod_%s_%s" % (a, b)] = [np.kron(Ma, Mb) for Ma in P1.povms[a] for Mb in P1.povms[b]]
        # commuting (diagonal) POVMs: span only d dimensions
        for m in (2, 3, 4):
            for s in range(4):
                a = np.array(R.angles(seed, m * d, salt=11 * s + m)).reshape(m, d)
                a = a / a.sum(axis=0, keepdims=True)
                P["diag%ds%d" % (m, s)] = [np.diag(a[x]).astype(np.complex128) for x in range(m)]

    def _povm_sets(self):
        d = self.d
        if d == 2:
            return {
                "mixed_complete": ["generic_m2", "projective_m2", "generic_m3"],
                "equal_complete": ["generic_m2", "projective_m2", "comp_m2"],
                "single_ic": ["generic_m4"],
                "over_mixed": ["generic_m2", "generic_m3", "generic_m4", "withzero_m3", "comp_m2", "rank1_m3"],
                "over_equal": ["generic_m3", "rank1_m3", "withzero_m3", "g3s1"],
                "incomplete_wide": ["generic_m3"],
                "incomplete_tall": ["comp_m2", "diag3s0", "diag4s1"],
            }
        if d == 3:
            return {
                "mixed_complete": ["g4s0", "g4s1", "generic_m3", "generic_m2"],
                "equal_complete": ["generic_m3", "rank1_m3", "projective_m3", "g3s1"],
                "over_mixed": ["g4s0", "g4s1", "generic_m3", "generic_m2", "withzero_m4", "comp_m3", "rank1_m4",
                               "projective_m2"],
                "over_equal": ["generic_m3", "rank1_m3", "projective_m3", "g3s1", "withzero_m3", "comp_m3"],
                "incomplete_wide": ["generic_m4", "generic_m3"],
                "incomplete_tall": ["comp_m3", "diag4s0", "diag3s1", "diag2s2", "diag4s3"],
            }
        if d == 4:
            prod = sorted(n for n in self.povms if n.startswith("prod_"))        # 9 product POVMs, 4 outcomes each
            return {
                "mixed_complete": prod + ["generic_m3", "generic_m2"],
                "equal_complete": prod,
                "over_mixed": prod + ["generic_m3", "generic_m2", "withzero_m4", "comp_m4", "rank1_m4", "g4s0"],
                "over_equal": prod + ["generic_m4", "withzero_m4", "comp_m4"],
                "incomplete_wide": ["generic_m4", "generic_m3"],
                "incomplete_tall": ["comp_m4", "diag4s0", "diag4s1", "diag4s2", "diag3s3", "diag2s0"],
            }
        raise ValueError(d)

    def span_rank(self, mats):
        M = np.array([np.asarray(x).ravel() for x in mats])
        return robust_rank(M)[0]

    def _verify_sets(self):
        D = self.D
        for name, names in self.state_sets.items():
            r = self.span_rank([self.states[n] for n in names])
            want_full = name in ("complete", "over")
            if (r == D) != want_full:
                raise AssertionError("harness: state set %s of %s has span rank %d" % (name, self.systag, r))
        for name, names in self.povm_sets.items():
            els = [M for n in names for M in self.povms[n]]
            r = self.span_rank(els)
            want_full = not name.startswith("incomplete")
            if (r == D) != want_full:
                raise AssertionError("harness: povm set %s of %s has span rank %d" % (name, self.systag, r))
            for n in names:
                Ms = self.povms[n]
                if np.abs(sum(Ms) - np.eye(self.d)).max() > 1e-12 or min(R.min_eig(M) for M in Ms) < -1e-12:
                    raise AssertionError("harness: tester POVM %s not physical" % n)
        for n, rho in self.states.items():
            if abs(np.trace(rho) - 1) > 1e-12 or R.min_eig(rho) < -1e-12:
                raise AssertionError("harness: tester state %s not physical" % n)

    def frame(self, kind, m):
        """frame of the unknown on THIS CompositeSystem instance (quara composes only identical instances)"""
        key = (kind, m)
        if key not in self._frames:
            self._frames[key] = Frame(kind, self.c_sys, m)
        return self._frames[key]

    def q_state(self, name):
        if name not in self._qs:
            self._qs[name] = A.q_state(self.c_sys, self.states[name])
        return self._qs[name]

    def q_povm(self, name):
        if name not in self._qp:
            self._qp[name] = A.q_povm(self.c_sys, self.povms[name])
        return self._qp[name]


def pool(systag, seed):
    key = (systag, seed)
    if key not in _POOL:
        _POOL[key] = Pool(systag, seed)
    return _POOL[key]


def robust_rank(M):
    """(rank, ambiguous): singular values relative to the largest; the band (1e-12, 1e-7) is 'ambiguous'"""
    M = np.asarray(M)
    if M.size == 0:
        return 0, False
    s = np.linalg.svd(M, compute_uv=False)
    if s[0] == 0:
        return 0, False
    rel = s / s[0]
    amb = bool(np.any((rel > 1e-12) & (rel < 1e-7)))
    return int(np.sum(rel >= 1e-7)), amb


# ------------------------------------------------------------------------------------------- configurations

def config_list(tier, only_complete=False):
    """list of configuration dicts {tomo, flag, sys, m, sset, pset}; simplest first"""
    systems = ["Q1", "Q3"] + (["Q2"] if tier == "thorough" else [])
    out = []
    for systag in systems:
        d = A.dim_of(systag)
        psets = ["equal_complete", "mixed_complete", "over_mixed", "over_equal", "incomplete_wide", "incomplete_tall"]
        if d == 2:
            psets.insert(2, "single_ic")
        ssets = ["complete", "over", "incomplete_few", "incomplete_diag"]
        combos = [("complete", "equal_complete"), ("complete", "mixed_complete"), ("over", "over_mixed"),
                  ("over", "over_equal"), ("complete", "incomplete_wide"), ("incomplete_few", "mixed_complete"),
                  ("incomplete_diag", "incomplete_tall")]
        if d == 2:
            combos.insert(2, ("complete", "single_ic"))
        if only_complete:
            psets = [p for p in psets if not p.startswith("incomplete")]
            ssets = [s for s in ssets if not s.startswith("incomplete")]
            combos = [c for c in combos if not (c[0].startswith("incomplete") or c[1].startswith("incomplete"))]
        for flag in (False, True):
            for ps in psets:
                out.append({"tomo": "qst", "flag": flag, "sys": systag, "m": None, "sset": None, "pset": ps})
            for m in (2, 3, 4):
                for ss in ssets:
                    out.append({"tomo": "povmt", "flag": flag, "sys": systag, "m": m, "sset": ss, "pset": None})
            for ss, ps in combos:
                out.append({"tomo": "qpt", "flag": flag, "sys": systag, "m": None, "sset": ss, "pset": ps})
            for m in (2, 3, 4):
                for ss, ps in combos:
                    if m == 4 and d > 2 and tier == "quick" and (ss, ps) != ("complete", "mixed_complete"):
                        continue
                    if m >= 3 and d == 4 and (ss, ps) not in (("complete", "mixed_complete"), ("complete", "equal_complete")):
                        continue
                    if d == 4 and (ss, ps) in (("over", "over_equal"), ("complete", "incomplete_wide"),
                                               ("incomplete_diag", "incomplete_tall")):
                        continue
                    out.append({"tomo": "qmpt", "flag": flag, "sys": systag, "m": m, "sset": ss, "pset": ps})
    return out


def cfg_tag(cfg):
    return "%s:%s:flag=%s:m=%s:%s/%s" % (cfg["tomo"], cfg["sys"], cfg["flag"], cfg["m"], cfg["sset"], cfg["pset"])


# ------------------------------------------------------------------------------------------- context

class Ctx:
    """one tomography configuration: testers, all schedules, reference forward model, library constructor"""

    def __init__(self, cfg, seed):
        self.cfg = cfg
        self.seed = seed
        self.tomo = cfg["tomo"]
        self.flag = bool(cfg["flag"])
        self.kind = KIND[self.tomo]
        self.P = P = pool(cfg["sys"], seed)
        self.m = cfg["m"] if self.kind in ("povm", "mprocess") else None
        self.F = P.frame(self.kind, self.m)
        self.nvar = self.F.num_var(self.flag)
        self.snames = list(P.state_sets[cfg["sset"]]) if self.tomo != "qst" else []
        self.pnames = list(P.povm_sets[cfg["pset"]]) if self.tomo != "povmt" else []
        rev = cfg.get("rev", 0)
        if rev == 1:      # the same testers at OTHER list positions
            self.snames.reverse()
            self.pnames.reverse()
        elif rev == 2:
            self.snames = self.snames[1:] + self.snames[:1]
            self.pnames = self.pnames[1:] + self.pnames[:1]
        self.r_states = [P.states[n] for n in self.snames]
        self.r_povms = [P.povms[n] for n in self.pnames]
        # reference-side coefficient vectors of tester states and transposed-flattened POVM elements
        self.c_states = [P.Bm.conj() @ rho.ravel() for rho in self.r_states]
        self.t_povms = [np.array([M.T.ravel() for M in Ms]) for Ms in self.r_povms]
        if self.tomo == "qst":
            self.all = [(None, j) for j in range(len(self.pnames))]
        elif self.tomo == "povmt":
            self.all = [(i, None) for i in range(len(self.snames))]
        else:
            self.all = [(i, j) for i in range(len(self.snames)) for j in range(len(self.pnames))]
        self._table = None
        self._ptable = None
        self._phys = None

    # ---- library side
    def q_states(self):
        return [self.P.q_state(n) for n in self.snames]

    def q_povms(self):
        return [self.P.q_povm(n) for n in self.pnames]

    def sched(self, pair):
        i, j = pair
        if self.tomo == "qst":
            return [("state", 0), ("povm", j)]
        if self.tomo == "povmt":
            return [("state", i), ("povm", 0)]
        mid = "gate" if self.tomo == "qpt" else "mprocess"
        return [("state", i), (mid, 0), ("povm", j)]

    def make(self, pairs):
        """the tomography object for a schedule list (pairs) or the string 'all' (library call)"""
        from quara.protocol.qtomography.standard.standard_qst import StandardQst
        from quara.protocol.qtomography.standard.standard_povmt import StandardPovmt
        from quara.protocol.qtomography.standard.standard_qpt import StandardQpt
        from quara.protocol.qtomography.standard.standard_qmpt import StandardQmpt
        schedules = "all" if isinstance(pairs, str) else [self.sched(p) for p in pairs]
        kw = dict(on_para_eq_constraint=self.flag, schedules=schedules)
        if self.tomo == "qst":
            return StandardQst(self.q_povms(), **kw)
        if self.tomo == "povmt":
            return StandardPovmt(self.q_states(), self.m, **kw)
        if self.tomo == "qpt":
            return StandardQpt(self.q_states(), self.q_povms(), **kw)
        return StandardQmpt(self.q_states(), self.q_povms(), self.m, **kw)

    # ---- reference side
    def n_out(self, pair):
        i, j = pair
        if self.tomo == "qst" or self.tomo == "qpt":
            return len(self.r_povms[j])
        if self.tomo == "povmt":
            return self.m
        return self.m * len(self.r_povms[j])

    def ref_unknown(self, x):
        """the unknown object described by the stacked vector x, as matrices / HS arrays (reference form)"""
        P = self.P
        D, d = P.D, P.d
        x = np.asarray(x, float)
        if self.kind == "state":
            return (x @ P.Bm).reshape(d, d)
        if self.kind == "povm":
            return [(x[k * D:(k + 1) * D] @ P.Bm).reshape(d, d) for k in range(self.m)]
        if self.kind == "gate":
            return x.reshape(D, D)
        return [x[k * D * D:(k + 1) * D * D].reshape(D, D) for k in range(self.m)]

    def _act(self, hs, i):
        """G(rho_i) for the linear map with HS matrix hs (hs[a,b] = Tr(B_a^+ G(B_b)))"""
        P = self.P
        return ((hs @ self.c_states[i]) @ P.Bm).reshape(P.d, P.d)

    def born(self, unk, pair):
        """distribution of one schedule's circuit run on the unknown, outcomes in time order (row-major)"""
        i, j = pair
        if self.tomo == "qst":
            return (self.t_povms[j] @ unk.ravel()).real
        if self.tomo == "povmt":
            rho = self.r_states[i]
            return np.array([np.trace(M @ rho).real for M in unk])
        if self.tomo == "qpt":
            return (self.t_povms[j] @ self._act(unk, i).ravel()).real
        return np.concatenate([(self.t_povms[j] @ self._act(hs, i).ravel()).real for hs in unk])

    def born_all(self, x, pairs=None):
        """dict pair -> distribution, sharing the channel action over the POVMs of one state"""
        unk = self.ref_unknown(x)
        pairs = self.all if pairs is None else pairs
        if self.tomo in ("qst", "povmt"):
            return {p: self.born(unk, p) for p in pairs}
        out = {}
        cache = {}
        for (i, j) in pairs:
            if i not in cache:
                hss = [unk] if self.tomo == "qpt" else unk
                cache[i] = [self._act(hs, i).ravel() for hs in hss]
            out[(i, j)] = np.concatenate([(self.t_povms[j] @ v).real for v in cache[i]])
        return out

    def var_points(self):
        """the full affine basis of variable space: 0 and every unit vector"""
        n = self.nvar
        return np.vstack([np.zeros((1, n)), np.eye(n)])

    def table(self):
        """pair -> array (nvar+1, n_out): reference distribution at the var points 0, e_1, ..., e_n"""
        if self._table is None:
            pts = self.var_points()
            tab = {p: np.zeros((len(pts), self.n_out(p))) for p in self.all}
            for k, v in enumerate(pts):
                x = self.F.stacked_from_var(v, self.flag)
                for p, pr in self.born_all(x).items():
                    tab[p][k] = pr
            self._table = tab
        return self._table

    def ref_model(self, pairs):
        """(A_ref, b_ref) of a schedule list from the table (rows: schedules in list order, outcomes in time order)"""
        tab = self.table()
        T = np.concatenate([tab[p] for p in pairs], axis=1)      # (nvar+1, rows)
        b = T[0].copy()
        Aref = (T[1:] - T[0][None, :]).T
        return Aref, b

    def complete_by_span(self, pairs):
        """informational completeness from the span of the testers used by the schedule list"""
        P = self.P
        if self.tomo == "qst":
            els = [M for (_, j) in sorted(set(pairs)) for M in self.r_povms[j]]
            return P.span_rank(els) == P.D
        if self.tomo == "povmt":
            return P.span_rank([self.r_states[i] for (i, _) in sorted(set(pairs))]) == P.D
        rows = []
        for (i, j) in sorted(set(pairs)):
            r = self.r_states[i].ravel()
            for M in self.r_povms[j]:
                rows.append(np.kron(M.ravel(), r))
        return robust_rank(np.array(rows))[0] == P.D * P.D

    # ---- physical affine basis of the feasible set
    def interior(self):
        """stacked vector of an interior physical object (all blocks full rank, equality constraint exact)"""
        P = self.P
        d, D, seed, m = P.d, P.D, self.seed, self.m
        Bm = P.Bm
        lam = 0.6

        def co(M):
            return A.real_checked(Bm.conj() @ np.asarray(M).ravel(), "interior")

        if self.kind == "state":
            return co(lam * np.eye(d) / d + (1 - lam) * P.states["pg%d" % (D + 2)])
        if self.kind == "povm":
            G = A.povm_generic(d, m, seed, salt=50 + m)
            return np.concatenate([co(lam * np.eye(d) / m + (1 - lam) * M) for M in G])
        dep = np.zeros((D, D))
        dep[0, 0] = 1.0                                          # X -> Tr(X) I/d in an identity-first orthonormal basis
        if self.kind == "gate":
            g = A.gates_ref(d, seed)
            ks = [K @ g["unitary_generic"][0] for K in g["ampdamp"]]
            hs = A.real_checked(R.hs_from_kraus(ks, P.B), "interior gate")
            return (lam * dep + (1 - lam) * hs).ravel()
        ins = A.instruments_ref(d, seed, ms=(m,))["feedback_m%d" % m]
        parts = []
        for ks in ins:
            hs = A.real_checked(R.hs_from_kraus(ks, P.B), "interior mprocess")
            parts.append((lam / m * dep + (1 - lam) * hs).ravel())
        return np.concatenate(parts)

    def phys_points(self, eps=0.03):
        """stacked vectors x_0 .. x_K: interior point + eps-displacements along every feasible direction
        (the variables of the constrained parametrisation), all verified physical by the reference frame"""
        if self._phys is None:
            F = self.F
            x0 = self.interior()
            v0 = F.var_from_stacked(x0, True)
            n = len(v0)
            xs = [x0]
            for j in range(n):
                v = v0.copy()
                v[j] += eps
                xs.append(F.stacked_from_var(v, True))
            # one generic displaced point (all directions at once)
            a = np.array(R.angles(self.seed, n, salt=5))
            dirn = np.cos(7 * a)
            v = v0 + eps * dirn / np.linalg.norm(dirn)
            xs.append(F.stacked_from_var(v, True))
            for x in xs:
                if F.eq_defect(x) > 1e-12 or F.min_eig(x) < 1e-3:
                    raise AssertionError("harness: physical basis point not interior (%g, %g) in %s" % (
                        F.eq_defect(x), F.min_eig(x), cfg_tag(self.cfg)))
            if abs(F.eq_defect(x0)) > 1e-12:
                raise AssertionError("harness: interior point violates the equality constraint")
            self._phys = np.array(xs)
        return self._phys

    def q_unknown(self, x):
        """quara object of the unknown's type from a stacked vector, parametrised like the tomography"""
        return self.F.make(x, on_para_eq_constraint=self.flag)


def ctx(cfg, seed):
    key = (A.digest(np.frombuffer(repr(sorted(cfg.items())).encode(), dtype=np.uint8)), seed)
    if key not in _CTX:
        if len(_CTX) > 6:
            _CTX.clear()
        _CTX[key] = Ctx(cfg, seed)
    return _CTX[key]


# ------------------------------------------------------------------------------------------- schedule lists

def sublists(n, k):
    """all ordered sub-lists (subsequences) of range(n) with exactly k elements"""
    return itertools.combinations(range(n), k)


def subset_bound(S, cap):
    """largest k such that the number of sub-lists of size <= k stays within cap (all sizes when S <= 6)"""
    if S <= 6:
        return S
    tot, k = 0, 0
    while k < min(S, 3):
        c = math.comb(S, k + 1)
        if tot + c > cap:
            break
        tot += c
        k += 1
    return max(1, k)


def special_lists(cx):
    """named schedule lists (as index lists into cx.all): explicit all, reversed, repetitions, permutations"""
    S = len(cx.all)
    outs = [cx.n_out(p) for p in cx.all]
    lists = [("explicit_all", list(range(S))), ("reversed_all", list(range(S - 1, -1, -1)))]
    for i in range(min(S, 12)):
        lists.append(("rep2", [i, i]))
    # a pair with different outcome counts if there is one
    a, b = 0, next((k for k in range(S) if outs[k] != outs[0]), min(1, S - 1))
    lists.append(("rep_aba", [a, b, a]))
    lists.append(("rep_abba", [a, b, b, a]))
    lists.append(("all_twice", list(range(S)) + list(range(S))))
    # triples: the first triple with the largest number of distinct outcome counts, and the last three schedules
    if S >= 3:
        best, bestn = None, -1
        for tr in itertools.combinations(range(S), 3):
            n = len({outs[k] for k in tr})
            if n > bestn:
                best, bestn = tr, n
            if n == 3:
                break
        triples = [best]
        if tuple(range(S - 3, S)) != best:
            triples.append(tuple(range(S - 3, S)))
        for tr in triples:
            for perm in itertools.permutations(tr):
                lists.append(("perm3", list(perm)))
    return lists


def close(a, b, tol=TOL):
    a = np.asarray(a, float)
    b = np.asarray(b, float)
    if a.shape != b.shape:
        return False, float("inf")
    err = float(np.abs(a - b).max()) if a.size else 0.0
    return err <= tol, err


def fail_once(out, seen, sig, msg):
    if sig in seen:
        seen[sig] += 1
        return
    seen[sig] = 1
    out.fail(sig, msg)


# ------------------------------------------------------------------------------------------- alphabet of true objects

def hs_of(P, ks):
    """HS matrix hs[a,b] = Tr(B_a^+ K(B_b)) of a Kraus list (orthonormal basis), real part checked"""
    cols = [P.Bm.conj() @ R.kraus_apply(ks, Bb).ravel() for Bb in P.B]
    return A.real_checked(np.array(cols).T, "hs of kraus")


def true_objects(cx):
    """[(name, class, stacked vector)] of the physical alphabet objects of the unknown's type:
    class in interior / boundary / pure (extreme)"""
    P = cx.P
    d, seed, m = P.d, cx.seed, cx.m

    def co(M):
        return A.real_checked(P.Bm.conj() @ np.asarray(M).ravel(), "true object")

    out = [("interior_point", "interior", cx.interior())]
    if cx.kind == "state":
        cls = {"z0": "pure", "pure_generic": "pure", "pure_fourier": "pure", "mixed_generic": "interior",
               "boundary_generic": "boundary", "maxmixed": "interior"}
        for n, rho in A.states_ref(d, seed).items():
            out.append((n, cls[n], co(rho)))
    elif cx.kind == "povm":
        for n, Ms in A.povms_ref(d, seed, ms=(m,)).items():
            if len(Ms) != m:
                continue
            c = "interior" if n.startswith("generic") else "boundary"
            out.append((n, c, np.concatenate([co(M) for M in Ms])))
    elif cx.kind == "gate":
        cls = {"identity": "pure", "unitary_generic": "pure", "unitary_fourier": "pure", "dephasing": "boundary",
               "ampdamp": "boundary", "depolarizing": "interior"}
        for n, ks in A.gates_ref(d, seed).items():
            out.append((n, cls.get(n, "boundary" if n.endswith("r2") else "interior"), hs_of(P, ks).ravel()))
    else:
        for n, ins in A.instruments_ref(d, seed, ms=(m,)).items():
            if len(ins) != m:
                continue
            c = "pure" if n.startswith(("luders", "feedback", "comp")) else "boundary"
            out.append((n, c, np.concatenate([hs_of(P, ks).ravel() for ks in ins])))
            if n.startswith(("comp", "luders")):
                # the same instrument with its outcomes listed in reverse: on the tester state z0 the FIRST outcomes are impossible
                out.append((n + "_reversed", c, np.concatenate([hs_of(P, ks).ravel() for ks in ins[::-1]])))
    F = cx.F
    for n, c, x in out:
        if F.eq_defect(x) > 1e-11 or F.min_eig(x) < -1e-11:
            raise AssertionError("harness: alphabet object %s not physical (%g, %g)" % (n, F.eq_defect(x), F.min_eig(x)))
    return out


def born_vector(cx, x, pairs):
    """list of per-schedule reference distributions of the unknown x for the schedule list"""
    born = cx.born_all(x, sorted(set(pairs)))
    return [born[p] for p in pairs]


def rank_verdict_in_band(mat, ncols):
    """True when numpy's default rank decision on `mat` is taken at rounding-noise level: the ncols-th singular value
    is above a tenth of matrix_rank's threshold smax*max(M,N)*eps although the reference rank is smaller (verdicts are
    only asserted outside the band around the threshold in force)"""
    mat = np.asarray(mat, dtype=float)
    if mat.ndim != 2 or min(mat.shape) < ncols:
        return False
    sv = np.linalg.svd(mat, compute_uv=False)
    thr = sv[0] * max(mat.shape) * np.finfo(float).eps
    return bool(sv[ncols - 1] > thr / 10 and sv[ncols - 1] < 1e-9 * sv[0])
