"""Fast reference formulas for C02 (dense numpy, no quara code).

mc/refmodel.py states the textbook definitions one matrix at a time; at dim 6 / 8 that is too slow for the
complete-basis enumeration (R.coeffs rebuilds a Gram matrix per call).  The formulas below are the same
definitions written as index contractions over the basis array read as data.  `selfcheck` replays them against
mc/refmodel.py on generic inputs; a mismatch is a harness error, not a violation.
"""
import math

import numpy as np

from mc import refmodel as R


class Ref:
    """reference side of one system: B[a] (basis read as data, orthonormal - verified), dims."""

    def __init__(self, B):
        self.B = np.array(B, dtype=np.complex128)
        self.Bc = self.B.conj()
        self.n, self.d = self.B.shape[0], self.B.shape[1]
        G = np.einsum("aij,bij->ab", self.Bc, self.B)
        if not np.allclose(G, np.eye(self.n), atol=1e-12):
            raise AssertionError("harness: basis is not orthonormal; C02 is stated for orthonormal bases")
        self.hermitian = bool(np.allclose(self.B, self.B.conj().transpose(0, 2, 1), atol=1e-13))

    # coefficient vector <-> matrix
    def mat(self, vec):
        return np.einsum("a,aij->ij", np.asarray(vec, dtype=np.complex128), self.B)

    def coef(self, M):
        # c_a = Tr(B_a^+ M)
        return np.einsum("aij,ij->a", self.Bc, np.asarray(M, dtype=np.complex128))

    # superoperators: hs[a,b] = Tr(B_a^+ G(B_b))
    def action(self, hs):
        hs = np.asarray(hs, dtype=np.complex128)
        return lambda X: self.mat(hs @ self.coef(X))

    def choi(self, hs):
        """sum_ij G(E_ij) (x) E_ij ;  entry [(p,i),(q,j)] = G(E_ij)[p,q], coef(E_ij)_b = conj(B_b[i,j])"""
        hs = np.asarray(hs, dtype=np.complex128)
        T = np.einsum("apq,ab,bij->piqj", self.B, hs, self.Bc, optimize=True)
        return T.reshape(self.n, self.n)

    def hs_from_choi(self, C):
        """G(X)[p,q] = sum_ij C[(p,i),(q,j)] X[i,j]  (= Tr_2[C (1 (x) X^T)]);  hs[a,b] = Tr(B_a^+ G(B_b))"""
        d = self.d
        C4 = np.asarray(C, dtype=np.complex128).reshape(d, d, d, d)
        return np.einsum("apq,piqj,bij->ab", self.Bc, C4, self.B, optimize=True)

    def process_matrix(self, hs):
        """chi with G(X) = sum_{ab} chi[a,b] E_a X E_b^+ over row-major matrix units:
        chi[(i,j),(k,l)] = G(E_jl)[i,k]"""
        hs = np.asarray(hs, dtype=np.complex128)
        GE = np.einsum("ab,bjl,aik->jlik", hs, self.Bc, self.B, optimize=True)  # G(E_jl)[i,k]
        return GE.transpose(2, 0, 3, 1).reshape(self.n, self.n)

    def hs_in_basis(self, hs, T):
        """HS matrix of the same map w.r.t. the orthonormal basis T (array n x d x d)."""
        T = np.asarray(T, dtype=np.complex128)
        W = np.einsum("aij,bij->ab", self.Bc, T)        # coefficients of T_b in B
        V = np.einsum("aij,cij->ac", T.conj(), self.B)  # coefficients of B_c in T
        return V @ np.asarray(hs, dtype=np.complex128) @ W

    def vec_in_basis(self, vec, T):
        T = np.asarray(T, dtype=np.complex128)
        return np.einsum("aij,ij->a", T.conj(), self.mat(vec))

    def hs_from_kraus(self, ks):
        n = self.n
        hs = np.zeros((n, n), dtype=np.complex128)
        for b in range(n):
            hs[:, b] = self.coef(R.kraus_apply(ks, self.B[b]))
        return hs


def comp_basis_ref(d, mode):
    """matrix units; row_major: index = row*d + col, column_major: index = col*d + row"""
    out = [None] * (d * d)
    for r in range(d):
        for c in range(d):
            E = np.zeros((d, d), dtype=np.complex128)
            E[r, c] = 1
            out[r * d + c if mode == "row_major" else c * d + r] = E
    return np.array(out)


# ---- Hermitian basis of N x N matrices, addressable by index (same order as R.hermitian_basis_ref) ----

def herm_descriptors(N):
    desc = [("I", 0, 0)]
    for i in range(N):
        for j in range(i + 1, N):
            desc.append(("S", i, j))
            desc.append(("A", i, j))
    for k in range(1, N):
        desc.append(("D", k, 0))
    return desc


def herm_elem(N, desc):
    t, i, j = desc
    M = np.zeros((N, N), dtype=np.complex128)
    if t == "I":
        M[np.arange(N), np.arange(N)] = 1 / math.sqrt(N)
    elif t == "S":
        M[i, j] = M[j, i] = 1 / math.sqrt(2)
    elif t == "A":
        M[i, j] = -1j / math.sqrt(2)
        M[j, i] = 1j / math.sqrt(2)
    else:
        k = i
        for r in range(k):
            M[r, r] = 1
        M[k, k] = -k
        M = M / math.sqrt(k * (k + 1))
    return M


# ---- deterministic generic real / Hermitian inputs (seed rotates the representative) -----------------

def gen_real(shape, seed, salt=0):
    size = int(np.prod(shape))
    a = R.angles(seed, size, salt)
    v = np.array([math.cos(3.0 * a[k] + 0.37 * k) + 0.25 * math.sin(1.3 * a[k] * (k + 1)) for k in range(size)])
    return v.reshape(shape)


def gen_herm(N, seed, salt=0):
    a = gen_real((N, N), seed, salt)
    b = gen_real((N, N), seed, salt + 3)
    M = a + 1j * b
    return (M + M.conj().T) / 2


def gen_unitary(N, seed, salt=0):
    """generic complex unitary of any size (QR of a generic complex matrix, deterministic)"""
    M = gen_real((N, N), seed, salt + 1) + 1j * gen_real((N, N), seed, salt + 5)
    Q, Rm = np.linalg.qr(M)
    ph = np.diag(Rm) / np.abs(np.diag(Rm))
    return Q * ph


# ---- self check against mc/refmodel.py --------------------------------------------------------------

def selfcheck(ref, seed):
    """list of complaints (empty when the fast formulas agree with mc/refmodel.py)"""
    msgs = []
    d, n = ref.d, ref.n
    B = [ref.B[a] for a in range(n)]
    hs = gen_real((n, n), seed, 2) + 1j * gen_real((n, n), seed, 7)
    X = R.generic_matrix(d, seed, salt=2)
    act = R.action_from_hs(hs, B)
    if np.abs(ref.action(hs)(X) - act(X)).max() > 1e-11:
        msgs.append("action")
    if np.abs(ref.coef(X) - R.coeffs(X, B)).max() > 1e-11:
        msgs.append("coef")
    C = R.choi_from_action(act, d)
    if np.abs(ref.choi(hs) - C).max() > 1e-11:
        msgs.append("choi")
    hs2 = R.hs_from_action(R.action_from_choi(C, d), B)
    if np.abs(hs2 - hs).max() > 1e-10 or np.abs(ref.hs_from_choi(C) - hs).max() > 1e-10:
        msgs.append("hs_from_choi")
    Cg = gen_herm(n, seed, 4) + 1j * gen_herm(n, seed, 9)
    if np.abs(ref.hs_from_choi(Cg) - R.hs_from_action(R.action_from_choi(Cg, d), B)).max() > 1e-10:
        msgs.append("hs_from_choi(generic)")
    # process matrix: G(X) = sum chi_ab E_a X E_b^+
    chi = ref.process_matrix(hs)
    E = R.matrix_units(d)
    Y = np.zeros((d, d), dtype=np.complex128)
    for a in range(n):
        for b in range(n):
            Y = Y + chi[a, b] * (E[a] @ X @ E[b].conj().T)
    if np.abs(Y - act(X)).max() > 1e-10:
        msgs.append("process_matrix")
    # basis change
    U = R.generic_unitary(d, seed, salt=6)
    T = [U @ b @ U.conj().T for b in R.hermitian_basis_ref(d)]
    if np.abs(ref.hs_in_basis(hs, np.array(T)) - R.hs_from_action(act, T)).max() > 1e-10:
        msgs.append("hs_in_basis")
    v = gen_real((n,), seed, 5)
    if np.abs(ref.vec_in_basis(v, np.array(T)) - R.coeffs(R.mat_from_coeffs(v, B), T)).max() > 1e-11:
        msgs.append("vec_in_basis")
    ks = [R.generic_matrix(d, seed, salt=1), R.generic_matrix(d, seed, salt=4)]
    if np.abs(ref.hs_from_kraus(ks) - R.hs_from_kraus(ks, B)).max() > 1e-10:
        msgs.append("hs_from_kraus")
    # indexed hermitian basis = R.hermitian_basis_ref
    Hs = R.hermitian_basis_ref(d)
    desc = herm_descriptors(d)
    if len(desc) != len(Hs) or any(np.abs(herm_elem(d, de) - H).max() > 1e-15 for de, H in zip(desc, Hs)):
        msgs.append("herm_elem")
    for mode in ("row_major", "column_major"):
        cb = comp_basis_ref(d, mode)
        for r in range(d):
            for c in range(d):
                k = r * d + c if mode == "row_major" else c * d + r
                if cb[k][r, c] != 1 or np.abs(cb[k]).sum() != 1:
                    msgs.append("comp_basis_ref")
    Q = gen_unitary(n, seed, 3)
    if np.abs(Q @ Q.conj().T - np.eye(n)).max() > 1e-12:
        msgs.append("gen_unitary")
    return msgs
