"""Virtual joblib: the semantics of joblib.Parallel that matter for reproducibility, with every scheduling
decision exposed as a choice point of a deviation-bounded explorer (E3).

Semantics modelled
* n_jobs in (None, 1): joblib's sequential path - tasks run in the caller's process, in order, ON THE CALLER'S OBJECTS.
* n_jobs > 1: the task list is cut into consecutive batches (choice 'batch'); every batch is pickled and unpickled once
  (objects shared inside a batch stay shared, different batches get independent copies, the parent's objects are not
  touched); batches are grouped onto virtual workers (choice 'assign': a set partition of the batches into <= n_jobs
  groups); the batches are executed in some order (choice 'order': a permutation); every virtual worker carries its own
  process-global state (numpy global RandomState, quara Settings atol) from batch to batch, initialised with a
  worker-specific value that differs from the parent's; results come back pickled, in task order.
* nested Parallel calls inside a task are further choice points (their workers are fresh).

Choice 0 is always the default (one task per batch, every batch on its own worker if possible, submission order).
"""
import itertools
import pickle

import numpy as np

try:  # loky ships tasks with cloudpickle (closures and lambdas are legal tasks)
    import cloudpickle as _cp
    _dumps = _cp.dumps
except Exception:  # pragma: no cover
    _dumps = pickle.dumps


class ScheduleDivergence(Exception):
    pass


class Chooser:
    """replays a prefix of choices, then takes 0; records every choice point"""

    def __init__(self, prefix=()):
        self.prefix = list(prefix)
        self.points = []     # (label, n_options, chosen)

    def choose(self, label, n):
        i = len(self.points)
        if n <= 0:
            raise ScheduleDivergence("choice point without options")
        if i < len(self.prefix):
            c = self.prefix[i]
            if not (0 <= c < n):
                raise ScheduleDivergence("replayed choice %d out of range %d at point %d (%s)" % (c, n, i, label))
        else:
            c = 0
        self.points.append((label, n, c))
        return c


def consecutive_partitions(n):
    """all ways to cut range(n) into consecutive batches; first = all singletons"""
    out = []
    for cuts in itertools.product((1, 0), repeat=n - 1):   # 1 = cut after position i
        parts, cur = [], [0]
        for i, c in enumerate(cuts):
            if c:
                parts.append(cur)
                cur = [i + 1]
            else:
                cur.append(i + 1)
        parts.append(cur)
        out.append(parts)
    return out


def set_partitions(n, kmax):
    """restricted growth strings of length n with at most kmax blocks; first = as spread out as possible"""
    out = []

    def rec(prefix, used):
        if len(prefix) == n:
            out.append(tuple(prefix))
            return
        for b in range(min(used + 1, kmax)):
            rec(prefix + [b], max(used, b + 1))
    rec([], 0)
    # default first: every batch on its own worker as far as workers exist (round robin beyond)
    default = tuple(i if i < kmax else i % kmax for i in range(n))
    if default in out:
        out.remove(default)
    out.insert(0, default)
    return out


class VirtualJoblib:
    """drop-in for the `joblib` module attribute of the simulation modules"""

    def __init__(self, chooser, log=None, settings_cls=None):
        self.chooser = chooser
        self.depth = 0
        self.calls = 0
        self.log = log if log is not None else []
        self.settings_cls = settings_cls
        self._worker_serial = 0

    # joblib API used by quara
    def delayed(self, f):
        def make(*a, **k):
            return (f, a, k)
        return make

    def Parallel(self, n_jobs=None, verbose=0, **kw):
        return _VParallel(self, n_jobs)

    # ---- process-global state
    def _get_globals(self):
        st = {"np": np.random.get_state()}
        if self.settings_cls is not None:
            st["atol"] = self.settings_cls.get_atol()
        return st

    def _set_globals(self, st):
        np.random.set_state(st["np"])
        if self.settings_cls is not None:
            self.settings_cls.set_atol(st["atol"])

    def _fresh_worker_globals(self):
        self._worker_serial += 1
        rs = np.random.RandomState(900000 + self._worker_serial)
        st = {"np": rs.get_state()}
        if self.settings_cls is not None:
            # a spawned worker imports quara afresh: the default tolerance, not the parent's current one
            st["atol"] = 1e-13
        return st


class _VParallel:
    def __init__(self, vj, n_jobs):
        self.vj = vj
        self.n_jobs = n_jobs

    def __call__(self, tasks):
        vj = self.vj
        tasks = list(tasks)
        vj.calls += 1
        call_id = vj.calls
        n = len(tasks)
        if n == 0:
            return []
        if self.n_jobs in (None, 1) or n == 0:
            vj.log.append(("serial", call_id, n))
            return [f(*a, **k) for (f, a, k) in tasks]
        nj = self.n_jobs if self.n_jobs > 0 else 4
        ch = vj.chooser
        parts = consecutive_partitions(n)
        pi = ch.choose("batch@%d" % call_id, len(parts)) if len(parts) > 1 else 0
        batches = parts[pi]
        nb = len(batches)
        assigns = set_partitions(nb, nj)
        ai = ch.choose("assign@%d" % call_id, len(assigns)) if len(assigns) > 1 else 0
        assign = assigns[ai]
        orders = list(itertools.permutations(range(nb)))
        oi = ch.choose("order@%d" % call_id, len(orders)) if len(orders) > 1 else 0
        order = orders[oi]
        vj.log.append(("parallel", call_id, n, nj, batches, assign, order))
        parent = vj._get_globals()
        workers = {}
        results = [None] * n
        try:
            for b in order:
                w = assign[b]
                if w not in workers:
                    workers[w] = vj._fresh_worker_globals()
                payload = pickle.loads(_dumps([tasks[i] for i in batches[b]]))
                vj._set_globals(workers[w])
                try:
                    outs = [f(*a, **k) for (f, a, k) in payload]
                finally:
                    workers[w] = vj._get_globals()
                outs = pickle.loads(_dumps(outs))
                for i, o in zip(batches[b], outs):
                    results[i] = o
        finally:
            vj._set_globals(parent)
        return results


def explore(run, bound, on_execution, max_executions=None):
    """deviation-bounded exploration (iterative): run(prefix) -> (chooser, observation).
    Every execution with at most `bound` non-default choices is visited exactly once."""
    count = 0
    stack = [()]
    while stack:
        prefix = stack.pop()
        chooser, obs = run(prefix)
        count += 1
        on_execution(prefix, chooser, obs)
        if max_executions and count >= max_executions:
            return count, False
        pts = chooser.points
        used = sum(1 for (_, _, c) in pts if c != 0)
        if used >= bound:
            continue
        for i in range(len(prefix), len(pts)):
            label, n, c = pts[i]
            for alt in range(1, n):
                stack.append(tuple(p[2] for p in pts[:i]) + (alt,))
    return count, True
