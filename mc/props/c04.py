"""C04 Equality and inequality projections are nearest-point projections.

E1 over (type x outcome count x system) x tuples of Hermitian blocks from the shared alphabet x scales.
Oracle: reference projections P_A (pseudo-inverse) / P_B (eigen-decomposition) in the isometric frame of
mc/frames.py, the Moreau certificate (necessary and sufficient for nearest point in the PSD cone), idempotence,
fixed points, object-level == variable-level == closures under both flags, argument byte snapshots.
"""
import itertools

import numpy as np

from mc import alphabet as A, refmodel as R
from mc.core import Out, inner
from mc.frames import frame

ID = "C04"
RULE = ("inputs are tuples of Hermitian blocks U diag(spectrum) U^+ (spectrum patterns x eigenbases {identity, Fourier, "
        "complex generic}) mapped through the adjoint frame to stacked parameter vectors, at scales 1e-3/1/1e3; "
        "non-trivial = at least one block has a negative eigenvalue or the equality constraint is violated by > 1e-6; "
        "distinct = distinct (type, m, system, tuple, scale)")
ASSUMPTIONS = ["at scale 1 every input is also handed over Fortran-ordered, as a non-contiguous view and (measurement processes) with "
               "multi-index outcome shapes, and perturbed inputs feasible + t x (violating direction), t = 1e-6, 1e-9, whose nearest "
               "point is the feasible point itself (normal-cone argument) are projected at object and variable level with tolerance 1e-11",
               "nearest-point-ness for the PSD cone is decided by the Moreau certificate (complete over competitors); "
               "for the affine set by equality with the pseudo-inverse projection",
               "inputs outside the block alphabet are not covered (the projections are non-linear)"]
BOUNDS = {"quick": "Q1,Q3 all types, m=2..5 (pool^m tuples with pool cut 19/8/4/3 for m=2/3/4/5); Q2 state/povm m<=3/gate/mprocess m=2 reduced pool; after_cache_deletion: 5 configurations x 6 tuples x all 72 histories of one or two "
                   "CompositeSystem.delete_* calls between two projections",
          "thorough": "adds Q2 full pools, Q6 (qubit x qutrit) state/povm/gate/mprocess m=2, Q3g"}

TOL = 1e-9


def pool_names(size):
    full = [(s, b) for s in ("fullrank", "degenerate", "rank1", "one_negative", "all_negative", "mixed_sign", "rank_dm1")
            for b in ("id", "fourier", "generic")] + [("zero", "id")]
    if size == "full":
        return full
    if size == 8:
        return [("fullrank", "generic"), ("one_negative", "generic"), ("all_negative", "fourier"), ("rank1", "id"),
                ("degenerate", "generic"), ("mixed_sign", "fourier"), ("zero", "id"), ("one_negative", "id")]
    if size == 4:
        return [("fullrank", "generic"), ("one_negative", "generic"), ("all_negative", "fourier"), ("degenerate", "id")]
    if size == 3:
        return [("fullrank", "generic"), ("one_negative", "generic"), ("mixed_sign", "fourier")]
    raise ValueError(size)


def block(dim, name, seed):
    s, b = name
    sp = A.spectra(dim)
    if s not in sp:
        s = "fullrank"
    return R.hermitian_from(sp[s], A.eigenbases(dim, seed)[b])


def plan(tier):
    """list of (kind, sys, m, poolsize)"""
    out = []
    for sysname in ("Q1", "Q3"):
        out.append(("state", sysname, None, "full"))
        out.append(("gate", sysname, None, "full"))
        for m, ps in ((2, "full"), (3, 8), (4, 4), (5, 3)):
            out.append(("povm", sysname, m, ps))
            if sysname == "Q1" or m <= 3 or tier == "thorough":
                out.append(("mprocess", sysname, m, ps if sysname == "Q1" else {2: 8, 3: 4, 4: 3, 5: 3}[m]))
    if tier == "quick":
        out += [("state", "Q2", None, "full"), ("povm", "Q2", 2, "full"), ("povm", "Q2", 3, 8), ("povm", "Q2", 4, 3),
                ("gate", "Q2", None, "full"), ("mprocess", "Q2", 2, 4), ("mprocess", "Q2", 3, 3),
                ("state", "Q6", None, "full"), ("povm", "Q6", 2, 4), ("gate", "Q6", None, 3)]
    else:
        out += [("state", "Q2", None, "full"), ("povm", "Q2", 2, "full"), ("povm", "Q2", 3, 8), ("povm", "Q2", 4, 4),
                ("gate", "Q2", None, "full"), ("mprocess", "Q2", 2, 8), ("mprocess", "Q2", 3, 3),
                ("state", "Q6", None, "full"), ("povm", "Q6", 2, 8), ("povm", "Q6", 3, 4), ("gate", "Q6", None, 4),
                ("mprocess", "Q6", 2, 3), ("state", "Q3g", None, "full"), ("povm", "Q3g", 3, 8), ("gate", "Q3g", None, 8)]
    return out


SCALES = (1.0, 1e-3, 1e3, "mixed")
MIXED = (1e3, 1e-3, 1.0, 1e2, 1e-2)


def families(tier, seed):
    cases = []
    for kind, sysname, m, ps in plan(tier):
        names = pool_names(ps)
        nb = m or 1
        tuples = list(itertools.product(range(len(names)), repeat=nb))
        big = sysname in ("Q2", "Q6") and kind in ("gate", "mprocess")
        chunk = 4 if (sysname == "Q6" and big) else 12 if big else 60
        for sc in SCALES:
            for i in range(0, len(tuples), chunk):
                cases.append({"kind": kind, "sys": sysname, "m": m, "pool": ps, "scale": sc, "tuples": tuples[i:i + chunk]})
    # one fixed input (independent of VERIF_SEED) on which the recorded absolute-threshold finding manifests
    probe = [{"kind": "povm", "sys": "Q1", "m": 4, "pool": 4, "scale": 1e3, "tuples": [[2, 2, 2, 1]], "fixed_seed": 1}]
    # E2-style histories on the CompositeSystem's lazily built tables: fill, delete one or two of them, project again
    dele = []
    for kind, sysname, m in (("state", "Q1", None), ("povm", "Q1", 2), ("gate", "Q1", None), ("mprocess", "Q1", 2), ("gate", "Q3", None)):
        names = pool_names("full")
        tuples = list(itertools.product(range(len(names)), repeat=m or 1))
        step = max(1, len(tuples) // 6)
        dele.append({"kind": kind, "sys": sysname, "m": m, "pool": "full", "tuples": tuples[::step][:6]})
    return [("projections", cases + probe), ("after_cache_deletion", dele)]


def guards(summary):
    g = []
    info = summary["info"]
    for k in ("clipped", "eq_violated", "already_feasible_ineq", "complex_blocks", "degenerate_blocks", "flag_true_checked",
              "closures_checked", "variant_objects", "near_feasible_inputs", "projected_after_deletion", "deletion_histories"):
        if info.get(k, 0) < 1:
            g.append("never seen: " + k)
    return g


def close(a, b, scale):
    a = np.asarray(a, float).ravel()
    b = np.asarray(b, float).ravel()
    if a.shape != b.shape:
        return False, float("inf")
    err = float(np.abs(a - b).max()) if a.size else 0.0
    return err <= TOL * max(1.0, scale), err


def execute(family, p, seed):
    if family == "after_cache_deletion":
        return ex_deletion(p, seed)
    out = Out()
    seed = p.get("fixed_seed", seed)
    kind, sysname, m, sc = p["kind"], p["sys"], p["m"], p["scale"]
    F = frame(kind, sysname, m)
    names = pool_names(p["pool"])
    bd = F.block_dim()
    cls = F.cls()
    cfg = "%s:%s:m=%s" % (kind, sysname, m)
    digs = []
    for tup in p["tuples"]:
        tup = tuple(tup)
        if sc == "mixed":
            blocks = [MIXED[k % len(MIXED)] * block(bd, names[i], seed) for k, i in enumerate(tup)]
        else:
            blocks = [sc * block(bd, names[i], seed) for i in tup]
        x0 = F.from_blocks(blocks)
        scale = max(1.0, float(np.abs(x0).max()))
        tag = "%s:scale=%s" % (cfg, sc)
        nontriv = False
        if any(names[i][1] != "id" for i in tup):
            out.count("complex_blocks")
        if any(names[i][0] == "degenerate" for i in tup):
            out.count("degenerate_blocks")
        xa = F.PA(x0)
        xb = F.PB(x0)
        if np.abs(xa - x0).max() > 1e-6 * scale:
            out.count("eq_violated")
            nontriv = True
        if np.abs(xb - x0).max() > 1e-9 * scale:
            out.count("clipped")
            nontriv = True
        else:
            out.count("already_feasible_ineq")

        # The library truncates imaginary rounding noise with an ABSOLUTE threshold (default atol = 1e-13) and raises above
        # it.  At scales > 10 the noise of an eigen-decomposition exceeds that, so there the projections are driven with
        # an explicit threshold (the documented knob), and the default-threshold behaviour is probed separately.
        big = scale > 10.0
        ekw = {"eps_truncate_imaginary_part": 1e-11 * scale} if big else {}
        if big:
            probe = F.make(x0)
            okp, rp = A.call(probe.calc_proj_ineq_constraint)
            out.ops += 1
            if not okp:
                if isinstance(rp, ValueError) and "imaginary parts" in str(rp):
                    out.fail("ineq-projection:raises:imag-truncation-absolute-threshold:scale>10",
                             "%s tuple=%r scale=%s with the default eps_truncate_imaginary_part: %s" % (cfg, tup, sc, A.fmt_exc(rp)[:160]))
                else:
                    out.fail("obj.calc_proj_ineq_constraint:raises:%s" % tag, "default threshold, tuple=%r: %s" % (tup, A.fmt_exc(rp)))
        # ---------- object level
        obj = F.make(x0, **ekw)
        snap = F.stacked(obj)
        ok, pe = A.call(obj.calc_proj_eq_constraint)
        out.ops += 1
        out.traces += 1
        xe = None
        if not ok:
            out.fail("obj.calc_proj_eq_constraint:raises:%s" % tag, "%s tuple=%r: %s" % (cfg, tup, A.fmt_exc(pe)))
        else:
            xe = F.stacked(pe)
            good, err = close(xe, xa, scale)
            if not good:
                out.fail("obj.calc_proj_eq_constraint:not-nearest:%s" % cfg, "tuple=%r scale=%s err=%.3g (reference pinv projection)" % (tup, sc, err))
            if F.eq_defect(xe) > 1e-11 * scale:
                out.fail("obj.calc_proj_eq_constraint:infeasible:%s" % cfg, "tuple=%r scale=%s eq defect %.3g" % (tup, sc, F.eq_defect(xe)))
            ok2, pe2 = A.call(pe.calc_proj_eq_constraint)
            out.ops += 1
            if not ok2 or not close(F.stacked(pe2), xe, scale)[0] or np.abs(F.stacked(pe2) - xe).max() > 1e-12 * scale:
                out.fail("obj.calc_proj_eq_constraint:not-idempotent:%s" % cfg, "tuple=%r scale=%s" % (tup, sc))
        ok, pi = A.call(obj.calc_proj_ineq_constraint)
        out.ops += 1
        out.traces += 1
        xi = None
        if not ok:
            out.fail("obj.calc_proj_ineq_constraint:raises:%s" % tag, "%s tuple=%r: %s" % (cfg, tup, A.fmt_exc(pi)))
        else:
            xi = F.stacked(pi)
            good, err = close(xi, xb, scale)
            if not good:
                out.fail("obj.calc_proj_ineq_constraint:not-nearest:%s" % cfg, "tuple=%r scale=%s err=%.3g (reference eigen-clipping)" % (tup, sc, err))
            # Moreau certificate, complete over all PSD competitors
            for H0, H1 in zip(F.to_blocks(x0), F.to_blocks(xi)):
                c = R.moreau_certificate(H0, H1)
                if c["out_min_eig"] < -1e-9 * scale or c["res_min_eig"] < -1e-9 * scale or c["slack"] > 1e-9 * scale * scale:
                    out.fail("obj.calc_proj_ineq_constraint:certificate:%s" % cfg, "tuple=%r scale=%s %r" % (tup, sc, c))
                    break
            ok2, pi2 = A.call(pi.calc_proj_ineq_constraint)
            out.ops += 1
            if not ok2 or not close(F.stacked(pi2), xi, scale)[0]:
                out.fail("obj.calc_proj_ineq_constraint:not-idempotent:%s" % cfg, "tuple=%r scale=%s" % (tup, sc))
        if not np.array_equal(F.stacked(obj), snap):
            out.fail("obj.calc_proj:mutates-self:%s" % cfg, "tuple=%r" % (tup,))
        # fixed points: feasible in -> same out
        fa = F.make(xa, **ekw)
        ok, r = A.call(fa.calc_proj_eq_constraint)
        out.ops += 1
        if not ok or np.abs(F.stacked(r) - xa).max() > 1e-11 * scale:
            out.fail("obj.calc_proj_eq_constraint:moves-feasible:%s" % cfg, "tuple=%r scale=%s" % (tup, sc))
        fb = F.make(xb, **ekw)
        ok, r = A.call(fb.calc_proj_ineq_constraint)
        out.ops += 1
        if not ok:
            out.fail("obj.calc_proj_ineq_constraint:raises:%s" % tag, "on feasible point tuple=%r: %s" % (tup, A.fmt_exc(r)))
        elif np.abs(F.stacked(r) - xb).max() > TOL * scale:
            out.fail("obj.calc_proj_ineq_constraint:moves-feasible:%s" % cfg, "tuple=%r scale=%s" % (tup, sc))

        # ---------- the same values handed over in other memory layouts / with a multi-index outcome shape (scale 1 only)
        if sc == 1.0:
            variants = [("layout=F", {"layout": "F"}), ("layout=strided", {"layout": "strided"})]
            if kind == "mprocess":
                shapes = {2: [(1, 2), (2, 1)], 3: [(1, 3), (3, 1)], 4: [(2, 2), (1, 4), (1, 2, 2)], 5: [(1, 5), (5, 1)]}[m]
                variants += [("shape=%s" % "x".join(map(str, sh)), {"shape": sh}) for sh in shapes]
            for vname, vkw in variants:
                vcls = vname.split("=")[0] + "=" + ("multi-index" if vname.startswith("shape") else vname.split("=")[1])
                okv, vobj = A.call(F.make, x0, **vkw)
                if not okv:
                    out.fail("variant:constructor-raises:%s:%s" % (vcls, cfg), "tuple=%r %s: %s" % (tup, vname, A.fmt_exc(vobj)))
                    continue
                out.count("variant_objects")
                for nm, meth, want in (("eq", "calc_proj_eq_constraint", xa), ("ineq", "calc_proj_ineq_constraint", xb)):
                    okv, r = A.call(getattr(vobj, meth))
                    out.ops += 1
                    out.traces += 1
                    if not okv:
                        out.fail("variant:obj.%s:raises:%s:%s" % (nm, vcls, cfg), "tuple=%r %s: %s" % (tup, vname, A.fmt_exc(r)))
                        continue
                    good, err = close(F.stacked(r), want, scale)
                    if not good:
                        out.fail("variant:obj.calc_proj_%s_constraint:not-nearest:%s:%s" % (nm, vcls, cfg),
                                 "tuple=%r %s err=%.3g against the reference projection of the same values" % (tup, vname, err))
                    if "shape" in vkw and tuple(getattr(r, "shape", ())) != tuple(vkw["shape"]):
                        out.fail("variant:obj.calc_proj_%s_constraint:shape-lost:%s" % (nm, cfg), "%s -> %r" % (vname, getattr(r, "shape", None)))
            # ---------- inputs that are ALMOST feasible: x_feasible + t * (x0 - x_feasible) has the same nearest point for every t >= 0
            for t in (1e-6, 1e-9):
                for nm, meth, want, wv in (("eq", "calc_proj_eq_constraint", xa, "calc_proj_eq_constraint_with_var"),
                                           ("ineq", "calc_proj_ineq_constraint", xb, "calc_proj_ineq_constraint_with_var")):
                    dvec = x0 - want
                    if np.abs(dvec).max() < 1e-6 * scale:
                        continue
                    xn = want + t * dvec / np.abs(dvec).max()
                    out.count("near_feasible_inputs")
                    okn, r = A.call(getattr(F.make(xn), meth))
                    okw, rw = A.call(getattr(cls, wv), F.c_sys, F.var_from_stacked(xn, False), on_para_eq_constraint=False)
                    out.ops += 2
                    out.traces += 2
                    for route, okr, got in (("obj", okn, F.stacked(r) if okn else r), ("with_var", okw, rw)):
                        if not okr:
                            out.fail("near-feasible:%s.%s:raises:%s" % (route, nm, cfg), "tuple=%r t=%g: %s" % (tup, t, A.fmt_exc(got)))
                            continue
                        err = float(np.abs(np.asarray(got, float).ravel() - want).max())
                        if err > 1e-11 * scale:
                            out.fail("near-feasible:%s.calc_proj_%s_constraint:not-nearest:%s" % (route, nm, cfg),
                                     "tuple=%r: input = feasible point + %g x (violating direction); result is %.3g away from the feasible point "
                                     "it must return" % (tup, t, err))

        # ---------- variable level, both flags, and the closures handed to the optimisers
        for flag in (False, True):
            base = x0 if not flag else xa          # flag=True can only represent eq-feasible objects
            v0 = F.var_from_stacked(base, flag)
            exp_eq = F.var_from_stacked(F.PA(base), flag)
            exp_in = F.var_from_stacked(F.PB(base), flag)
            tmpl = F.make(base, on_para_eq_constraint=flag, **ekw)
            if flag:
                out.count("flag_true_checked")
            routes = [
                ("with_var.eq", lambda v: cls.calc_proj_eq_constraint_with_var(F.c_sys, v, on_para_eq_constraint=flag), exp_eq),
                ("with_var.ineq", lambda v: cls.calc_proj_ineq_constraint_with_var(F.c_sys, v, on_para_eq_constraint=flag, **ekw), exp_in),
                ("func.eq", lambda v: tmpl.func_calc_proj_eq_constraint(flag)(v), exp_eq),
                ("func.ineq", lambda v: tmpl.func_calc_proj_ineq_constraint(flag)(v), exp_in),
                ("func_with_var.eq", lambda v: tmpl.func_calc_proj_eq_constraint_with_var(flag)(v), exp_eq),
                ("func_with_var.ineq", lambda v: tmpl.func_calc_proj_ineq_constraint_with_var(flag)(v), exp_in),
                ("func_default.eq", lambda v: tmpl.func_calc_proj_eq_constraint()(v), exp_eq),
                ("func_default.ineq", lambda v: tmpl.func_calc_proj_ineq_constraint_with_var()(v), exp_in),
            ]
            for rname, fn, expv in routes:
                v = v0.copy()
                keep = v.copy()
                ok, got = A.call(fn, v)
                out.ops += 1
                out.traces += 1
                out.count("closures_checked")
                site = "%s:flag=%s" % (rname, flag)
                if not ok:
                    if big and isinstance(got, ValueError) and "imaginary parts" in str(got):
                        # closure routes that rebuild the object with the default threshold (generate_from_var)
                        out.fail("ineq-projection:raises:imag-truncation-absolute-threshold:scale>10",
                                 "%s via %s tuple=%r scale=%s: %s" % (cfg, site, tup, sc, A.fmt_exc(got)[:160]))
                    else:
                        out.fail("%s:raises:%s" % (site, tag), "tuple=%r: %s" % (tup, A.fmt_exc(got)))
                    continue
                good, err = close(got, expv, scale)
                if not good:
                    out.fail("%s:differs-from-object-level:%s" % (site, cfg), "tuple=%r scale=%s err=%.3g" % (tup, sc, err))
                if not np.array_equal(v, keep):
                    out.fail("%s:mutates-argument:%s" % (site, cfg), "tuple=%r scale=%s max change %.3g" % (tup, sc, np.abs(v - keep).max()))
            # closures requested with an explicit flag from a template built with the OTHER flag, and with None from both
            other = F.make(base, on_para_eq_constraint=not flag, **ekw)
            cross = [
                ("func_cross.eq", lambda v: other.func_calc_proj_eq_constraint(flag)(v), exp_eq),
                ("func_cross.ineq", lambda v: other.func_calc_proj_ineq_constraint(flag)(v), exp_in),
                ("func_with_var_cross.eq", lambda v: other.func_calc_proj_eq_constraint_with_var(flag)(v), exp_eq),
                ("func_with_var_cross.ineq", lambda v: other.func_calc_proj_ineq_constraint_with_var(flag)(v), exp_in),
                ("func_with_var_none.eq", lambda v: tmpl.func_calc_proj_eq_constraint_with_var(None)(v), exp_eq),
                ("func_none.ineq", lambda v: tmpl.func_calc_proj_ineq_constraint(None)(v), exp_in),
            ]
            for rname, fn, expv in cross:
                v = v0.copy()
                ok, got = A.call(fn, v)
                out.ops += 1
                out.traces += 1
                site = "%s:flag=%s" % (rname, flag)
                if not ok:
                    if big and isinstance(got, ValueError) and "imaginary parts" in str(got):
                        out.fail("ineq-projection:raises:imag-truncation-absolute-threshold:scale>10",
                                 "%s via %s tuple=%r scale=%s: %s" % (cfg, site, tup, sc, A.fmt_exc(got)[:160]))
                    else:
                        out.fail("%s:raises:%s" % (site, tag), "tuple=%r: %s" % (tup, A.fmt_exc(got)))
                    continue
                good, err = close(got, expv, scale)
                if not good:
                    out.fail("%s:explicit-flag-not-honoured-or-wrong:%s" % (site, cfg), "tuple=%r scale=%s err=%.3g" % (tup, sc, err))
                if not np.array_equal(v, v0):
                    out.fail("%s:mutates-argument:%s" % (site, cfg), "tuple=%r" % (tup,))
            # object with the flag: projection then to_var
            for nm, meth, expv in (("eq", "calc_proj_eq_constraint", exp_eq), ("ineq", "calc_proj_ineq_constraint", exp_in)):
                ok, r = A.call(getattr(tmpl, meth))
                out.ops += 1
                if ok:
                    ok, r = A.call(r.to_var)
                if not ok:
                    out.fail("obj.%s.to_var:raises:flag=%s:%s" % (nm, flag, tag), "tuple=%r: %s" % (tup, A.fmt_exc(r)))
                elif not close(r, expv, scale)[0]:
                    out.fail("obj.%s.to_var:differs:flag=%s:%s" % (nm, flag, cfg), "tuple=%r scale=%s" % (tup, sc))
        if nontriv:
            out.count("_inner_nontrivial")
        if xe is not None and xi is not None:
            digs.append(A.digest(xe, xi))
    out.count("_inner", len(p["tuples"]) - 1)
    out.count("_inner_nontrivial", -1 if out.info.get("_inner_nontrivial", 0) > 0 else 0)
    out.nontrivial = out.info.get("_inner_nontrivial", 0) >= 0 and (out.info.get("clipped", 0) + out.info.get("eq_violated", 0)) > 0
    out.outcome = "ok" if not out.fails else "fail"
    out.digest = A.digest(*[np.frombuffer(d.encode(), dtype=np.uint8) for d in digs]) if digs else ""
    return out


def ex_deletion(p, seed):
    """every history (fill the CompositeSystem's lazily built tables by projecting once; call one or two of its
    delete_* methods, all ordered pairs; project again): both projections still equal the reference nearest points"""
    out = Out()
    kind, sysname, m = p["kind"], p["sys"], p["m"]
    F = frame(kind, sysname, m)
    names = pool_names(p["pool"])
    bd = F.block_dim()
    cfg = "%s:%s:m=%s" % (kind, sysname, m)
    seen = set()
    n_el = 0
    for tup in p["tuples"]:
        tup = tuple(tup)
        x0 = F.from_blocks([block(bd, names[i], seed) for i in tup])
        scale = max(1.0, float(np.abs(x0).max()))
        xa, xb = F.PA(x0), F.PB(x0)
        obj = F.make(x0)
        c_sys = obj.composite_system
        dels = sorted(n for n in dir(c_sys) if n.startswith("delete_") and callable(getattr(c_sys, n)))
        if len(dels) < 2:
            raise AssertionError("harness: CompositeSystem has no delete_* methods any more")
        hists = [(d,) for d in dels] + list(itertools.product(dels, repeat=2))
        for h in hists:
            n_el += 1
            out.count("deletion_histories")
            obj = F.make(x0)
            A.call(obj.calc_proj_ineq_constraint)
            A.call(obj.calc_proj_eq_constraint)
            for d in h:
                getattr(obj.composite_system, d)()
            for which, ref in (("ineq", xb), ("eq", xa)):
                ok, r = A.call(getattr(obj, "calc_proj_%s_constraint" % which))
                out.ops += 1
                out.traces += 1
                if not ok:
                    sig = "obj.calc_proj_%s_constraint:raises:after-cache-deletion:%s" % (which, cfg)
                    if sig not in seen:
                        seen.add(sig)
                        out.fail(sig, "tuple=%r after %r: %s" % (tup, h, A.fmt_exc(r)))
                    continue
                good, err = close(F.stacked(r), ref, scale)
                if not good:
                    sig = "obj.calc_proj_%s_constraint:not-nearest:after-cache-deletion:%s" % (which, cfg)
                    if sig not in seen:
                        seen.add(sig)
                        out.fail(sig, "tuple=%r after fill + %r: err=%.3g against the reference projection" % (tup, h, err))
                else:
                    out.count("projected_after_deletion")
    inner(out, max(0, n_el - 1))
    out.outcome = "ok" if not out.fails else "fail"
    return out
