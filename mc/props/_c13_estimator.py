"""C13 machine B: histories of LossMinimizationEstimator.calc_estimate calls that re-use the same loss and
algorithm objects across tomographies, datasets, weighting options and constraint options.
State = what each shared object processed last; invariant on every transition: the estimate equals the estimate
obtained with brand-new loss / algorithm objects for the same arguments."""
import copy
import itertools
import math

import numpy as np

from mc import alphabet as A, refmodel as R
from mc.core import Out, inner, HarnessError

_POOL = {}
TOL = 1e-10


class OperandModified(Exception):
    pass


def copy_objects(objs, seed):
    """deep copy of the shared loss / algorithm objects that KEEPS THE IDENTITY of the tomography objects they refer to
    (a shortcut keyed on 'same tomography instance as last time' must stay reachable)"""
    qts = build(seed)[0]
    memo = {id(qt): qt for qt in qts.values()}
    return copy.deepcopy(objs, memo)


def menu(tier="quick"):
    ops = []
    losses = [("se_fast", "identity"), ("se_fast", "custom"), ("re_fast", "identity")]
    for qt in ("qst", "povmt"):
        for d in (0, 1):
            for (l, o) in losses:
                for ao in ("both", "eq_only"):
                    ops.append((qt, d, l, o, ao))
        # covariance-based weights on the dataset that contains zero entries (the weights are built from a regularised copy of the data)
        # (POVM tomography: without the inequality projection - the ill-conditioned weighted run needs the full iteration budget otherwise)
        ops.append((qt, 1, "se_fast", "invcov", "both" if qt == "qst" else "eq_only"))
    return ops


def tester_povms(c, seed):
    d = c.dim
    out = []
    for salt in (2, 5, 9):
        out.append(A.q_povm(c, A.povm_generic(d, 2, seed, salt=salt)))
    return out


def tester_states(c, seed):
    d = c.dim
    U = R.generic_unitary(d, seed, salt=4)
    F = R.fourier_unitary(d)
    rhos = []
    for V in (np.eye(d), U, F, U @ F):
        for k in range(d):
            psi = V[:, k]
            rhos.append(np.outer(psi, psi.conj()))
    rhos = rhos[:5]
    return [A.q_state(c, r) for r in rhos]


def build(seed):
    if seed in _POOL:
        return _POOL[seed]
    from quara.protocol.qtomography.standard.standard_qst import StandardQst
    from quara.protocol.qtomography.standard.standard_povmt import StandardPovmt
    c = A.make_system("Q1")
    qst = StandardQst(tester_povms(c, seed), on_para_eq_constraint=True, schedules="all")
    povmt = StandardPovmt(tester_states(c, seed), 2, on_para_eq_constraint=True, schedules="all")
    qts = {"qst": qst, "povmt": povmt}
    data = {}
    for name, qt in qts.items():
        if name == "qst":
            true = A.q_state(c, A.states_ref(2, seed)["pure_generic"])
        else:
            true = A.q_povm(c, A.povms_ref(2, seed, ms=(2,))["projective_m2"])
        ps = qt.calc_prob_dists(true)
        sets = []
        for variant in (0, 1):
            ds = []
            for i, p in enumerate(ps):
                p = np.asarray(p, float)
                bump = np.array([math.cos(1.7 * (i + 1) + 0.9 * k + 2.3 * variant) for k in range(len(p))]) * 0.12
                q = np.clip(p + bump, 0.01, None)
                q = q / q.sum()
                n = 100 if variant == 0 else 40
                if variant == 1 and i == 1:
                    q = np.zeros(len(p))
                    q[int(np.argmax(p))] = 1.0          # all shots of this schedule gave one outcome
                ds.append((n, q))
            sets.append(ds)
        data[name] = sets
    weights = {}
    for name, qt in qts.items():
        ws = []
        for i in range(qt.num_schedules):
            m = len(data[name][0][i][1])
            ws.append(np.diag([1.0 + 0.5 * ((i + k) % 3) for k in range(m)]))
        weights[name] = ws
    _POOL[seed] = (qts, data, weights)
    return _POOL[seed]


def new_objects():
    from quara.loss_function.standard_qtomography_based_weighted_probability_based_squared_error import (
        StandardQTomographyBasedWeightedProbabilityBasedSquaredError as SE)
    from quara.loss_function.standard_qtomography_based_weighted_relative_entropy import (
        StandardQTomographyBasedWeightedRelativeEntropy as RE)
    from quara.minimization_algorithm.projected_gradient_descent_backtracking import ProjectedGradientDescentBacktracking as PGDB
    return {"se_fast": SE(), "re_fast": RE(), "algo": PGDB()}


def run_op(op, objs, seed):
    from quara.loss_function.standard_qtomography_based_weighted_probability_based_squared_error import (
        StandardQTomographyBasedWeightedProbabilityBasedSquaredErrorOption as SEO)
    from quara.loss_function.standard_qtomography_based_weighted_relative_entropy import (
        StandardQTomographyBasedWeightedRelativeEntropyOption as REO)
    from quara.minimization_algorithm.projected_gradient_descent_backtracking import ProjectedGradientDescentBacktrackingOption as PO
    from quara.protocol.qtomography.standard.loss_minimization_estimator import LossMinimizationEstimator
    qts, data, weights = build(seed)
    qtn, d, l, o, ao = op
    qt = qts[qtn]
    if l == "se_fast":
        lo = SEO("identity") if o == "identity" else SEO("inverse_sample_covariance") if o == "invcov" else \
            SEO("custom", weights=[w.copy() for w in weights[qtn]])
    else:
        lo = REO("identity")
    po = PO(on_algo_eq_constraint=True, on_algo_ineq_constraint=(ao == "both"), mode_stopping_criterion_gradient_descent="sum_absolute_difference_variable",
            num_history_stopping_criterion_gradient_descent=1, eps=1e-9, max_iteration_optimization=300)
    est = LossMinimizationEstimator()
    emp = [(n, q.copy()) for n, q in data[qtn][d]]
    res = est.calc_estimate(qt, emp, objs[l], lo, objs["algo"], po, is_computation_time_required=False)
    changed = [i for i, ((n, q), (n0, q0)) in enumerate(zip(emp, data[qtn][d])) if n != n0 or q.shape != q0.shape or not np.array_equal(q, q0)]
    if changed:
        raise OperandModified("empirical distribution(s) %s of the caller changed, e.g. %r -> %r" % (changed, data[qtn][d][changed[0]][1].tolist(), emp[changed[0]][1].tolist()))
    if o == "custom" and not all(np.array_equal(a, b) for a, b in zip(lo.weights, weights[qtn])):
        raise OperandModified("weights of the caller's option changed")
    return np.array(res.estimated_var, dtype=float)


_FRESH = {}


def fresh(op, seed):
    key = (tuple(op), seed)
    if key not in _FRESH:
        ok, r = A.call(run_op, op, new_objects(), seed)
        _FRESH[key] = (ok, r)
    return _FRESH[key]


def state_after(state, op):
    qtn, d, l, o, ao = op
    s = dict(state)
    s[l] = (qtn, d, o)
    s["algo"] = (qtn, ao)
    return s


def key_of(state):
    return tuple(sorted(state.items()))


def execute(p, seed):
    out = Out()
    ops = menu()
    depth = p["depth"]
    first = ops[p["first"]]
    objs0 = new_objects()
    # level 1
    frontier = []
    seen = set()

    def step(objs, state, hist, op):
        o2 = copy_objects(objs, seed)
        ok, r = A.call(run_op, op, o2, seed)
        if not ok and isinstance(r, OperandModified):
            out.fail("estimator_machine:operand-modified:%s:%s" % (op[2], op[3]), "history %s: %s" % (
                " -> ".join("/".join(map(str, h)) for h in hist + [op]), r))
            return o2, state_after(state, op)
        fok, fr = fresh(op, seed)
        out.transitions += 1
        out.ops += 1
        out.traces += 1
        out.count("estimator_transitions")
        hname = " -> ".join("/".join(map(str, h)) for h in hist + [op])
        lossn, ao = op[2], op[4]
        prev_loss = state.get(lossn)
        prev_algo = state.get("algo")
        what = []
        if prev_loss is not None and prev_loss != (op[0], op[1], op[3]):
            what.append("loss-reused")
        if prev_algo is not None and prev_algo != (op[0], op[4]):
            what.append("algo-reused")
        cls = "+".join(what) or "no-reuse"
        if ok != fok:
            out.fail("estimator_machine:raises-only-with-history:%s:%s" % (lossn, "tomography-changed" if (prev_algo and prev_algo[0] != op[0]) else "same-tomography"),
                     "history %s (%s): %s vs fresh %s" % (hname, cls, "ok" if ok else A.fmt_exc(r), "ok" if fok else A.fmt_exc(fr)))
        elif ok:
            if r.shape != fr.shape or np.abs(r - fr).max() > TOL:
                # attribute the dependence: which re-used object carries the stale state?
                culprit = []
                for part in ("loss", "algo"):
                    o3 = copy_objects(objs, seed)
                    fresh_objs = new_objects()
                    if part == "loss":
                        o3["algo"] = fresh_objs["algo"]
                    else:
                        o3[lossn] = fresh_objs[lossn]
                    ok3, r3 = A.call(run_op, op, o3, seed)
                    if ok3 and (r3.shape != fr.shape or np.abs(r3 - fr).max() > TOL):
                        culprit.append(part)
                out.fail("estimator_machine:estimate-depends-on-history:%s:stale=%s" % (lossn, "+".join(culprit) or "both-needed"),
                         "history %s (%s; previous algo use %s, previous loss use %s): estimate %r differs from the fresh-objects estimate %r" % (
                             hname, cls, prev_algo, prev_loss, r, fr))
        else:
            out.count("estimator_both_raise")
        return o2, state_after(state, op)

    objs1, st1 = step(objs0, {}, [], first)
    seen.add(key_of(st1))
    frontier = [(objs1, st1, [first])]
    for level in range(2, depth + 1):
        nxt = []
        for objs, st, hist in frontier:
            for op in ops:
                o2, s2 = step(objs, st, hist, op)
                k = key_of(s2)
                if k not in seen:
                    seen.add(k)
                    if level < depth:
                        nxt.append((o2, s2, hist + [op]))
        frontier = nxt
    out.states = len(seen)
    out.count("estimator_states", len(seen))
    out.outcome = "ok" if not out.fails else "fail"
    return out
