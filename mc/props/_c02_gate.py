"""C02 linear conversions of Gate / MProcess: HS <-> Choi (3+3 implementations), process matrix, basis changes, var <-> Choi."""
import numpy as np

from mc import alphabet as A, refmodel as R
from mc.core import Out, inner
from mc.props import _c02_ref as F
from mc.props._c02_common import system, check, check_list, lin_check, note, Dig

S_LIN = -1.7


def hs_input(n, k, seed):
    """k < n*n: matrix unit e_ab of HS space; k >= n*n: generic real matrices"""
    if k < n * n:
        hs = np.zeros((n, n))
        hs[k // n, k % n] = 1.0
        return "e(%d,%d)" % (k // n, k % n), hs
    g = k - n * n
    return "gen%d" % g, F.gen_real((n, n), seed, 40 + g)


def choi_input(n, k, seed, desc):
    if k < n * n:
        return "H%d%r" % (k, desc[k]), F.herm_elem(n, desc[k])
    g = k - n * n
    return "Hgen%d" % g, F.gen_herm(n, seed, 50 + g)


def ex_gate_hs(p, seed):
    """HS-space inputs: every e_ab (+ 3 generic real matrices in the last block)"""
    from quara.objects import gate as G
    from quara.objects.gate import Gate
    out = Out()
    dg = Dig()
    s = system(p["sys"], seed)
    c, ref, d, n, tag = s.c, s.ref, s.d, s.n, s.tag
    slow = p["paths"] == "all"
    lean = p["paths"] == "min"      # dim 8: function level only
    fwd = [("to_choi_from_hs_with_sparsity", G.to_choi_from_hs_with_sparsity, "to_choi_matrix_with_sparsity"),
           ("to_choi_from_hs_with_dict", G.to_choi_from_hs_with_dict, "to_choi_matrix_with_dict")]
    inv = [("to_hs_from_choi_with_sparsity", G.to_hs_from_choi_with_sparsity), ("to_hs_from_choi_with_dict", G.to_hs_from_choi_with_dict)]
    if slow:
        fwd.append(("to_choi_from_hs", G.to_choi_from_hs, "to_choi_matrix"))
        inv.append(("to_hs_from_choi", G.to_hs_from_choi))
    cnt = 0
    for k in range(p["lo"], p["hi"]):
        cnt += 1
        nm, hs = hs_input(n, k, seed)
        det = "sys=%s hs=%s" % (tag, nm)
        gate = Gate(c, hs.copy(), is_physicality_required=False)
        C = ref.choi(hs)
        note(out, C)
        got = {}
        for fn, f, meth in fwd:
            got[fn] = check(out, fn, "formula", tag, A.call(f, c, hs), C, det)
            if not lean:
                check(out, "Gate." + meth, "formula", tag, A.call(getattr(gate, meth)), C, det)
        dg.add(got.get("to_choi_from_hs_with_sparsity"))
        names = [fn for fn, _, _ in fwd if got[fn] is not None]
        for i in range(len(names)):
            for j in range(i + 1, len(names)):
                check(out, "%s~%s" % (names[i], names[j]), "alt-impl", tag, (True, got[names[i]]), got[names[j]], det)
        # inverse of every implementation applied to the library's own Choi matrix (real HS => Hermitian Choi)
        src = got.get("to_choi_from_hs_with_sparsity")
        if src is not None:
            for fn, f in inv:
                check(out, "%s" % fn, "roundtrip(to_choi_from_hs)", tag, A.call(f, c, src), hs, det)
        if slow:
            chi = ref.process_matrix(hs)
            g1 = check(out, "to_process_matrix_from_hs", "formula", tag, A.call(G.to_process_matrix_from_hs, c, hs), chi, det)
            check(out, "Gate.to_process_matrix", "formula", tag, A.call(gate.to_process_matrix), chi, det)
            dg.add(g1)
        for tn, tobj, T in s.targets:
            want = ref.hs_in_basis(hs, T)
            cfg = "%s->%s" % (tag, tn)
            g = check(out, "convert_hs", "formula", cfg, A.call(G.convert_hs, hs, c.basis(), tobj), want, det)
            if lean:
                continue
            check(out, "Gate.convert_basis", "formula", cfg, A.call(gate.convert_basis, tobj), want, det)
            if tn.startswith("comp_"):
                mode = tn[5:]
                check(out, "Gate.convert_to_comp_basis", "formula", cfg, A.call(gate.convert_to_comp_basis, mode), want, det)
                if mode == "row_major":
                    check(out, "Gate.convert_to_comp_basis", "formula", cfg + ":default-mode", A.call(gate.convert_to_comp_basis), want, det)
            if g is not None:
                check(out, "convert_hs", "roundtrip(back)", cfg, A.call(G.convert_hs, g, tobj, c.basis()), hs, det)
        if k >= n * n:
            rc = [t for t in s.targets if t[0].startswith("comp_")]
            if np.abs(ref.hs_in_basis(hs, rc[0][2]) - ref.hs_in_basis(hs, rc[1][2])).max() > 1e-3:
                out.count("rowcol_differ")
    if p["hi"] > n * n:
        xs = [hs_input(n, n * n + g, seed)[1] for g in range(3)]
        det = "sys=%s generic" % tag
        for fn, f, _ in fwd:
            lin_check(out, fn, tag, lambda h, f=f: f(c, h), xs[0], xs[1], S_LIN, det)
        if slow:
            lin_check(out, "to_process_matrix_from_hs", tag, lambda h: G.to_process_matrix_from_hs(c, h), xs[1], xs[2], S_LIN, det)
        for tn, tobj, T in s.targets:
            lin_check(out, "convert_hs", "%s->%s" % (tag, tn), lambda h, tobj=tobj: G.convert_hs(h, c.basis(), tobj), xs[0], xs[2], S_LIN, det)
    inner(out, cnt - 1)
    out.digest = dg.hex()
    out.outcome = "ok" if not out.fails else "fail"
    return out


def ex_gate_choi(p, seed):
    """Hermitian Choi-space inputs: every element of a Hermitian basis of d^2 x d^2 matrices (+ 3 generic)"""
    from quara.objects import gate as G
    out = Out()
    dg = Dig()
    s = system(p["sys"], seed)
    c, ref, d, n, tag = s.c, s.ref, s.d, s.n, s.tag
    slow = p["paths"] == "all"
    inv = [("to_hs_from_choi_with_sparsity", G.to_hs_from_choi_with_sparsity), ("to_hs_from_choi_with_dict", G.to_hs_from_choi_with_dict)]
    if slow:
        inv.append(("to_hs_from_choi", G.to_hs_from_choi))
    desc = F.herm_descriptors(n)
    cnt = 0
    for k in range(p["lo"], p["hi"]):
        cnt += 1
        nm, C = choi_input(n, k, seed, desc)
        note(out, C)
        det = "sys=%s choi=%s" % (tag, nm)
        hs = ref.hs_from_choi(C)
        assert np.abs(hs.imag).max() < 1e-12
        hs = hs.real
        got = {}
        for fn, f in inv:
            got[fn] = check(out, fn, "formula", tag, A.call(f, c, C), hs, det)
        dg.add(got.get("to_hs_from_choi_with_sparsity"))
        names = [fn for fn, _ in inv if got[fn] is not None]
        for i in range(len(names)):
            for j in range(i + 1, len(names)):
                check(out, "%s~%s" % (names[i], names[j]), "alt-impl", tag, (True, got[names[i]]), got[names[j]], det)
        src = got.get("to_hs_from_choi_with_sparsity")
        if src is not None:
            check(out, "to_choi_from_hs_with_sparsity", "roundtrip(to_hs_from_choi)", tag, A.call(G.to_choi_from_hs_with_sparsity, c, src), C, det)
        for flag in (True, False):
            if flag and not s.id_first:
                continue
            want = hs[1:].reshape(-1) if flag else hs.reshape(-1)
            cfg = "%s:eq=%s" % (tag, flag)
            g = check(out, "to_var_from_choi", "formula", cfg, A.call(G.to_var_from_choi, c, C, flag), want, det)
            if g is not None and not flag:
                check(out, "to_choi_from_var", "roundtrip(to_var_from_choi)", cfg, A.call(G.to_choi_from_var, c, g, flag), C, det)
    if p["hi"] > n * n:
        xs = [choi_input(n, n * n + g, seed, desc)[1] for g in range(3)]
        for fn, f in inv:
            lin_check(out, fn, tag, lambda M, f=f: f(c, M), xs[0], xs[1], S_LIN, "sys=%s generic" % tag)
        for flag in (True, False):
            if flag and not s.id_first:
                continue
            lin_check(out, "to_var_from_choi", "%s:eq=%s" % (tag, flag), lambda M, flag=flag: G.to_var_from_choi(c, M, flag), xs[1], xs[2], S_LIN, "sys=%s generic" % tag)
    inner(out, cnt - 1)
    out.digest = dg.hex()
    out.outcome = "ok" if not out.fails else "fail"
    return out


def ex_gate_var(p, seed):
    """variable-space inputs: 0, every e_k, 3 generic vectors, for both parametrisations"""
    from quara.objects import gate as G
    out = Out()
    dg = Dig()
    s = system(p["sys"], seed)
    c, ref, d, n, tag = s.c, s.ref, s.d, s.n, s.tag
    flag = p["flag"]
    cfg = "%s:eq=%s" % (tag, flag)
    nv = n * (n - 1) if flag else n * n
    out.count("flag_%s" % flag)
    cnt = 0

    def var_of(k):
        v = np.zeros(nv)
        if k == 0:
            return "zero", v
        if k <= nv:
            v[k - 1] = 1.0
            return "e%d" % (k - 1), v
        return "gen%d" % (k - nv - 1), F.gen_real((nv,), seed, 60 + k - nv)

    head = np.zeros((1, n))
    head[0, 0] = 1.0
    for k in range(p["lo"], p["hi"]):
        cnt += 1
        nm, var = var_of(k)
        hs = np.vstack([head, var.reshape(n - 1, n)]) if flag else var.reshape(n, n)
        C = ref.choi(hs)
        note(out, C)
        det = "sys=%s flag=%s var=%s" % (tag, flag, nm)
        g = check(out, "to_choi_from_var", "formula", cfg, A.call(G.to_choi_from_var, c, var, flag), C, det)
        dg.add(g)
        if g is not None:
            check(out, "to_var_from_choi", "roundtrip(to_choi_from_var)", cfg, A.call(G.to_var_from_choi, c, g, flag), var, det)
    if p["hi"] > nv + 1:
        lin_check(out, "to_choi_from_var", cfg, lambda v: G.to_choi_from_var(c, v, flag), var_of(nv + 1)[1], var_of(nv + 2)[1], S_LIN, "sys=%s" % tag)
    inner(out, cnt - 1)
    out.digest = dg.hex()
    out.outcome = "ok" if not out.fails else "fail"
    return out


# ------------------------------------------------------------------------------------------ MProcess

def cp_pool(s, seed):
    """distinct CP maps as Kraus lists (gate alphabet) in a fixed order"""
    g = A.gates_ref(s.d, seed)
    return [g[k] for k in sorted(g)]


def ex_mprocess(p, seed):
    """every outcome (flat index and row-major multi-index) of measurement processes with 1-, 2- and 3-dimensional shapes"""
    from quara.objects.mprocess import MProcess
    out = Out()
    dg = Dig()
    s = system(p["sys"], seed)
    c, ref, d, n, tag = s.c, s.ref, s.d, s.n, s.tag
    shape = tuple(p["shape"])
    slow = p["paths"] == "all"
    m = int(np.prod(shape))
    cfg = "%s:shape=%s" % (tag, "x".join(map(str, shape)))
    pool = cp_pool(s, seed)
    kraus, hss = [], []
    for x in range(m):
        if p["kind"] == "cp":
            w = (x + 1) / (m * (m + 1) / 2.0)          # unequal weights, sum 1: a physical random-channel instrument
            ks = [np.sqrt(w) * K for K in pool[(x + 1) % len(pool)]]
            kraus.append(ks)
            hss.append(np.ascontiguousarray(ref.hs_from_kraus(ks).real))
        else:
            kraus.append(None)
            hss.append(F.gen_real((n, n), seed, 70 + x))
    mp = MProcess(c, [h.copy() for h in hss], shape=shape, is_physicality_required=False)
    if len(set(shape)) > 1:
        out.count("mprocess_unequal_shape")
    cnt = 0
    idxs = [(x, "int") for x in range(m)] + [(R.row_major_multi(x, shape), "tuple") for x in range(m)]
    for idx, kind in idxs:
        cnt += 1
        x = idx if kind == "int" else R.row_major_index(idx, shape)
        hs = hss[x]
        C = ref.choi(hs)
        note(out, C)
        c2 = "%s:index=%s" % (cfg, kind)
        det = "sys=%s shape=%r outcome=%r (serial %d)" % (tag, shape, idx, x)
        g = check(out, "MProcess.hs", "formula", c2, A.call(mp.hs, idx), hs, det)
        dg.add(g)
        check(out, "MProcess.to_choi_matrix_with_sparsity", "formula", c2, A.call(mp.to_choi_matrix_with_sparsity, idx), C, det)
        check(out, "MProcess.to_choi_matrix_with_dict", "formula", c2, A.call(mp.to_choi_matrix_with_dict, idx), C, det)
        if slow:
            check(out, "MProcess.to_choi_matrix", "formula", c2, A.call(mp.to_choi_matrix, idx), C, det)
            check(out, "MProcess.to_process_matrix", "formula", c2, A.call(mp.to_process_matrix, idx), ref.process_matrix(hs), det)
        if kind == "tuple":
            out.count("tuple_index")
        if kraus[x] is not None:
            ok, ks = A.call(mp.to_kraus_matrices, idx)
            out.ops += 1
            if not ok:
                out.fail("MProcess.to_kraus_matrices:raises-%s:%s" % (type(ks).__name__, c2), det + " | " + A.fmt_exc(ks))
            else:
                kraus_action_check(out, "MProcess.to_kraus_matrices", c2, ks, kraus[x], d, det)
    for tn, tobj, T in s.targets:
        want = [ref.hs_in_basis(h, T) for h in hss]
        c3 = "%s->%s" % (cfg, tn)
        check_list(out, "MProcess.convert_basis", "formula", c3, A.call(mp.convert_basis, tobj), want, "sys=%s shape=%r" % (tag, shape))
        if tn.startswith("comp_"):
            check_list(out, "MProcess.convert_to_comp_basis", "formula", c3, A.call(mp.convert_to_comp_basis, tn[5:]), want, "sys=%s shape=%r" % (tag, shape))
    inner(out, cnt - 1)
    out.digest = dg.hex()
    out.outcome = "ok" if not out.fails else "fail"
    return out


def kraus_action_check(out, site, cfg, ks_lib, ks_ref, d, det, tol=1e-9):
    """(iv) the returned Kraus set reproduces the channel's action on every matrix unit"""
    try:
        ks = [np.asarray(K, dtype=np.complex128) for K in ks_lib]
    except Exception as e:  # noqa
        out.fail("%s:not-a-list:%s" % (site, cfg), det + " | %r" % (e,))
        return None
    if any(K.shape != (d, d) for K in ks):
        out.fail("%s:shape:%s" % (site, cfg), det + " | shapes %r" % ([K.shape for K in ks],))
        return None
    worst = 0.0
    for E in R.matrix_units(d):
        worst = max(worst, float(np.abs(R.kraus_apply(ks, E) - R.kraus_apply(ks_ref, E)).max()))
        out.traces += 1
    out.count("cmp_kraus_action")
    if not (worst <= tol):
        out.fail("%s:action:%s" % (site, cfg), det + " | %d Kraus operators reproduce the map only up to %.3e on the matrix units" % (len(ks), worst))
    return ks
