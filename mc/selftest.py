"""setup-time self tests: reference model identities (no quara) + alphabet objects are
physical by the reference definitions + quara imports under the shim."""
import sys
import numpy as np
from mc import refmodel as R, alphabet as A


def main():
    msgs = R.selftest()
    for d in (2, 3, 4):
        for seed in range(10):
            for n, rho in A.states_ref(d, seed).items():
                if abs(np.trace(rho) - 1) > 1e-12 or R.min_eig(rho) < -1e-12:
                    msgs.append("state %s d=%d seed=%d unphysical" % (n, d, seed))
            for n, Ms in A.povms_ref(d, seed).items():
                if np.abs(sum(Ms) - np.eye(d)).max() > 1e-11 or min(R.min_eig(M) for M in Ms) < -1e-12:
                    msgs.append("povm %s d=%d seed=%d unphysical" % (n, d, seed))
            for n, ks in A.gates_ref(d, seed).items():
                if np.abs(sum(K.conj().T @ K for K in ks) - np.eye(d)).max() > 1e-11:
                    msgs.append("gate %s d=%d seed=%d not TP" % (n, d, seed))
            for n, inst in A.instruments_ref(d, seed).items():
                S = sum(K.conj().T @ K for ks in inst for K in ks)
                if np.abs(S - np.eye(d)).max() > 1e-11:
                    msgs.append("instrument %s d=%d seed=%d not TP" % (n, d, seed))
    try:
        c = A.make_system("Q1")
        s = A.q_state(c, A.states_ref(2, 0)["pure_generic"])
        assert s.is_physical()
    except Exception as e:
        msgs.append("quara import/constructor failed: %r" % (e,))
    for m in msgs:
        sys.stderr.write("SELFTEST FAIL: %s\n" % m)
    print("selftest: %d problem(s)" % len(msgs))
    return 2 if msgs else 0
