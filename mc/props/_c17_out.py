"""C17 family `outside`: names outside a catalogue (misspelt, wrong system, empty) must raise, for every dispatcher
and every object_name form; unknown object_name forms must raise as well."""
from mc import alphabet as A
from mc.core import Out, inner
from mc.props._c17_util import DIMS, sysinfo

ALL_TAGS = ["Q1", "D2,2", "D2,2,2", "Q3", "D3,3"]


def mutations(name, valid):
    """misspellings of one catalogue name that are not themselves catalogue names"""
    cand = [name.upper(), name + "0", name + "x", name[:-1], name[1:], " " + name, name + " ", name + "_", "_" + name,
            name.replace("_", "", 1), name.replace("_", "-", 1), name.replace("-", "", 1), name.replace("-", "_", 1),
            name[::-1], name + "_" + name if "_" not in name and len(name) > 6 else name + "__" + name,
            # one tensor factor too many / repeated factors (product names beyond the catalogued system sizes)
            name + "_" + name.split("_")[0], "_".join([name.split("_")[0]] * 3), "_".join([name.split("_")[0]] * 4),
            "_".join([name.split("_")[-1]] * 3)]
    seen, out = set(), []
    for m in cand:
        if m != name and m not in valid and m not in seen:
            seen.add(m)
            out.append(m)
    return out


def expect_raise(out, sig, what, fn, *a, **k):
    ok, val = A.call(fn, *a, **k)
    out.ops += 1
    out.traces += 1
    if ok:
        out.fail(sig, "%s yielded %s instead of raising" % (what, type(val).__name__))
        return False
    out.count("outside_raised")
    out.count("outside_exc_" + type(val).__name__)
    return True


def mclass(name, m):
    """stable class of a mutation for signatures"""
    if m == "":
        return "empty"
    if m == name.upper():
        return "upper"
    if m.strip() != m:
        return "blank-padded"
    if m.startswith("_") or m.endswith("_"):
        return "dangling-underscore"
    if len(m) < len(name):
        return "truncated"
    if m.replace("_", "") != "" and set(m.split("_")) <= set(name.split("_")) and len(m.split("_")) > len(name.split("_")):
        return "extra-factor"
    return "altered"


def ex_outside(p, seed):
    from quara.objects import (state_typical as st, povm_typical as pt, gate_typical as gt, mprocess_typical as mt,
                               state_ensemble_typical as se, effective_lindbladian_typical as elt, qoperation_typical as qt)
    out = Out()
    kind, tag = p["kind"], p["sys"]
    names = p["names"]
    c, B, Bmat, d = sysinfo(tag)
    dims = list(DIMS[tag])
    n = 0
    if kind == "state":
        valid = set(st.get_state_names())
        bads = [(nm, m) for nm in names for m in mutations(nm, valid)] + [("", "")]
        for nm, m in bads:
            n += 1
            sg = "state_typical:outside-name-accepted:%s:%s" % (mclass(nm, m), nm or "empty")
            expect_raise(out, sg + ":pure_state_vector", repr(m), st.generate_state_pure_state_vector_from_name, m)
            expect_raise(out, sg + ":density_mat", repr(m), st.generate_state_density_mat_from_name, m)
            expect_raise(out, sg + ":density_matrix_vector", repr(m), st.generate_state_density_matrix_vector_from_name, c.basis(), m)
            expect_raise(out, sg + ":state", repr(m), st.generate_state_from_name, c, m)
            for form in ("pure_state_vector", "density_mat", "density_matrix_vector", "state"):
                expect_raise(out, sg + ":dispatcher:" + form, repr(m), qt.generate_qoperation_object, mode="state", name=m,
                             object_name=form, c_sys=c)
            if st.is_valid_state_name(m):
                out.fail("state_typical:is_valid_state_name:accepts:%s:%s" % (mclass(nm, m), nm or "empty"), repr(m))
        for nm in names:  # wrong system
            for wt in ALL_TAGS:
                if wt == tag:
                    continue
                cw = sysinfo(wt)[0]
                n += 1
                sg = "state_typical:wrong-system-accepted:%s:on:%s" % (nm, wt)
                expect_raise(out, sg + ":state", nm, st.generate_state_from_name, cw, nm)
                expect_raise(out, sg + ":density_matrix_vector", nm, st.generate_state_density_matrix_vector_from_name, cw.basis(), nm)
        for form in ("", "State", "density_matrix", "povm"):
            expect_raise(out, "state_typical:unknown-object_name-accepted:%s" % (form or "empty"), form,
                         st.generate_state_object_from_state_name_object_name, names[0], form, c)
    elif kind == "povm":
        valid = set(pt.get_povm_names())
        single = set(pt.get_povm_names_1qubit() + pt.get_povm_names_1qutrit() + ["bell"])
        # '_' products of listed single names are composable by design (mixed systems), they are not misspellings
        bads = [(nm, m) for nm in names for m in mutations(nm, valid) if not all(q in single for q in m.split("_"))] + [("", "")]
        for nm, m in bads:
            n += 1
            sg = "povm_typical:outside-name-accepted:%s:%s" % (mclass(nm, m), nm or "empty")
            expect_raise(out, sg + ":pure_state_vectors", repr(m), pt.generate_povm_pure_state_vectors_from_name, m)
            expect_raise(out, sg + ":matrices", repr(m), pt.generate_povm_matrices_from_name, m)
            expect_raise(out, sg + ":vectors", repr(m), pt.generate_povm_vectors_from_name, m, c.basis())
            expect_raise(out, sg + ":povm", repr(m), pt.generate_povm_from_name, m, c)
            for form in pt.get_povm_object_names():
                expect_raise(out, sg + ":dispatcher:" + form, repr(m), pt.generate_povm_object_from_povm_name_object_name, m, form, c, c.basis())
        for nm in names:
            for wt in ALL_TAGS:
                if wt == tag:
                    continue
                cw = sysinfo(wt)[0]
                n += 1
                sg = "povm_typical:wrong-system-accepted:%s:on:%s" % (nm, wt)
                expect_raise(out, sg + ":povm", nm, pt.generate_povm_from_name, nm, cw)
                expect_raise(out, sg + ":vectors", nm, pt.generate_povm_vectors_from_name, nm, cw.basis())
        for form in ("", "Povm", "matrix", "state"):
            expect_raise(out, "povm_typical:unknown-object_name-accepted:%s" % (form or "empty"), form,
                         pt.generate_povm_object_from_povm_name_object_name, names[0], form, c, c.basis())
    elif kind in ("gate", "efflind"):
        valid = set(p["valid"]) if "valid" in p else set(gt.get_gate_names())
        ids = p.get("ids") or []
        bads = [(nm, m) for nm in names for m in mutations(nm, valid)] + [("", "")] + [(x, x) for x in p.get("extra", [])]
        for nm, m in bads:
            n += 1
            if kind == "gate":
                sg = "gate_typical:outside-name-accepted:%s:%s" % (mclass(nm, m), nm or "empty")
                expect_raise(out, sg + ":unitary_mat", repr(m), gt.generate_unitary_mat_from_gate_name, m, dims, ids)
                expect_raise(out, sg + ":gate_mat", repr(m), gt.generate_gate_mat_from_gate_name, m, dims, ids)
                expect_raise(out, sg + ":gate", repr(m), gt.generate_gate_from_gate_name, m, c, ids)
                for form in qt.get_gate_object_names():
                    expect_raise(out, sg + ":dispatcher:" + form, repr(m), qt.generate_qoperation_object, mode="gate", name=m,
                                 object_name=form, dims=dims, ids=ids, c_sys=c)
            else:
                sg = "effective_lindbladian_typical:outside-name-accepted:%s:%s" % (mclass(nm, m), nm or "empty")
                expect_raise(out, sg + ":hamiltonian_vec", repr(m), elt.generate_hamiltonian_vec_from_gate_name, m, dims, ids)
                expect_raise(out, sg + ":hamiltonian_mat", repr(m), elt.generate_hamiltonian_mat_from_gate_name, m, dims, ids)
                expect_raise(out, sg + ":effective_lindbladian_mat", repr(m), elt.generate_effective_lindbladian_mat_from_gate_name, m, dims, ids)
                expect_raise(out, sg + ":effective_lindbladian", repr(m), elt.generate_effective_lindbladian_from_gate_name, m, c, ids)
                for form in qt.get_effective_lindbladian_object_names():
                    expect_raise(out, sg + ":dispatcher:" + form, repr(m), qt.generate_effective_lindbladian_object, m, form, dims, ids, c)
        for nm in names:  # wrong system for the object form
            for wt in ALL_TAGS:
                if wt == tag or nm == "identity":
                    continue
                cw = sysinfo(wt)[0]
                n += 1
                if kind == "gate":
                    expect_raise(out, "gate_typical:wrong-system-accepted:%s:on:%s" % (nm, wt), nm, gt.generate_gate_from_gate_name, nm, cw, ids)
                else:
                    expect_raise(out, "effective_lindbladian_typical:wrong-system-accepted:%s:on:%s" % (nm, wt), nm,
                                 elt.generate_effective_lindbladian_from_gate_name, nm, cw, ids)
        # role lists of the wrong shape for the asymmetric gates
        for nm in names:
            if nm in ("cx", "zx90"):
                badids = [[], [0], [0, 0], [0, 1, 2]]
            elif nm in ("toffoli", "fredkin"):
                badids = [[], [0, 1], [0, 0, 1], [0, 1, 2, 3]]
            else:
                continue
            for bi in badids:
                n += 1
                lab = "len%d%s" % (len(bi), "-dup" if len(set(bi)) < len(bi) else "")
                if kind == "gate":
                    sg = "gate_typical:bad-ids-accepted:%s:%s" % (nm, lab)
                    expect_raise(out, sg + ":unitary_mat", nm, gt.generate_unitary_mat_from_gate_name, nm, dims, bi)
                    expect_raise(out, sg + ":gate_mat", nm, gt.generate_gate_mat_from_gate_name, nm, dims, bi)
                    expect_raise(out, sg + ":gate", nm, gt.generate_gate_from_gate_name, nm, c, bi)
                else:
                    sg = "effective_lindbladian_typical:bad-ids-accepted:%s:%s" % (nm, lab)
                    expect_raise(out, sg + ":hamiltonian_mat", nm, elt.generate_hamiltonian_mat_from_gate_name, nm, dims, bi)
                    expect_raise(out, sg + ":effective_lindbladian", nm, elt.generate_effective_lindbladian_from_gate_name, nm, c, bi)
        if kind == "gate":
            for form in ("", "Gate", "unitary", "hs"):
                expect_raise(out, "gate_typical:unknown-object_name-accepted:%s" % (form or "empty"), form,
                             gt.generate_gate_object_from_gate_name_object_name, names[0], form, dims, ids, c)
            if "identity" in names:
                expect_raise(out, "gate_typical:identity:empty-dims-accepted:unitary_mat", "identity", gt.generate_unitary_mat_from_gate_name, "identity", [], [])
                expect_raise(out, "gate_typical:identity:empty-dims-accepted:gate_mat", "identity", gt.generate_gate_mat_from_gate_name, "identity", [], [])
        else:
            for form in ("", "hamiltonian", "gate", "effective_lindbladian_matrix"):
                expect_raise(out, "effective_lindbladian_typical:unknown-object_name-accepted:%s" % (form or "empty"), form,
                             elt.generate_effective_lindbladian_object_from_gate_name_object_name, names[0], form, dims, ids, c)
    elif kind == "mprocess":
        valid = set(mt.get_mprocess_names_type1() + mt.get_mprocess_names_type2())
        bads = [(nm, m) for nm in names for m in mutations(nm, valid) if not all(q in valid for q in m.split("_"))] + [("", "")]
        for nm, m in bads:
            n += 1
            sg = "mprocess_typical:outside-name-accepted:%s:%s" % (mclass(nm, m), nm or "empty")
            expect_raise(out, sg + ":set_pure_state_vectors", repr(m), mt.generate_mprocess_set_pure_state_vectors_from_name, m)
            expect_raise(out, sg + ":set_kraus_matrices", repr(m), mt.generate_mprocess_set_kraus_matrices_from_name, m)
            expect_raise(out, sg + ":hss", repr(m), mt.generate_mprocess_hss_from_name, m, c)
            expect_raise(out, sg + ":mprocess", repr(m), mt.generate_mprocess_from_name, c, m)
            for form in mt.get_mprocess_object_names():
                expect_raise(out, sg + ":dispatcher:" + form, repr(m), qt.generate_qoperation_object, mode="mprocess", name=m,
                             object_name=form, c_sys=c)
        for nm in names:
            for wt in ALL_TAGS:
                if wt == tag:
                    continue
                cw = sysinfo(wt)[0]
                n += 1
                sg = "mprocess_typical:wrong-system-accepted:%s:on:%s" % (nm, wt)
                expect_raise(out, sg + ":mprocess", nm, mt.generate_mprocess_from_name, cw, nm)
                expect_raise(out, sg + ":hss", nm, mt.generate_mprocess_hss_from_name, nm, cw)
        for form in ("", "MProcess", "kraus", "povm"):
            expect_raise(out, "mprocess_typical:unknown-object_name-accepted:%s" % (form or "empty"), form,
                         mt.generate_mprocess_object_from_mprocess_name_object_name, names[0], form, c)
    elif kind == "ensemble":
        valid = set(se.get_state_ensemble_names())
        bads = [(nm, m) for nm in names for m in mutations(nm, valid)] + [("", "")] + [(x, x) for x in ("z0_z0", "bell_phi_plus", "01z0")]
        for nm, m in bads:
            n += 1
            sg = "state_ensemble_typical:outside-name-accepted:%s:%s" % (mclass(nm, m), nm or "empty")
            expect_raise(out, sg + ":elements", repr(m), se.generate_state_ensemble_elements_from_name, m, c)
            expect_raise(out, sg + ":state_ensemble", repr(m), se.generate_state_ensemble_from_name, c, m)
            expect_raise(out, sg + ":dispatcher", repr(m), qt.generate_qoperation_object, mode="state_ensemble", name=m,
                         object_name="state_ensemble", c_sys=c)
        for nm in ("z0", "z1", "x0"):
            for wt in ("D2,2", "Q3"):
                n += 1
                expect_raise(out, "state_ensemble_typical:wrong-system-accepted:%s:on:%s" % (nm, wt), nm,
                             se.generate_state_ensemble_from_name, sysinfo(wt)[0], nm)
        for form in ("", "state", "ensemble"):
            expect_raise(out, "state_ensemble_typical:unknown-object_name-accepted:%s" % (form or "empty"), form,
                         se.generate_state_ensemble_object_from_state_ensemble_name_object_name, "z0", form, c)
    elif kind == "mode":
        for mode in ("", "State", "states", "effective_lindbladian", "tester"):
            n += 1
            expect_raise(out, "qoperation_typical:unknown-mode-accepted:%s" % (mode or "empty"), mode, qt.generate_qoperation_object,
                         mode=mode, name="z0", object_name="state", c_sys=c)
            expect_raise(out, "qoperation_typical:depolarized:unknown-mode-accepted:%s" % (mode or "empty"), mode,
                         qt.generate_qoperation_depolarized, mode, "z0", c, 0.1)
    inner(out, max(n - 1, 0))
    out.count("outside_names", n)
    out.outcome = "ok" if not out.fails else "fail"
    return out
