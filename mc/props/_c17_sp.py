"""C17 families: state, povm, mprocess, state ensemble catalogues."""
import numpy as np

from mc import alphabet as A
from mc.core import Out, inner
from mc.props import _c17_ref as T
from mc.props._c17_util import (TOL, Chk, coeffs_fast, dist, hs_of_kraus_fast, list_dist, mat_from_coeffs_fast,
                                ref_channel_verdict, ref_povm_verdict, ref_state_verdict, sysinfo, vec_proportional,
                                second_system, check_bound_system)

STATE_FORMS = ["pure_state_vector", "density_mat", "density_matrix_vector", "state"]


# ---------------------------------------------------------------------------------------------- states

def check_state(out, name, tag):
    from quara.objects import state_typical as st, qoperation_typical as qt
    c, B, Bmat, d = sysinfo(tag)
    k = Chk(out, "state_typical:%s" % name)
    try:
        vref, dims = T.state_vector(name)
    except KeyError:
        out.fail("state_typical:%s:unknown-to-textbook" % name, "catalogue lists a state name the reference table cannot interpret")
        return
    k.true("listed-dims", int(np.prod(dims)) == d, "name listed for a system of dim %d, textbook dims %r" % (d, dims))
    k.true("is_valid_state_name", st.is_valid_state_name(name) is True)
    rho_ref = T.proj(vref)
    ok1, v = k.must("pure_state_vector", st.generate_state_pure_state_vector_from_name, name)
    ok2, rho = k.must("density_mat", st.generate_state_density_mat_from_name, name)
    ok3, cv = k.must("density_matrix_vector", st.generate_state_density_matrix_vector_from_name, c.basis(), name)
    ok4, S = k.must("state", st.generate_state_from_name, c, name)
    if not (ok1 and ok2 and ok3 and ok4):
        return
    out.count("state_generated")

    def regen():
        c2 = second_system(tag)
        okx, S2 = A.call(st.generate_state_from_name, c2, name)
        return okx, c2, S2
    check_bound_system(k, "state", S, c, regen, lambda o: o.vec)
    # textbook
    k.true("vector-vs-textbook", vec_proportional(v, vref) <= TOL, "pure state vector is not the textbook vector up to a phase")
    k.close("density_mat-vs-textbook", rho, rho_ref)
    # alternative descriptions agree
    v1 = np.asarray(v, dtype=np.complex128).reshape(-1)
    k.close("density_mat-vs-vector", rho, np.outer(v1, v1.conj()))
    k.close("coefficients-vs-density_mat", cv, coeffs_fast(rho, Bmat))
    k.true("coefficients-real", np.isrealobj(np.asarray(cv)) or np.abs(np.asarray(cv).imag).max() <= TOL)
    k.close("state.vec-vs-coefficients", S.vec, cv)
    rho_obj = mat_from_coeffs_fast(np.asarray(S.vec), Bmat, d)
    k.close("state-vs-density_mat", rho_obj, rho)
    okd, dm = k.must("to_density_matrix", S.to_density_matrix)
    if okd:
        k.close("to_density_matrix-vs-density_mat", dm, rho)
    # physical: reference verdict and the library's own
    k.true("reference-physical", ref_state_verdict(rho_obj), "generated state is not a density matrix")
    okp, phys = k.must("is_physical", S.is_physical)
    if okp:
        k.true("library-says-unphysical", bool(phys))
    out.count("ref_verdict_true")
    # every listed object_name form through both dispatchers
    direct = {"pure_state_vector": v, "density_mat": rho, "density_matrix_vector": cv, "state": S.vec}
    for form in STATE_FORMS:
        # qoperation_typical.generate_qoperation_object -> state_typical.generate_state_object_from_state_name_object_name
        okf, obj = k.must("dispatcher:%s" % form, qt.generate_qoperation_object, mode="state", name=name, object_name=form, c_sys=c)
        if okf:
            k.close("dispatcher:%s-vs-direct" % form, obj.vec if form == "state" else obj, direct[form])
    if d <= 4:
        okq, Sq = k.must("generate_qoperation", qt.generate_qoperation, "state", name, c)
        if okq:
            k.close("generate_qoperation-vs-direct", Sq.vec, S.vec)
    return S


def ex_state(p, seed):
    out = Out()
    arrs = []
    for name in p["names"]:
        S = check_state(out, name, p["sys"])
        if S is not None:
            arrs.append(np.asarray(S.vec))
    inner(out, len(p["names"]) - 1)
    out.outcome = "ok" if not out.fails else "fail"
    out.digest = A.digest(*arrs)
    return out


# ---------------------------------------------------------------------------------------------- POVMs

def check_povm(out, name, tag):
    from quara.objects import povm_typical as pt, qoperation_typical as qt
    c, B, Bmat, d = sysinfo(tag)
    k = Chk(out, "povm_typical:%s" % name)
    try:
        mref, dims, rank1 = T.povm_matrices(name)
    except KeyError:
        out.fail("povm_typical:%s:unknown-to-textbook" % name, "catalogue lists a POVM name the reference table cannot interpret")
        return
    k.true("listed-dims", int(np.prod(dims)) == d)
    ok2, mats = k.must("matrices", pt.generate_povm_matrices_from_name, name)
    ok3, vecs = k.must("vectors", pt.generate_povm_vectors_from_name, name, c.basis())
    ok4, P = k.must("povm", pt.generate_povm_from_name, name, c)
    if ok4:
        def regen():
            c2 = second_system(tag)
            okx, P2 = A.call(pt.generate_povm_from_name, name, c2)
            return okx, c2, P2
        check_bound_system(k, "povm", P, c, regen, lambda o: np.array(o.vecs))
    # pure state vectors exist exactly for rank-1 POVMs
    okv, vs = A.call(pt.generate_povm_pure_state_vectors_from_name, name)
    out.ops += 1
    if rank1:
        out.count("povm_rank1")
        if not okv:
            out.fail("povm_typical:%s:pure_state_vectors:raises:%s" % (name, type(vs).__name__), A.fmt_exc(vs))
    else:
        out.count("povm_not_rank1")
        if okv:
            out.fail("povm_typical:%s:pure_state_vectors:yielded-for-non-rank1" % name, "a POVM with a rank-2 element has no pure state vectors")
        elif not isinstance(vs, ValueError):
            out.fail("povm_typical:%s:pure_state_vectors:wrong-error:%s" % (name, type(vs).__name__), A.fmt_exc(vs))
    if not (ok2 and ok3 and ok4):
        return
    out.count("povm_generated")
    if dims == (2, 2) and name == "bell":
        # outcome labelling of the Bell measurement is the library's choice: compare as a set
        used, okset = set(), len(mats) == len(mref)
        for M in mats:
            hit = [i for i, Mr in enumerate(mref) if i not in used and dist(M, Mr) <= TOL]
            if not hit:
                okset = False
                break
            used.add(hit[0])
        k.true("matrices-vs-textbook", okset, "Bell POVM elements are not the four Bell projectors")
    else:
        k.close("matrices-vs-textbook", mats, mref, listy=True)
    if rank1 and okv:
        k.close("matrices-vs-pure_state_vectors", mats, [T.proj(np.asarray(v).reshape(-1)) for v in vs], listy=True)
    k.close("vectors-vs-matrices", vecs, [coeffs_fast(M, Bmat) for M in mats], listy=True)
    k.close("povm.vecs-vs-vectors", list(P.vecs), vecs, listy=True)
    mobj = [mat_from_coeffs_fast(np.asarray(v), Bmat, d) for v in P.vecs]
    k.close("povm-vs-matrices", mobj, mats, listy=True)
    okm, pm = k.must("povm.matrices", P.matrices)
    if okm:
        k.close("povm.matrices()-vs-matrices", pm, mats, listy=True)
    k.true("reference-physical", ref_povm_verdict(mobj), "generated POVM is not positive / does not sum to the identity")
    okp, phys = k.must("is_physical", P.is_physical)
    if okp:
        k.true("library-says-unphysical", bool(phys))
    out.count("ref_verdict_true")
    direct = {"matrices": mats, "vectors": vecs, "povm": list(P.vecs)}
    if rank1 and okv:
        direct["pure_state_vectors"] = vs
    for form in pt.get_povm_object_names():
        if form not in direct:
            continue
        okf, obj = k.must("dispatcher:%s" % form, pt.generate_povm_object_from_povm_name_object_name, name, form, c, c.basis())
        if okf:
            k.close("dispatcher:%s-vs-direct" % form, list(obj.vecs) if form == "povm" else obj, direct[form], listy=True)
        if form != "vectors":  # qoperation_typical.generate_povm_object has no basis argument
            okf, obj = k.must("qoperation:%s" % form, qt.generate_qoperation_object, mode="povm", name=name, object_name=form, c_sys=c)
            if okf:
                k.close("qoperation:%s-vs-direct" % form, list(obj.vecs) if form == "povm" else obj, direct[form], listy=True)
    return P


def ex_povm(p, seed):
    out = Out()
    arrs = []
    for name in p["names"]:
        P = check_povm(out, name, p["sys"])
        if P is not None:
            arrs.extend(np.asarray(v) for v in P.vecs)
    inner(out, len(p["names"]) - 1)
    out.outcome = "ok" if not out.fails else "fail"
    out.digest = A.digest(*arrs)
    return out


# ---------------------------------------------------------------------------------------------- measurement processes

def ex_mprocess(p, seed):
    from quara.objects import mprocess_typical as mt, povm_typical as pt, qoperation_typical as qt
    out = Out()
    name, tag, forms = p["name"], p["sys"], p["forms"]
    c, B, Bmat, d = sysinfo(tag)
    k = Chk(out, "mprocess_typical:%s" % name)
    try:
        inst, dims, pure = T.mprocess_kraus(name)
    except KeyError:
        out.fail("mprocess_typical:%s:unknown-to-textbook" % name, "catalogue lists a name the reference table cannot interpret")
        return out
    k.true("listed-dims", int(np.prod(dims)) == d)
    hs_ref = [hs_of_kraus_fast(ks, Bmat) for ks in inst]
    okk, kraus = k.must("set_kraus_matrices", mt.generate_mprocess_set_kraus_matrices_from_name, name)
    okv, vs = A.call(mt.generate_mprocess_set_pure_state_vectors_from_name, name)
    out.ops += 1
    if pure:
        out.count("mprocess_pure")
        if not okv:
            out.fail("mprocess_typical:%s:set_pure_state_vectors:raises:%s" % (name, type(vs).__name__), A.fmt_exc(vs))
    else:
        out.count("mprocess_not_pure")
        if okv:
            out.fail("mprocess_typical:%s:set_pure_state_vectors:yielded-for-kraus-only-name" % name, "name has no pure-state-vector description")
        elif not isinstance(vs, ValueError):
            out.fail("mprocess_typical:%s:set_pure_state_vectors:wrong-error:%s" % (name, type(vs).__name__), A.fmt_exc(vs))
    okm, mp = k.must("mprocess", mt.generate_mprocess_from_name, c, name)
    if okm:
        def regen():
            c2 = second_system(tag)
            okx, m2 = A.call(mt.generate_mprocess_from_name, c2, name)
            return okx, c2, m2
        check_bound_system(k, "mprocess", mp, c, regen, lambda o: np.array(o.hss))
    hss = None
    if "hss" in forms:
        okh, hss = k.must("hss", mt.generate_mprocess_hss_from_name, name, c)
        if not okh:
            hss = None
    if not (okk and okm):
        out.outcome = "fail"
        return out
    out.count("mprocess_generated")
    # Kraus set: same channel per outcome as the textbook instrument (Kraus sets are unique only up to unitary mixing)
    k.true("outcomes", len(kraus) == len(inst), "number of outcomes %d, textbook %d" % (len(kraus), len(inst)))
    if len(kraus) == len(inst):
        hs_k = [hs_of_kraus_fast([np.asarray(K, dtype=np.complex128) for K in ks], Bmat) for ks in kraus]
        k.close("kraus-vs-textbook", hs_k, hs_ref, listy=True)
        if pure and okv:
            hs_v = [hs_of_kraus_fast([T.proj(np.asarray(v).reshape(-1)) for v in vl], Bmat) for vl in vs]
            k.close("kraus-vs-pure_state_vectors", hs_v, hs_k, listy=True)
        k.close("mprocess.hss-vs-kraus", list(mp.hss), hs_k, listy=True)
        if hss is not None:
            k.close("hss-vs-kraus", hss, hs_k, listy=True)
            k.close("mprocess.hss-vs-hss", list(mp.hss), hss, listy=True)
    # physical: every outcome CP, sum TP
    cps, tot = True, np.zeros((d * d, d * d), dtype=np.complex128)
    for h in mp.hss:
        cp, _, me, _ = ref_channel_verdict(np.asarray(h), Bmat, d)
        cps = cps and cp
        tot = tot + np.asarray(h)
    _, tp, _, tpd = ref_channel_verdict(tot, Bmat, d)
    k.true("reference-physical", cps and tp, "CP per outcome: %s, sum TP defect %g" % (cps, tpd))
    okp, phys = k.must("is_physical", mp.is_physical)
    if okp:
        k.true("library-says-unphysical", bool(phys))
    out.count("ref_verdict_true")
    # its POVM
    povm_ref = [sum(K.conj().T @ K for K in ks) for ks in inst]
    okpv, pv = k.must("to_povm", mp.to_povm)
    if okpv:
        k.close("to_povm-vs-textbook", [mat_from_coeffs_fast(np.asarray(v), Bmat, d) for v in pv.vecs], povm_ref, listy=True)
        parts = name.split("_")
        if all(q in T.MPROCESS_POVM for q in parts):
            pname = "_".join(T.MPROCESS_POVM[q] for q in parts)
            okc, pc = k.must("catalogue-povm:%s" % pname, pt.generate_povm_from_name, pname, c)
            if okc:
                out.count("mprocess_vs_catalogue_povm")
                k.close("to_povm-vs-catalogue-povm", list(pv.vecs), list(pc.vecs), listy=True)
        elif name in ("xxparity-type1", "zzparity-type1"):
            fn = pt.get_povm_xxparity_povm_matrices if name.startswith("xx") else pt.get_povm_zzparity_povm_matrices
            okc, pc = k.must("parity-povm-matrices", fn)
            if okc:
                k.close("to_povm-vs-parity-povm-matrices", [mat_from_coeffs_fast(np.asarray(v), Bmat, d) for v in pv.vecs], pc, listy=True)
    # dispatchers
    for form in mt.get_mprocess_object_names():
        if form not in forms or (form == "set_pure_state_vectors" and not (pure and okv)):
            continue
        if form in ("hss", "mprocess") and not p.get("dispatch_heavy", True):
            continue
        okf, obj = k.must("dispatcher:%s" % form, qt.generate_qoperation_object, mode="mprocess", name=name, object_name=form, c_sys=c)
        if not okf:
            continue
        if form == "set_pure_state_vectors":
            k.true("dispatcher:set_pure_state_vectors-vs-direct",
                   len(obj) == len(vs) and all(list_dist(a, b) <= TOL for a, b in zip(obj, vs)))
        elif form == "set_kraus_matrices":
            k.true("dispatcher:set_kraus_matrices-vs-direct",
                   len(obj) == len(kraus) and all(list_dist(a, b) <= TOL for a, b in zip(obj, kraus)))
        elif form == "hss":
            k.close("dispatcher:hss-vs-direct", obj, list(mp.hss), listy=True)
        else:
            k.close("dispatcher:mprocess-vs-direct", list(obj.hss), list(mp.hss), listy=True)
    out.outcome = "ok" if not out.fails else "fail"
    out.digest = A.digest(*[np.asarray(h) for h in mp.hss])
    return out


# ---------------------------------------------------------------------------------------------- state ensembles

def ex_ensemble(p, seed):
    from quara.objects import state_ensemble_typical as se, qoperation_typical as qt
    out = Out()
    name = p["name"]
    c, B, Bmat, d = sysinfo("Q1")
    k = Chk(out, "state_ensemble_typical:%s" % name)
    ok1, el = A.call(se.generate_state_ensemble_elements_from_name, name, c)
    out.ops += 1
    if not ok1:
        out.fail("state_ensemble_typical:%s:listed-name-not-generated:%s" % (name, type(el).__name__),
                 "get_state_ensemble_names() lists %r but it cannot be generated: %s" % (name, A.fmt_exc(el)))
        out.count("ensemble_not_generated")
        out.outcome = "not-generated"
        return out
    ok2, ens = k.must("state_ensemble", se.generate_state_ensemble_from_name, c, name)
    ok3, ens2 = k.must("dispatcher:state_ensemble", qt.generate_qoperation_object, mode="state_ensemble", name=name,
                       object_name="state_ensemble", c_sys=c)
    if not (ok1 and ok2 and ok3):
        out.count("ensemble_not_generated")
        out.outcome = "not-generated"
        return out
    out.count("ensemble_generated")
    states, probs = el
    ps = np.asarray(ens.prob_dist.ps, dtype=float)
    k.true("probabilities", ps.min() >= 0 and abs(ps.sum() - 1) <= TOL and dist(ps, np.asarray(probs, dtype=float)) <= TOL)
    k.true("lengths", len(ens.states) == len(states) == ps.size)
    for i, s in enumerate(ens.states):
        rho = mat_from_coeffs_fast(np.asarray(s.vec), Bmat, d)
        k.true("reference-physical:%d" % i, ref_state_verdict(rho))
        k.close("elements-vs-object:%d" % i, s.vec, states[i].vec)
        k.close("dispatcher-vs-object:%d" % i, ens2.states[i].vec, s.vec)
    k.close("dispatcher-probabilities", ens2.prob_dist.ps, ps)
    out.outcome = "ok" if not out.fails else "fail"
    return out
