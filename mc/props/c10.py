"""C10 Constrained estimators return physical, consistent estimates.

E1 over data: every count table obtainable with N shots per schedule (small N), the exact distributions of every
alphabet object and a fixed list of far-out-of-range vectors  x  tomography type x parametrisation x projection
order x estimator (projected linear; loss minimisation x {backtracking, momentum, FISTA} x {squared error,
relative entropy; generic and fast} x option sets).
Oracles (reference side only, mc/frames.py): physicality = eq_defect / min_eig of the blocks of the returned
estimate; projected linear estimate == certified reference nearest point (c05.ref_projection, KKT certificate) of
the numpy least-squares solution of calc_matA / calc_vecB read as data; exact distributions in -> the object
out; monitor on every iterate of every backtracking run (history x); E2 (BFS) over re-use histories of
estimator / loss / algorithm objects.
"""
import copy
import math
import os

import numpy as np

from mc import alphabet as A, refmodel as R
from mc.core import Out, inner, HarnessError
from mc.props import c05
from mc.props import _c10_setup as S

ID = "C10"
RULE = ("data per (type, outcome count, system): EVERY count table with N shots per schedule for the stated N (index = mixed radix over "
        "the compositions of N, empty outcomes included); where that is too large the structured one-shot tables x(s)=(t[s%g]+c*(s//g))%outcomes "
        "(g = min(4, number of tester POVMs), for POVM tomography g = d) for all t in range(tmax)^g, c in range(cmax); exact Born distributions (reference model) of every alphabet object "
        "(interior, boundary, pure); 8 fixed improper vectors of magnitude <= 10 (zero, unnormalised, negative entries, scaled by 10; given to the projected linear estimator and the squared-error losses); "
        "x flag x projection order x estimator configuration; non-trivial = the reference linear estimate is not physical "
        "(projection moves it) or the data are exact data of a boundary object; distinct = distinct (configuration, estimator, data)")
ASSUMPTIONS = ["testers: Pauli / 4 mutually unbiased bases (qutrit) projective POVMs and the d^2 states |k>, (|j>+|k>)/sqrt2, (|j>+i|k>)/sqrt2; "
               "other tester sets are not covered",
               "loss weights: identity only (non-identity weight modes of the fast squared error are handled by another check)",
               "physicality / nearest point accuracy constant C=20 in C*sqrt(eps_proj_physical)*max(1,|linear estimate|_max) "
               "(observed worst ratio recorded in the *_ratio_gt_* counters)",
               "exact data -> true object for backtracking: squared error C=100 in C*sqrt(max(eps of the option, eps_proj_physical)); relative entropy "
               "C=20 in C*max(sqrt(eps of the option), eps_proj_physical^(1/4)) (iterates are feasible only to sqrt(eps_proj_physical) and the entropy "
               "is first-order sensitive to the equality defect); "
               "not asserted for runs that end at the iteration cap, for one-constraint option sets and for momentum / FISTA "
               "(the property promises it for projected linear and backtracking only)",
               "with on_para_eq_constraint=True the equality constraint holds by construction of the parametrisation; with one algorithm "
               "constraint switched off only the remaining constraint is asserted (and only for flag=False, where the variable space is the object space)",
               "the reference nearest point is accepted only with its KKT certificate (c05.ref_projection)"]
BOUNDS = {"quick": "projected linear (both flags, both orders, eps_proj_physical in {default 1e-14, 1e-8} on the smaller sets): Q1 state N<=3 (99 tables), "
                   "povm m=2 N<=3 (353), m=3 N<=2 (1377), gate N=1 all 4096 tables + structured, mprocess m=2 structured (128); Q3 state N<=2 (1377), "
                   "povm m=2 N=1 (512), povm m=3 / gate / mprocess m=2 structured (81 / 243 / 32); every alphabet object; 8 improper vectors. "
                   "loss minimisation: full configuration product (3 algorithms x 4 losses x 6 option sets x 2 orders + one-constraint sets) on Q1 state "
                   "N=1 / exact / improper; reduced product on Q1 povm m=2 and gate; default options on Q1 state N<=3, povm m=2 N=2, povm m=3, mprocess m=2, "
                   "Q3 state N=1, povm m=2, gate; eps_proj_physical=1e-8 sweep on Q1 state / povm / gate; re-use BFS depth 3 over 18 operations "
                   "(3 tomographies x 2 data sets x {backtracking+squared error, FISTA+relative entropy} + projected linear x 2 orders)",
          "thorough": "adds Q2 (two qubits, fast losses only), Q1 state N<=5, povm m=2 N<=4, mprocess m=3, wider structured ranges on Q3, "
                      "full configuration product on Q1 state N<=3 / povm m=2 / gate, reduced product on Q1 povm m=3 / mprocess and Q3 state, "
                      "re-use BFS depth 4, Clarabel solve of the nearest-point problem on a subset (family sdp)"}
EXHAUSTIVE = {"quick": True, "thorough": True}
CASE_TIMEOUT = 1500
CPHYS = 20.0
CACC = 20.0
CEXACT_SE = 100.0
CEXACT_RE = 20.0
ORDERS = ("eq_ineq", "ineq_eq")
ALGOS = ("pgdb", "pgdm", "fista")
LOSSES = ("se_fast", "re_fast", "se_gen", "re_gen")

_WORST = {}
_TRACE = []


def ratio(out, key, r, note=""):
    """bucketed exceedance counters (the evidence sums counters, so a maximum is recorded as buckets)"""
    out.count(key + "_checked")
    if r > 2 and os.environ.get("C10_TRACE_FILE"):
        with open(os.environ["C10_TRACE_FILE"], "a") as fh:
            fh.write("%.3g\t%s\t%s\n" % (r, key, note))
    for thr in (0.1, 0.5, 1, 2, 5, 10, 50):
        if r > thr:
            out.count("%s_ratio_gt_%g" % (key, thr))
    if r > _WORST.get(key, (0.0,))[0]:
        _WORST[key] = (r,)


# ---------------------------------------------------------------- enumeration


def split(total, size):
    return [(lo, min(total, lo + size)) for lo in range(0, total, size)]


def chunks_for(kind, sysname, m, spec, size):
    """spec: ('tab', N) | ('st', tmax, cmax) | ('exact',) | ('far',)  ->  list of chunk dicts of at most `size` data sets"""
    ns, no, g = S.schedule_shape(kind, sysname, m)
    if spec[0] == "tab":
        return [{"t": "tab", "N": spec[1], "lo": lo, "hi": hi} for lo, hi in split(S.ntab(ns, no, spec[1]), size)]
    if spec[0] == "st":
        total = S.nstruct(ns, no, g, spec[1], spec[2])
        if len(spec) > 3:
            total = min(total, spec[3])          # stated cap: the first spec[3] tables of the enumeration
        return [{"t": "st", "tmax": spec[1], "cmax": spec[2], "lo": lo, "hi": hi} for lo, hi in split(total, size)]
    if spec[0] == "exact":
        return [{"t": "exact", "names": list(spec[1])}] if len(spec) > 1 else [{"t": "exact"}]
    return [{"t": "far"}]


def plin_plan(tier):
    """(kind, sys, m, data specs, eps_proj_physical values, chunk size)"""
    q = [("state", "Q1", None, [("exact",), ("far",), ("tab", 1), ("tab", 2), ("tab", 3)], (None, 1e-8), 40),
         ("povm", "Q1", 2, [("exact",), ("far",), ("tab", 1), ("tab", 2), ("tab", 3)], (None, 1e-8), 40),
         ("povm", "Q1", 3, [("exact",), ("far",), ("tab", 1)], (None, 1e-8), 40),
         ("povm", "Q1", 3, [("tab", 2)], (None,), 60),
         ("gate", "Q1", None, [("exact",), ("far",), ("st", 2, 2)], (None, 1e-8), 16),
         ("gate", "Q1", None, [("tab", 1)], (None,), 64),
         ("gate", "Q1", None, [("exact",), ("far",), ("st", 2, 2)], ("trunc:1e-9",), 16),
         ("state", "Q1", None, [("exact",), ("far",), ("tab", 1)], ("trunc:1e-9",), 40),
         ("povm", "Q1", 2, [("exact",), ("far",), ("tab", 1)], ("trunc:1e-9",), 40),
         ("mprocess", "Q1", 2, [("exact",), ("far",), ("st", 4, 2)], (None,), 16),
         ("state", "Q3", None, [("exact",), ("far",), ("tab", 1)], (None, 1e-8), 40),
         ("state", "Q3", None, [("tab", 2)], (None,), 60),
         ("povm", "Q3", 2, [("exact",), ("far",), ("tab", 1)], (None,), 40),
         ("povm", "Q3", 3, [("exact",), ("far",), ("st", 3, 3)], (None,), 27),
         ("gate", "Q3", None, [("exact",), ("far",), ("st", 3, 3)], (None,), 27),
         ("mprocess", "Q3", 2, [("exact",), ("far",), ("st", 2, 2)], (None,), 8)]
    if tier == "thorough":
        q += [("state", "Q1", None, [("tab", 4), ("tab", 5)], (None, 1e-8), 60),
              ("povm", "Q1", 2, [("tab", 4)], (None,), 60),
              ("mprocess", "Q1", 3, [("exact",), ("far",), ("st", 3, 2)], (None,), 9),
              ("mprocess", "Q1", 2, [("st", 4, 4)], (1e-8,), 16),
              ("gate", "Q1", None, [("tab", 1)], (1e-8,), 64),
              ("povm", "Q3", 2, [("tab", 1)], (1e-8,), 40),
              ("mprocess", "Q3", 2, [("st", 3, 2)], (None,), 9),
              ("state", "Q2", None, [("exact",), ("far",), ("st", 4, 3)], (None,), 32),
              ("povm", "Q2", 2, [("exact",), ("far",), ("st", 2, 2)], (None,), 16),
              ("gate", "Q2", None, [("exact",), ("far",), ("st", 2, 2)], (None,), 2)]
    return q


def config_product(level, kind=None, sysname=None):
    """estimator configurations (algo, loss, optset, order)"""
    out = []
    if level == "full":
        for a in ALGOS:
            for l in LOSSES:
                for o in ("default", "var", "absloss2", "projgrad", "tuned", "start"):
                    for order in ORDERS:
                        out.append((a, l, o, order))
            for l in ("se_fast", "re_fast"):
                for o in ("eq_only", "ineq_only"):
                    out.append((a, l, o, "eq_ineq"))
    elif level == "reduced":
        for a in ALGOS:
            for l in ("se_fast", "re_fast"):
                for o in ("default", "var", "absloss2", "projgrad", "tuned", "start"):
                    out.append((a, l, o, "eq_ineq"))
                out.append((a, l, "default", "ineq_eq"))
            for l in ("se_gen", "re_gen"):
                out.append((a, l, "default", "eq_ineq"))
            out.append((a, "se_fast", "eq_only", "eq_ineq"))
            out.append((a, "re_fast", "ineq_only", "eq_ineq"))
    elif level == "fast":
        for a in ALGOS:
            for l in ("se_fast", "re_fast"):
                for order in ORDERS:
                    out.append((a, l, "default", order))
    elif level == "light":
        for a in ALGOS:
            for l in ("se_fast", "re_fast"):
                out.append((a, l, "default", "eq_ineq"))
        out.append(("pgdb", "se_fast", "var", "ineq_eq"))
        out.append(("fista", "re_fast", "tuned", "ineq_eq"))
    elif level == "pair":
        for a in ("pgdb", "fista"):
            for l in ("se_fast", "re_fast"):
                out.append((a, l, "default", "eq_ineq"))
        out.append(("pgdm", "se_fast", "default", "eq_ineq"))
    else:
        raise ValueError(level)
    if level != "full":
        # bulk runs: momentum with the default criterion is bounded at 100 iterations except for its squared-error / eq_ineq run
        out = [(a, l, "default100" if (a == "pgdm" and o == "default" and not (l == "se_fast" and order == "eq_ineq")) else o, order)
               for (a, l, o, order) in out]
    return out


def lossmin_plan(tier):
    """(kind, sys, m, data specs, configuration level, chunk size)"""
    q = [("state", "Q1", None, [("exact",), ("far",), ("tab", 1)], "full", 8),
         ("state", "Q1", None, [("tab", 2), ("tab", 3)], "fast", 32),
         ("povm", "Q1", 2, [("exact",), ("far",), ("tab", 1)], "reduced", 8),
         ("povm", "Q1", 2, [("tab", 2)], "pair", 27),
         ("povm", "Q1", 3, [("exact",), ("st", 3, 3)], "light", 9),
         ("gate", "Q1", None, [("exact",), ("far",), ("st", 2, 2)], "reduced", 8),
         ("mprocess", "Q1", 2, [("exact",), ("st", 2, 1)], "light", 4),
         ("mprocess", "Q1", 3, [("exact",)], "light", 4),
         ("state", "Q3", None, [("exact",), ("far",), ("tab", 1)], "fast", 27),
         ("povm", "Q3", 2, [("exact",), ("st", 2, 2)], "light", 8),
         ("gate", "Q3", None, [("exact",), ("st", 2, 1)], "light", 4)]
    if tier == "thorough":
        q += [("state", "Q1", None, [("tab", 2), ("tab", 3)], "full", 16),
              ("povm", "Q1", 2, [("exact",), ("far",), ("tab", 1)], "full", 8),
              ("povm", "Q1", 2, [("tab", 2)], "reduced", 27),
              ("povm", "Q1", 3, [("far",), ("tab", 1)], "reduced", 27),
              ("gate", "Q1", None, [("exact",), ("far",), ("st", 2, 2)], "full", 4),
              ("mprocess", "Q1", 2, [("exact",), ("far",), ("st", 2, 2)], "reduced", 2),
              ("state", "Q3", None, [("exact",), ("far",), ("tab", 1)], "reduced", 27),
              ("state", "Q3", None, [("tab", 2)], "fast", 60),
              ("povm", "Q3", 2, [("far",), ("tab", 1)], "fast", 32),
              ("gate", "Q3", None, [("far",), ("st", 2, 2)], "fast", 2),
              ("mprocess", "Q3", 2, [("exact",), ("st", 2, 1)], "light", 1),
              ("state", "Q2", None, [("exact",), ("far",), ("st", 2, 2)], "fast", 8),
              ("povm", "Q2", 2, [("exact",), ("st", 2, 2)], "pair", 4),
              ("gate", "Q2", None, [("exact", ("unitary_generic", "depolarizing")), ("st", 2, 1, 2)], "pair", 1)]
    return q


REUSE_QTS = (("state", "Q1", None, True), ("povm", "Q1", 2, True), ("state", "Q1", None, False))
REUSE_LM = (("pgdb", "se_fast", "eq_ineq"), ("fista", "re_fast", "ineq_eq"))


def reuse_menu():
    ops = []
    for qi in range(len(REUSE_QTS)):
        for d in (0, 1):
            for li in range(len(REUSE_LM)):
                ops.append(("lm", qi, d, li))
        for order in ORDERS:
            ops.append(("plin", qi, 0, order))
    return ops


def families(tier, seed):
    plin = []
    for kind, sysname, m, specs, epsps, size in plin_plan(tier):
        for epsp in epsps:
            for flag in (True, False):
                for spec in specs:
                    for ch in chunks_for(kind, sysname, m, spec, size):
                        plin.append({"kind": kind, "sys": sysname, "m": m, "flag": flag, "epsp": epsp, "chunks": [ch]})
    lm = []
    for kind, sysname, m, specs, level, size in lossmin_plan(tier):
        for flag in (True, False):
            for (a, l, o, order) in config_product(level):
                if sysname == "Q2" and l.endswith("_gen"):
                    continue
                small = []
                for spec in specs:
                    for ch in chunks_for(kind, sysname, m, spec, size):
                        if spec[0] in ("exact", "far"):
                            small.append(ch)
                        else:
                            lm.append({"kind": kind, "sys": sysname, "m": m, "flag": flag, "epsp": None, "algo": a, "loss": l, "optset": o,
                                       "order": order, "chunks": [ch]})
                if small:
                    lm.append({"kind": kind, "sys": sysname, "m": m, "flag": flag, "epsp": None, "algo": a, "loss": l, "optset": o,
                               "order": order, "chunks": small})
    # the projection threshold of the tomography also governs the loss minimisation: one sweep with a coarse threshold
    for kind, sysname, m in (("state", "Q1", None), ("povm", "Q1", 2), ("gate", "Q1", None)):
        for flag in (True, False):
            for (a, l, o, order) in config_product("light"):
                lm.append({"kind": kind, "sys": sysname, "m": m, "flag": flag, "epsp": 1e-8, "algo": a, "loss": l, "optset": o, "order": order,
                           "chunks": [{"t": "exact"}] + chunks_for(kind, sysname, m, ("tab", 1) if kind != "gate" else ("st", 2, 1), 1000)})
    # the start-point option with loss objects constructed the plain way (no num_var argument)
    for flag in (True, False):
        for a in ALGOS:
            for l in LOSSES:
                lm.append({"kind": "state", "sys": "Q1", "m": None, "flag": flag, "epsp": None, "algo": a, "loss": l, "optset": "start_plain",
                           "order": "eq_ineq", "chunks": [{"t": "exact", "names": ["z0", "mixed_generic"]}, {"t": "tab", "N": 1, "lo": 0, "hi": 2}]})
    nops = len(reuse_menu())
    reuse = [{"first": i, "depth": 3 if tier == "quick" else 4} for i in range(nops)]
    # one fixed input (independent of VERIF_SEED) on which the recorded absolute-threshold finding always shows
    lm = lm + [{"algo": "pgdb", "chunks": [{"t": "exact"}], "epsp": None, "flag": False, "kind": "mprocess", "loss": "re_fast", "m": 2,
                "optset": "default", "order": "eq_ineq", "sys": "Q1", "fixed_seed": 2}]
    fams = [("plin", plin), ("lossmin", lm), ("reuse", reuse)]
    if tier == "thorough":
        sdp = []
        for kind, sysname, m, spec in (("state", "Q1", None, ("tab", 2)), ("povm", "Q1", 2, ("tab", 1)), ("povm", "Q1", 3, ("st", 3, 3)),
                                       ("gate", "Q1", None, ("st", 2, 2)), ("mprocess", "Q1", 2, ("st", 2, 2)), ("state", "Q3", None, ("tab", 1)),
                                       ("povm", "Q3", 2, ("st", 2, 2)), ("gate", "Q3", None, ("st", 2, 1))):
            for flag in (True, False):
                for ch in chunks_for(kind, sysname, m, spec, 4) + [{"t": "far"}]:
                    sdp.append({"kind": kind, "sys": sysname, "m": m, "flag": flag, "epsp": None, "chunks": [ch]})
        fams.append(("sdp", sdp))
    return fams


def guards(summary):
    g = []
    info = summary["info"]
    need = ["plin_runs", "plin_clipped", "plin_unmoved", "plin_exact_checked", "plin_nearest_checked", "plin_empty_outcome_tables",
            "plin_improper", "lm_runs", "lm_physical_checked", "lm_exact_checked", "lm_iterates_checked", "lm_backtracking_histories",
            "lm_boundary_estimates", "lm_interior_estimates", "lm_capped_runs", "lm_eq_only_checked", "lm_ineq_only_checked",
            "lm_start_from_option", "lm_improper", "lm_multi_step_runs", "lm_alpha_below_one", "reuse_transitions", "reuse_loss_reused",
            "reuse_algo_reused_other_tomography", "reuse_physical_checked", "exact_boundary_objects", "exact_interior_objects"]
    for a in ALGOS:
        need.append("lm_runs_" + a)
    for l in LOSSES:
        need.append("lm_runs_" + l)
    for k in ("state", "povm", "gate", "mprocess"):
        need += ["plin_runs_" + k, "lm_runs_" + k]
    if "sdp" in summary.get("families", {}):
        need.append("sdp_compared")
    for k in need:
        if info.get(k, 0) < 1:
            g.append("never seen: " + k)
    return g


def execute(family, p, seed):
    seed = p.get("fixed_seed", seed)
    return {"plin": ex_plin, "lossmin": ex_lossmin, "reuse": ex_reuse, "sdp": ex_sdp}[family](p, seed)


# ---------------------------------------------------------------- reference side


def ref_linear(T, ps):
    """reference least-squares solution of  A v + b = f  (A, b read from the tomography as data), as a stacked vector"""
    f = np.concatenate([np.asarray(p, float) for p in ps])
    v, *_ = np.linalg.lstsq(T.A, f - T.b, rcond=None)
    return T.F.stacked_from_var(v, T.flag)


def ref_nearest(T, cfg, name, x0, seed):
    xr, good, cert = c05.ref_projection(T.F, x0, ("C10", cfg, T.flag, name, seed))
    if not good:
        raise HarnessError("reference projection not certified for %s %s: %r" % (cfg, name, cert))
    return xr


def consistent_with_born(T, ps, xtrue):
    """precondition of the exact-data oracle: the tomography's linear model reproduces the reference Born distributions"""
    v = T.F.var_from_stacked(xtrue, T.flag)
    return float(np.abs(T.A @ v + T.b - np.concatenate(ps)).max())


def result_vectors(out, T, res, site, where):
    """estimate of a result as a stacked vector, read two ways: estimated_qoperation (the observable) and estimated_var
    through the reference parametrisation; they must agree"""
    F = T.F
    ok, obj = A.call(lambda: res.estimated_qoperation)
    if not ok:
        out.fail(site + ":estimated_qoperation-raises", "%s: %s" % (where, A.fmt_exc(obj)))
        return None
    x = F.stacked(obj)
    var = np.asarray(res.estimated_var, dtype=float).ravel()
    if var.shape != (F.num_var(T.flag),):
        out.fail(site + ":estimated_var-shape", "%s: shape %r, expected %d" % (where, var.shape, F.num_var(T.flag)))
        return None
    if not (np.all(np.isfinite(x)) and np.all(np.isfinite(var))):
        out.fail(site + ":non-finite-estimate", "%s: estimate contains nan/inf" % where)
        return None
    xv = F.stacked_from_var(var, T.flag)
    if np.abs(xv - x).max() > 1e-11 * max(1.0, np.abs(x).max()):
        out.fail(site + ":estimated_qoperation-differs-from-estimated_var", "%s: %.3g" % (where, np.abs(xv - x).max()))
        return None
    return x


def is_boundary(F, x):
    return F.min_eig(x) < 1e-6


# ---------------------------------------------------------------- projected linear


def ex_plin(p, seed):
    from quara.protocol.qtomography.standard.projected_linear_estimator import ProjectedLinearEstimator
    out = Out()
    kind, sysname, m, flag = p["kind"], p["sys"], p["m"], p["flag"]
    T = S.tomo(kind, sysname, m, flag, p["epsp"])
    F = T.F
    cfg = "%s:%s:m=%s" % (kind, sysname, m)
    sq = math.sqrt(T.epsp)
    digs = []
    n = 0
    nontriv = 0
    for chunk in p["chunks"]:
        for name, dcls, ps, N, xtrue in S.expand(T, chunk, seed):
            n += 1
            x0 = ref_linear(T, ps)
            scale = max(1.0, float(np.abs(x0).max()))
            xr = ref_nearest(T, cfg, name, x0, seed)
            moved = float(np.linalg.norm(xr - x0)) > 1e-9 * scale
            out.count("plin_clipped" if moved else "plin_unmoved")
            if dcls == "fewshot" and any((np.asarray(q) == 0).any() for q in ps):
                out.count("plin_empty_outcome_tables")
            if dcls == "improper":
                out.count("plin_improper")
            pre_ok = True
            if xtrue is not None:
                out.count("exact_boundary_objects" if is_boundary(F, xtrue) else "exact_interior_objects")
                dev = consistent_with_born(T, ps, xtrue)
                if dev > 1e-9:
                    pre_ok = False
                    out.fail("precondition:calc_matA-calc_vecB-disagree-with-born:%s:flag=%s" % (cfg, flag),
                             "%s: |A var(true) + b - p_born|_max = %.3g" % (name, dev))
            if moved or (xtrue is not None and is_boundary(F, xtrue)):
                nontriv += 1
            for order in ORDERS:
                site = "ProjectedLinearEstimator.calc_estimate:%s:flag=%s:%s" % (cfg, flag, order)
                where = "%s data %s eps_proj_physical=%g" % (cfg, name, T.epsp)
                est = ProjectedLinearEstimator(mode_proj_order=order)
                ok, res, txt = S.quiet(est.calc_estimate, T.qt, S.emp_of(ps, N))
                out.ops += 1
                out.traces += 1
                out.count("plin_runs")
                out.count("plin_runs_" + kind)
                if not ok:
                    if isinstance(res, ValueError) and "imaginary parts" in str(res):
                        # the projection's ABSOLUTE imaginary-part threshold (1e-13) hit by an intermediate point of scale ~1e3
                        # (the gradient of the relative entropy explodes near p -> 0): same root cause as the C04 finding
                        out.fail("LossMinimizationEstimator.calc_estimate:raises:imag-truncation-absolute-threshold:intermediate-point-of-large-scale",
                                 "%s (%s): %s" % (where, site, A.fmt_exc(res)[:200]))
                    else:
                        out.fail(site + ":raises:data=" + dcls, "%s: %s" % (where, A.fmt_exc(res)))
                    continue
                if "exceeds the limit" in txt:
                    out.count("plin_projection_iteration_limit")
                    if dcls == "improper":
                        # calc_proj_physical() stopped at its hard-wired 1000 sweeps, not at eps_proj_physical: no threshold was met and
                        # the data are not a distribution; nothing is asserted (proper data never get here in the enumerated space)
                        out.count("plin_improper_iteration_limit_not_asserted")
                        continue
                x = result_vectors(out, T, res, site, where)
                if x is None:
                    continue
                digs.append(x)
                tol = CPHYS * sq * scale
                eqd, me = F.eq_defect(x), F.min_eig(x)
                ratio(out, "plin_physical", max(eqd, -me, 0.0) / (sq * scale))
                if eqd > tol or me < -tol:
                    out.fail(site + ":not-physical:data=" + dcls, "%s: equality defect %.3g, smallest eigenvalue %.3g (allowed %.3g)%s" % (
                        where, eqd, me, tol, "; the projection hit its iteration limit" if "exceeds the limit" in txt else ""))
                err = float(np.linalg.norm(x - xr))
                ratio(out, "plin_nearest", err / (sq * scale))
                out.count("plin_nearest_checked")
                if err > CACC * sq * scale:
                    out.fail(site + ":not-projection-of-linear-estimate:data=" + dcls,
                             "%s: distance to the certified nearest physical point of the reference linear estimate %.3g > %.3g "
                             "(linear estimate is %.3g away from the physical set)" % (where, err, CACC * sq * scale, np.linalg.norm(xr - x0)))
                if xtrue is not None and pre_ok:
                    e2 = float(np.linalg.norm(x - xtrue))
                    ratio(out, "plin_exact", e2 / sq)
                    out.count("plin_exact_checked")
                    if e2 > CACC * sq:
                        out.fail(site + ":exact-data-not-reproduced:%s" % ("boundary" if is_boundary(F, xtrue) else "interior"),
                                 "%s: distance to the true object %.3g > %.3g" % (where, e2, CACC * sq))
    inner(out, max(0, n - 1), max(0, nontriv - 1))
    out.nontrivial = nontriv > 0
    out.outcome = "ok" if not out.fails else "fail"
    out.digest = A.digest(*digs) if digs else ""
    return out


def clarabel_nearest(F, x0):
    """independent semidefinite-programming solve of  min |x - x0|^2  s.t.  C x = b, every block of H(x) PSD"""
    import cvxpy as cp
    x = cp.Variable(F.n)
    cons = [F.C @ x == F.b]
    M = F.Bm if F.kind in ("state", "povm") else F.T
    nb = F.nblocks()
    per = F.n // nb
    bd = F.block_dim()
    for k in range(nb):
        Hre = cp.reshape(x[k * per:(k + 1) * per] @ M.real, (bd, bd), order="C")
        Him = cp.reshape(x[k * per:(k + 1) * per] @ M.imag, (bd, bd), order="C")
        cons.append(cp.bmat([[Hre, -Him], [Him, Hre]]) >> 0)
    prob = cp.Problem(cp.Minimize(cp.sum_squares(x - x0)), cons)
    prob.solve(solver=cp.CLARABEL, tol_gap_abs=1e-12, tol_gap_rel=1e-12, tol_feas=1e-12)
    if prob.status not in ("optimal", "optimal_inaccurate") or x.value is None:
        raise HarnessError("Clarabel failed: %s" % prob.status)
    return np.asarray(x.value, float)


def ex_sdp(p, seed):
    """thorough: the projected linear estimate against an independent SDP solve of the nearest-point problem"""
    from quara.protocol.qtomography.standard.projected_linear_estimator import ProjectedLinearEstimator
    out = Out()
    kind, sysname, m, flag = p["kind"], p["sys"], p["m"], p["flag"]
    T = S.tomo(kind, sysname, m, flag, p["epsp"])
    F = T.F
    cfg = "%s:%s:m=%s" % (kind, sysname, m)
    n = 0
    for chunk in p["chunks"]:
        for name, dcls, ps, N, xtrue in S.expand(T, chunk, seed):
            n += 1
            x0 = ref_linear(T, ps)
            scale = max(1.0, float(np.abs(x0).max()))
            xs = clarabel_nearest(F, x0)
            xr = ref_nearest(T, cfg, name, x0, seed)
            if np.linalg.norm(xs - xr) > 5e-3 * scale:
                raise HarnessError("certified nearest point and Clarabel disagree by %.3g for %s %s" % (np.linalg.norm(xs - xr), cfg, name))
            if np.linalg.norm(xs - xr) > 2e-4 * scale:
                # the interior-point solve stopped short of the (certified) nearest point: this data point has no usable second oracle
                out.count("sdp_solve_inaccurate_skipped")
                continue
            for order in ORDERS:
                est = ProjectedLinearEstimator(mode_proj_order=order)
                ok, res, txt = S.quiet(est.calc_estimate, T.qt, S.emp_of(ps, N))
                out.ops += 1
                out.traces += 1
                if not ok:
                    continue          # reported by the plin family
                if dcls == "improper" and "exceeds the limit" in txt:
                    continue
                x = result_vectors(out, T, res, "sdp:ProjectedLinearEstimator.calc_estimate:%s:flag=%s:%s" % (cfg, flag, order), name)
                if x is None:
                    continue
                out.count("sdp_compared")
                if np.linalg.norm(x - xs) > 2e-4 * scale:
                    out.fail("sdp:ProjectedLinearEstimator.calc_estimate:%s:flag=%s:%s:differs-from-sdp-solve:data=%s" % (cfg, flag, order, dcls),
                             "%s data %s: distance to the Clarabel nearest point %.3g" % (cfg, name, np.linalg.norm(x - xs)))
    inner(out, max(0, n - 1))
    out.outcome = "ok" if not out.fails else "fail"
    return out


# ---------------------------------------------------------------- loss minimisation


def verdict(F, x, info, flag):
    """reference physicality verdict restricted to the constraints that are switched on: (equality defect | None, min eig | None)"""
    if info["eq"] and info["ineq"]:
        return F.eq_defect(x), F.min_eig(x)
    if flag:
        return None, None        # one constraint off and variable space != object space: nothing is asserted
    if info["eq"]:
        return F.eq_defect(x), None
    if info["ineq"]:
        return None, F.min_eig(x)
    return None, None


def judge_lm(out, T, res, info, algo, site, where, dcls, xtrue, pre_ok, txt, prefix="lm"):
    """all C10 oracles on one loss-minimisation result; returns the estimate (stacked) or None"""
    F = T.F
    flag = T.flag
    x = result_vectors(out, T, res, site, where)
    if x is None:
        return None
    both = info["eq"] and info["ineq"]
    sqp = math.sqrt(T.epsp)
    tol = CPHYS * sqp * max(1.0, float(np.abs(x).max()))
    eqd, me = verdict(F, x, info, flag)
    if both:
        out.count(prefix + "_physical_checked")
        ratio(out, prefix + "_physical", max(eqd, -me, 0.0) / sqp, site + " " + where)
        out.count(prefix + "_boundary_estimates" if me < 1e-6 else prefix + "_interior_estimates")
    elif eqd is not None and me is None and not flag:
        out.count(prefix + "_eq_only_checked")
    elif me is not None and eqd is None:
        out.count(prefix + "_ineq_only_checked")
    if (eqd is not None and eqd > tol) or (me is not None and me < -tol):
        out.fail(site + ":not-physical:data=" + dcls, "%s: equality defect %s, smallest eigenvalue %s (allowed %.3g)" % (
            where, "n/a" if eqd is None else "%.3g" % eqd, "n/a" if me is None else "%.3g" % me, tol))
    drs = res.detailed_results
    dr = drs[0] if drs else None
    capped = False
    if dr is not None and dr.k is not None:
        maxit = info.get("maxit", 1000)
        capped = dr.k >= maxit
        if capped:
            out.count(prefix + "_capped_runs")
        if dr.k > 1:
            out.count(prefix + "_multi_step_runs")
        var = np.asarray(res.estimated_var, float).ravel()
        xs = dr.x
        if xs is not None:
            if len(xs) != dr.k + 1:
                out.fail(site + ":history-length", "%s: %d iterates recorded for k=%d" % (where, len(xs), dr.k))
            elif np.abs(np.asarray(xs[-1], float) - var).max() > 0:
                out.fail(site + ":estimate-is-not-the-last-iterate", "%s: returned value differs from history x[-1] by %.3g" % (
                    where, np.abs(np.asarray(xs[-1], float) - var).max()))
            if algo == "pgdb":
                out.count(prefix + "_backtracking_histories")
                # start point: the origin object of the estimation template (or the option's start)
                want = info["start"] if info["start"] is not None else S.origin_stacked(F)
                x0 = F.stacked_from_var(np.asarray(xs[0], float), flag)
                if info["start"] is not None:
                    out.count(prefix + "_start_from_option")
                if np.abs(x0 - want).max() > 1e-12:
                    out.fail(site + ":start-point", "%s: iteration starts %.3g away from the %s" % (
                        where, np.abs(x0 - want).max(), "start of the option" if info["start"] is not None else "origin object"))
                for k, xk in enumerate(xs):
                    xk = np.asarray(xk, float)
                    if not np.all(np.isfinite(xk)):
                        out.fail(site + ":iterate-non-finite", "%s: iterate %d" % (where, k))
                        break
                    xk = F.stacked_from_var(xk, flag)
                    e_k, m_k = verdict(F, xk, info, flag)
                    out.count(prefix + "_iterates_checked")
                    out.traces += 1
                    if (e_k is not None and e_k > tol) or (m_k is not None and m_k < -tol):
                        out.fail(site + ":iterate-not-feasible:data=" + dcls, "%s: iterate %d of %d has equality defect %s, smallest eigenvalue %s (allowed %.3g)" % (
                            where, k, len(xs) - 1, "n/a" if e_k is None else "%.3g" % e_k, "n/a" if m_k is None else "%.3g" % m_k, tol))
                        break
                al = dr.alpha
                if al is not None:
                    if any(not (0.0 < a <= 1.0) for a in al):
                        out.fail(site + ":step-not-a-convex-combination", "%s: alpha values %r" % (where, [a for a in al if not (0.0 < a <= 1.0)][:3]))
                    if any(a < 1.0 for a in al):
                        out.count(prefix + "_alpha_below_one")
                    if al and al[-1] < 1e-6:
                        out.count(prefix + "_line_search_collapsed_runs")
    if xtrue is not None and pre_ok and algo == "pgdb" and both and not capped and not info["capped"]:
        e2 = float(np.linalg.norm(x - xtrue))
        # stopping accuracy: the iterates are feasible only to delta = sqrt(eps_proj_physical).  At the true object the squared
        # error has zero gradient (error ~ delta), the relative entropy has not (its value moves linearly with the equality
        # defect), so its minimiser is located only to sqrt(delta).
        if info["loss"].startswith("se"):
            acc, cst = math.sqrt(max(info["eps"], T.epsp)), CEXACT_SE
        else:
            acc, cst = max(math.sqrt(info["eps"]), T.epsp ** 0.25), CEXACT_RE
        bnd = "boundary" if is_boundary(F, xtrue) else "interior"
        ratio(out, "%s_exact_%s_%s" % (prefix, info["loss"][:2], bnd), e2 / acc, site + " " + where)
        if len(_TRACE) < 100000:
            _TRACE.append((e2 / acc, site, where, None if dr is None else dr.k))
        out.count(prefix + "_exact_checked")
        if e2 > cst * acc:
            al = None if dr is None else dr.alpha
            collapsed = bool(al) and al[-1] < 1e-6
            out.fail(site + ":exact-data-not-reproduced:" + bnd + (":line-search-collapsed" if collapsed else ""),
                     "%s: distance to the true object %.3g > %.3g after k=%s iterations%s" % (
                         where, e2, cst * acc, None if dr is None else dr.k,
                         "; the backtracking line search ended with alpha=%.3g (no descent along the projected-gradient direction), "
                         "which the loss-difference criterion reads as convergence" % al[-1] if collapsed else ""))
    return x


def ex_lossmin(p, seed):
    from quara.protocol.qtomography.standard.loss_minimization_estimator import LossMinimizationEstimator
    out = Out()
    kind, sysname, m, flag = p["kind"], p["sys"], p["m"], p["flag"]
    algo, loss, optset, order = p["algo"], p["loss"], p["optset"], p["order"]
    T = S.tomo(kind, sysname, m, flag, p["epsp"])
    F = T.F
    cfg = "%s:%s:m=%s" % (kind, sysname, m)
    site = "LossMinimizationEstimator.calc_estimate:%s:%s:opt=%s:%s:flag=%s" % (algo, loss, optset, cfg, flag)
    digs = []
    n = 0
    nontriv = 0
    for chunk in p["chunks"]:
        for name, dcls, ps, N, xtrue in S.expand(T, chunk, seed):
            n += 1
            where = "%s data %s order=%s eps_proj_physical=%g" % (cfg, name, order, T.epsp)
            pre_ok = True
            if xtrue is not None:
                out.count("exact_boundary_objects" if is_boundary(F, xtrue) else "exact_interior_objects")
                pre_ok = consistent_with_born(T, ps, xtrue) <= 1e-9       # reported by the plin family
            if dcls == "improper":
                if loss.startswith("re_"):
                    out.count("lm_improper_data_not_given_to_entropy")      # the relative entropy is defined for distributions only
                    continue
                out.count("lm_improper")
            algo_obj, opt, info = S.algo_option(algo, optset, order, T, seed)
            info["maxit"] = opt.max_iteration_optimization
            info["loss"] = loss
            # the fast losses do not learn their number of variables from the tomography; the start-point option needs it
            loss_obj, lopt = S.loss_objects(loss, num_var=F.num_var(flag) if (optset == "start" and loss.endswith("_fast")) else None)
            est = LossMinimizationEstimator()
            ok, res, txt = S.quiet(est.calc_estimate, T.qt, S.emp_of(ps, N), loss_obj, lopt, algo_obj, opt,
                                   is_computation_time_required=True, is_detailed_results_required=True)
            out.ops += 1
            out.traces += 1
            for key in ("lm_runs", "lm_runs_" + algo, "lm_runs_" + loss, "lm_runs_" + kind):
                out.count(key)
            if not ok:
                if optset == "start_plain" and isinstance(res, ValueError) and "is_loss_and_option_sufficient" in str(res):
                    out.fail("LossMinimizationEstimator.calc_estimate:var_start-rejected:%s-loss-without-num_var" % loss.split("_")[1],
                             "%s %s %s: a start point of the right length is rejected (%s); loss.num_var=%r" % (
                                 where, algo, loss, A.fmt_exc(res), loss_obj.num_var))
                elif not (info["eq"] and info["ineq"]):
                    # one algorithm constraint switched off: outside the property (unbounded iterates are possible); not asserted
                    out.count("lm_one_constraint_raises_not_asserted")
                else:
                    if isinstance(res, ValueError) and "imaginary parts" in str(res):
                        # the projection's ABSOLUTE imaginary-part threshold (1e-13) hit by an intermediate point of scale ~1e3
                        # (the gradient of the relative entropy explodes near p -> 0): same root cause as the C04 finding
                        out.fail("LossMinimizationEstimator.calc_estimate:raises:imag-truncation-absolute-threshold:intermediate-point-of-large-scale",
                                 "%s (%s): %s" % (where, site, A.fmt_exc(res)[:200]))
                    else:
                        out.fail(site + ":raises:data=" + dcls, "%s: %s" % (where, A.fmt_exc(res)))
                continue
            if "projection iterations exceeds" in txt:
                out.count("lm_projection_iteration_limit")
            x = judge_lm(out, T, res, info, algo, site, where, dcls, xtrue, pre_ok, txt)
            if x is not None:
                digs.append(x)
                if F.min_eig(x) < 1e-6 or (xtrue is not None and is_boundary(F, xtrue)):
                    nontriv += 1
    inner(out, max(0, n - 1), max(0, nontriv - 1))
    out.nontrivial = nontriv > 0
    out.outcome = "ok" if not out.fails else "fail"
    out.digest = A.digest(*digs) if digs else ""
    return out


# ---------------------------------------------------------------- re-use histories (E2)

_RDATA = {}


def reuse_data(qi, d, seed):
    """data set d of tomography qi: 0 = two-shot table with empty outcomes, 1 = exact data of a pure / projective object"""
    key = (qi, d, seed)
    if key not in _RDATA:
        kind, sysname, m, flag = REUSE_QTS[qi]
        T = S.tomo(kind, sysname, m, flag, None)
        if d == 0:
            idx = {"state": 5, "povm": 7}[kind]
            ps = S.table(T.ns, T.no, 2, idx)
            _RDATA[key] = (T, "tab:N=2:%d" % idx, "fewshot", ps, 2, None)
        else:
            objs = S.true_objects(kind, sysname, m, seed)
            nm = "pure_generic" if kind == "state" else "projective_m2"
            native, x = objs[nm]
            _RDATA[key] = (T, "exact:" + nm, "exact", S.born(T, native), 1000, x)
    return _RDATA[key]


def new_shared():
    from quara.protocol.qtomography.standard.loss_minimization_estimator import LossMinimizationEstimator
    from quara.protocol.qtomography.standard.projected_linear_estimator import ProjectedLinearEstimator
    objs = {"est_lm": LossMinimizationEstimator()}
    for order in ORDERS:
        objs["est_pl_" + order] = ProjectedLinearEstimator(mode_proj_order=order)
    for l in ("se_fast", "re_fast"):
        objs[l] = S.loss_objects(l)[0]
    T0 = S.tomo("state", "Q1", None, True, None)
    for a in ("pgdb", "fista"):
        objs[a] = S.algo_option(a, "default", "eq_ineq", T0, 0)[0]
    return objs


def ex_reuse(p, seed):
    out = Out()
    ops = reuse_menu()
    depth = p["depth"]
    digs = []

    def step(objs, state, hist, op):
        o2 = copy.deepcopy(objs)
        typ, qi, d, extra = op
        T, name, dcls, ps, N, xtrue = reuse_data(qi, d, seed)
        F = T.F
        kind = T.kind
        cfg = "%s:%s:m=%s" % (kind, T.systag, T.m)
        hname = " -> ".join("/".join(map(str, h)) for h in hist + [op])
        s2 = dict(state)
        out.transitions += 1
        out.ops += 1
        out.traces += 1
        out.count("reuse_transitions")
        if typ == "plin":
            est = o2["est_pl_" + extra]
            if state.get("est_pl_" + extra) not in (None, qi):
                out.count("reuse_plin_reused_other_tomography")
            s2["est_pl_" + extra] = qi
            site = "reuse:ProjectedLinearEstimator.calc_estimate:%s:flag=%s:%s" % (cfg, T.flag, extra)
            ok, res, txt = S.quiet(est.calc_estimate, T.qt, S.emp_of(ps, N))
            if not ok:
                out.fail(site + ":raises", "history %s: %s" % (hname, A.fmt_exc(res)))
                return o2, s2
            x = result_vectors(out, T, res, site, "history " + hname)
            if x is None:
                return o2, s2
            digs.append(x)
            sq = math.sqrt(T.epsp)
            x0 = ref_linear(T, ps)
            scale = max(1.0, float(np.abs(x0).max()))
            xr = ref_nearest(T, cfg, name, x0, seed)
            out.count("reuse_physical_checked")
            if F.eq_defect(x) > CPHYS * sq * scale or F.min_eig(x) < -CPHYS * sq * scale:
                out.fail(site + ":not-physical", "history %s: equality defect %.3g, smallest eigenvalue %.3g" % (hname, F.eq_defect(x), F.min_eig(x)))
            if np.linalg.norm(x - xr) > CACC * sq * scale:
                out.fail(site + ":not-projection-of-linear-estimate", "history %s: distance %.3g" % (hname, np.linalg.norm(x - xr)))
            return o2, s2
        algo, loss, order = REUSE_LM[extra]
        prev_loss, prev_algo = state.get(loss), state.get(algo)
        if prev_loss is not None and prev_loss != (qi, d):
            out.count("reuse_loss_reused")
        if prev_algo is not None and prev_algo[0] != qi:
            out.count("reuse_algo_reused_other_tomography")
        if prev_algo is not None and prev_algo[1] != order:
            out.count("reuse_algo_reused_other_order")
        s2[loss] = (qi, d)
        s2[algo] = (qi, order)
        s2["est_lm"] = qi
        _, opt, info = S.algo_option(algo, "default", order, T, seed)
        info["maxit"] = opt.max_iteration_optimization
        info["loss"] = loss
        _, lopt = S.loss_objects(loss)
        what = "+".join(w for w, c in (("loss-reused", prev_loss not in (None, (qi, d))), ("algo-reused", prev_algo not in (None, (qi, order)))) if c) or "no-reuse"
        site = "reuse:LossMinimizationEstimator.calc_estimate:%s:%s:%s:flag=%s:%s" % (algo, loss, cfg, T.flag, what)
        ok, res, txt = S.quiet(o2["est_lm"].calc_estimate, T.qt, S.emp_of(ps, N), o2[loss], lopt, o2[algo], opt,
                               is_computation_time_required=True, is_detailed_results_required=True)
        if not ok:
            out.fail(site + ":raises", "history %s: %s" % (hname, A.fmt_exc(res)))
            return o2, s2
        x = judge_lm(out, T, res, info, algo, site, "history " + hname, dcls, xtrue, True, txt, prefix="reuse")
        if x is not None:
            digs.append(x)
        return o2, s2

    def key_of(state):
        return tuple(sorted(state.items()))

    first = ops[p["first"]]
    objs1, st1 = step(new_shared(), {}, [], first)
    seen = {key_of(st1)}
    frontier = [(objs1, st1, [first])]
    for level in range(2, depth + 1):
        nxt = []
        for objs, st, hist in frontier:
            for op in ops:
                o2, s2 = step(objs, st, hist, op)
                k = key_of(s2)
                if k not in seen:
                    seen.add(k)
                    if level < depth:
                        nxt.append((o2, s2, hist + [op]))
        frontier = nxt
    out.states = len(seen)
    out.count("reuse_states", len(seen))
    out.outcome = "ok" if not out.fails else "fail"
    out.digest = A.digest(*digs) if digs else ""
    return out
