"""C17 families: selftest, named bases, generate_composite_system, legacy named constructors, testers,
depolarized catalogue objects, names outside the catalogues."""
import itertools
import math

import numpy as np

from mc import alphabet as A, refmodel as R
from mc.core import HarnessError, Out, inner
from mc.props import _c17_ref as T
from mc.props import _c17_gate as GT
from mc.props._c17_util import (DIMS, TOL, Chk, choi_of_hs, coeffs_fast, dist, hs_of_commutator_fast, hs_of_kraus_fast,
                                list_dist, mat_from_coeffs_fast, ref_channel_verdict, ref_povm_verdict, ref_state_verdict,
                                sysinfo, tp_defect_of_choi, vec_proportional)


# ---------------------------------------------------------------------------------------------- selftest

def ex_selftest(p, seed):
    """harness-side sanity: reference tables, fast helpers against mc.refmodel, negative controls for the verdicts."""
    out = Out()
    msgs = list(T.selfcheck()) + list(R.selftest())
    for tag in ("Q1", "Q3", "D2,2"):
        c, B, Bmat, d = sysinfo(tag)
        ks = A.gates_ref(d, seed)["kraus_generic_r2"]
        hs_slow = R.hs_from_kraus(ks, B)
        hs_fast = hs_of_kraus_fast(ks, Bmat)
        if dist(hs_slow, hs_fast) > 1e-12:
            msgs.append("hs_of_kraus_fast differs from refmodel on %s" % tag)
        Cslow = R.choi_from_action(lambda X: R.kraus_apply(ks, X), d)
        if dist(Cslow, choi_of_hs(hs_fast, Bmat, d)) > 1e-12:
            msgs.append("choi_of_hs differs from refmodel on %s" % tag)
        if abs(tp_defect_of_choi(Cslow, d) - R.tp_defect(lambda X: R.kraus_apply(ks, X), d)) > 1e-12:
            msgs.append("tp defect differs on %s" % tag)
        X = R.generic_matrix(d, seed, salt=5)
        if dist(coeffs_fast(X, Bmat), R.coeffs(X, B)) > 1e-12 or dist(mat_from_coeffs_fast(coeffs_fast(X, Bmat), Bmat, d), X) > 1e-12:
            msgs.append("coeffs_fast differs on %s" % tag)
        H = R.hermitian_from([0.3, -0.7] + [0.2] * (d - 2), R.generic_unitary(d, seed))
        Lslow = R.hs_from_action(R.gksl_action(H, []), B)
        if dist(Lslow, hs_of_commutator_fast(H, Bmat)) > 1e-12:
            msgs.append("hs_of_commutator_fast differs on %s" % tag)
        # negative controls: the verdict functions can say False
        Tmap = hs_of_kraus_fast([np.eye(d)], Bmat)
        tr = Bmat.conj() @ np.eye(d * d).reshape(d, d, d, d).transpose(1, 0, 2, 3).reshape(d * d, d * d) @ Bmat.T  # transpose map
        cp, tp, _, _ = ref_channel_verdict(tr, Bmat, d)
        if cp or not tp:
            msgs.append("transpose map verdict wrong on %s" % tag)
        cp, tp, _, _ = ref_channel_verdict(0.5 * Tmap, Bmat, d)
        if not cp or tp:
            msgs.append("half identity verdict wrong on %s" % tag)
        out.count("ref_verdict_false", 2)
        bad = np.diag([1.2] + [-0.2 / (d - 1)] * (d - 1)).astype(complex)
        if ref_state_verdict(bad) or not ref_state_verdict(np.eye(d) / d):
            msgs.append("state verdict wrong")
        if ref_povm_verdict([np.eye(d) * 1.5, -0.5 * np.eye(d)]) or ref_povm_verdict([np.eye(d) * 0.4, 0.5 * np.eye(d)]):
            msgs.append("povm verdict wrong")
        out.count("ref_verdict_false", 3)
    # the hand-written curated facts agree with the formula tables
    for g, gi, s_in, s_out in GT.CURATED:
        U, _ = T.gate_unitary(g, gi)
        if vec_proportional(U @ T.state_vector(s_in)[0], T.state_vector(s_out)[0]) > 1e-12:
            msgs.append("curated fact %s %r %s->%s contradicts the reference tables" % (g, gi, s_in, s_out))
    if msgs:
        raise HarnessError("C17 selftest: " + "; ".join(msgs))
    out.count("selftest_ok")
    out.outcome = "ok"
    return out


# ---------------------------------------------------------------------------------------------- named bases

BASES = [("comp", {"dim": d, "mode": m}) for d in (2, 3, 4) for m in ("row_major", "column_major")] + \
        [("pauli", {"n_qubit": n}) for n in (1, 2, 3)] + [("normalized_pauli", {"n_qubit": n}) for n in (1, 2, 3)] + \
        [("hermitian", {"dim": d}) for d in (2, 3, 4)] + [("normalized_hermitian", {"dim": d}) for d in (2, 3, 4)] + \
        [("gell_mann", {}), ("normalized_gell_mann", {})] + \
        [("generalized_gell_mann", {"n_qubit": n, "dim": d}) for n, d in ((1, 2), (1, 3), (1, 4), (2, 2), (2, 3))] + \
        [("normalized_generalized_gell_mann", {"n_qubit": n, "dim": d}) for n, d in ((1, 2), (1, 3), (1, 4), (2, 2), (2, 3))]


def ref_basis(fn, kw):
    if fn == "comp":
        return T.comp_basis(kw["dim"], kw["mode"] == "column_major")
    if fn in ("pauli", "normalized_pauli"):
        return T.pauli_basis(kw["n_qubit"], fn.startswith("normalized"))
    if fn in ("hermitian", "normalized_hermitian"):
        return T.hermitian_basis(kw["dim"], fn.startswith("normalized"))
    if fn in ("gell_mann", "normalized_gell_mann"):
        return T.gell_mann(fn.startswith("normalized"))
    return T.generalized_gell_mann(kw["n_qubit"], kw["dim"], fn.startswith("normalized"))


def ex_bases(p, seed):
    from quara.objects import matrix_basis as mb
    out = Out()
    fn, kw = p["fn"], p["kw"]
    lab = "matrix_basis:get_%s_basis:%s" % (fn, ",".join("%s=%s" % kv for kv in sorted(kw.items())) or "default")
    k = Chk(out, lab)
    ok, b = k.must("call", getattr(mb, "get_%s_basis" % fn), **kw)
    if not ok:
        out.outcome = "fail"
        return out
    ref = ref_basis(fn, kw)
    got = R.basis_mats(b)
    k.close("elements-vs-textbook", got, ref, listy=True)
    # the flags the library reports against the reference verdicts
    Bm = np.array([x.reshape(-1) for x in ref])
    G = Bm.conj() @ Bm.T
    d = ref[0].shape[0]
    want = {
        "is_orthogonal": bool(np.abs(G - np.diag(np.diag(G))).max() <= 1e-12),
        "is_normal": bool(np.abs(np.diag(G) - 1).max() <= 1e-12),
        "is_hermitian": all(np.abs(x - x.conj().T).max() <= 1e-12 for x in ref),
        "is_0thpropI": bool(np.abs(ref[0] - ref[0][0, 0] * np.eye(d)).max() <= 1e-12 and abs(ref[0][0, 0]) > 1e-12),
        "is_trace_less": all(abs(np.trace(x)) <= 1e-12 for x in ref[1:]),
    }
    for flag, w in want.items():
        okf, g = k.must(flag, getattr(b, flag))
        if okf:
            out.count("basis_flag_%s" % ("true" if w else "false"))
            if flag == "is_trace_less":
                # not part of the property (the library compares float traces with `!= 0`); recorded only
                if bool(g) != w:
                    out.count("note_is_trace_less_flag_differs")
                continue
            k.true("%s-vs-reference" % flag, bool(g) == w, "%s() = %r, reference %r" % (flag, g, w))
    k.true("dim", b.dim == d and len(b) == len(ref))
    if fn.startswith("normalized") and fn != "normalized_hermitian":
        k.true("named-normalized-is-orthonormal-identity-first", want["is_orthogonal"] and want["is_normal"] and want["is_0thpropI"])
    out.outcome = "ok" if not out.fails else "fail"
    out.digest = A.digest(*got)
    return out


# ---------------------------------------------------------------------------------------------- generate_composite_system

def ex_csys(p, seed):
    from quara.objects.composite_system_typical import generate_composite_system
    out = Out()
    mode, num, ids, sparse = p["mode"], p["num"], p["ids"], p["sparse"]
    lab = "composite_system_typical:%s:%d:%s:%s" % (mode, num, "ids=" + "".join(map(str, T.ranks(ids))) if ids else "default-ids",
                                                  "sparse" if sparse else "dense")
    k = Chk(out, lab)
    ok, c = k.must("call", generate_composite_system, mode, num, ids_esys=list(ids) if ids else None, is_sparse=sparse)
    if not ok:
        out.outcome = "fail"
        return out
    d1 = 2 if mode == "qubit" else 3
    one = T.pauli_basis(1, True) if mode == "qubit" else T.gell_mann(True)
    ref = [T.kron_all(list(t)) for t in itertools.product(one, repeat=num)]
    k.true("dim", c.dim == d1 ** num and c.num_e_sys == num and all(c.dim_e_sys(i) == d1 for i in range(num)))
    names = [e.name for e in c.elemental_systems]
    k.true("names-ascending", names == sorted(ids if ids else range(num)), "elemental system names %r" % (names,))
    k.close("basis-vs-textbook", R.basis_mats(c), ref, listy=True)
    okf, flag = k.must("is_orthonormal_hermitian_0thprop_identity", lambda: c.is_orthonormal_hermitian_0thprop_identity)
    if okf:
        k.true("orthonormal-flag", bool(flag))
    out.count("csys_generated")
    out.outcome = "ok" if not out.fails else "fail"
    return out


# ---------------------------------------------------------------------------------------------- legacy named constructors

def ex_legacy(p, seed):
    from quara.objects import gate as qg, state as qs, povm as qp, state_typical as st
    out = Out()
    what, btag = p["what"], p["basis"]
    c1 = A.make_system(btag)
    B = R.basis_mats(c1)
    Bmat = np.array([b.reshape(-1) for b in B])
    d = B[0].shape[0]
    n = 0
    if what == "gate1":
        for fn, gname in sorted(T.LEGACY_GATES.items()) + [("get_i", "identity")]:
            k = Chk(out, "gate:%s:%s" % (fn, btag))
            ok, G = k.must("call", getattr(qg, fn), c1)
            n += 1
            if ok:
                U = np.eye(2) if gname == "identity" else T.GATES_1Q[gname]
                k.close("hs-vs-textbook", G.hs, hs_of_kraus_fast([U], Bmat))
                cp, tp, _, _ = ref_channel_verdict(np.asarray(G.hs), Bmat, d)
                k.true("reference-physical", cp and tp)
                out.count("legacy_generated")
        for fn in sorted(T.LEGACY_GATES):  # wrong system size must raise
            for wtag in ("D2,2", "Q3"):
                ok, val = A.call(getattr(qg, fn), A.make_system(wtag))
                out.ops += 1
                n += 1
                if ok:
                    out.fail("gate:%s:wrong-system-accepted:%s" % (fn, wtag), "1-qubit constructor yielded an object on %s" % wtag)
                else:
                    out.count("outside_raised")
    elif what == "gate2":
        names = p["names"]
        c2 = A.make_system("D2,2", names)
        B2 = R.basis_mats(c2)
        Bm2 = np.array([b.reshape(-1) for b in B2])
        for ci, e in enumerate(c2.elemental_systems):
            k = Chk(out, "gate:get_cnot:control-position=%d" % ci)
            ok, G = k.must("call", qg.get_cnot, c2, e)
            n += 1
            if ok:
                ids = [names_sorted(names)[ci], names_sorted(names)[1 - ci]]
                U, _ = T.gate_unitary("cx", ids)
                k.close("hs-vs-textbook", G.hs, hs_of_kraus_fast([U], Bm2))
                out.count("legacy_generated")
        for fn, gname in (("get_cz", "cz"), ("get_swap", "swap"), ("get_i", "identity")):
            k = Chk(out, "gate:%s" % fn)
            ok, G = k.must("call", getattr(qg, fn), c2)
            n += 1
            if ok:
                U = np.eye(4) if gname == "identity" else T.gate_unitary(gname, [0, 1])[0]
                k.close("hs-vs-textbook", G.hs, hs_of_kraus_fast([U], Bm2))
                out.count("legacy_generated")
        for fn in ("get_cz", "get_swap"):
            for wtag in ("Q1", "D2,2,2", "D3,3"):
                ok, val = A.call(getattr(qg, fn), A.make_system(wtag))
                out.ops += 1
                n += 1
                if ok:
                    out.fail("gate:%s:wrong-system-accepted:%s" % (fn, wtag), "2-qubit constructor yielded an object on %s" % wtag)
                else:
                    out.count("outside_raised")
    elif what == "state":
        for mod, modname in ((qs, "state"), (st, "state_typical")):
            for nm in ("x0", "x1", "y0", "y1", "z0", "z1") + (("a",) if mod is st else ()):
                fn = ("get_%s_1q" if mod is qs else "get_state_%s_1q") % nm
                k = Chk(out, "%s:%s:%s" % (modname, fn, btag))
                ok, S = k.must("call", getattr(mod, fn), c1)
                n += 1
                if ok:
                    k.close("vec-vs-textbook", S.vec, coeffs_fast(T.proj(T.Q1_STATES[nm]), Bmat))
                    out.count("legacy_generated")
                ok, val = A.call(getattr(mod, fn), A.make_system("D2,2"))
                out.ops += 1
                if ok:
                    out.fail("%s:%s:wrong-system-accepted" % (modname, fn), "1-qubit constructor yielded an object on 2 qubits")
                else:
                    out.count("outside_raised")
            c2 = A.make_system("D2,2")
            Bm2 = np.array([b.reshape(-1) for b in R.basis_mats(c2)])
            fn = "get_bell_2q" if mod is qs else "get_state_bell_2q"
            k = Chk(out, "%s:%s" % (modname, fn))
            ok, S = k.must("call", getattr(mod, fn), c2)
            n += 1
            if ok:
                k.close("vec-vs-textbook", S.vec, coeffs_fast(T.proj(T.BELL["bell_phi_plus"]), Bm2))
                out.count("legacy_generated")
            ok, val = A.call(getattr(mod, fn), c1)
            out.ops += 1
            if ok:
                out.fail("%s:%s:wrong-system-accepted" % (modname, fn), "2-qubit constructor yielded an object on 1 qubit")
            else:
                out.count("outside_raised")
    elif what == "povm":
        for ax in "xyz":
            fn = "get_%s_povm" % ax
            k = Chk(out, "povm:%s:%s" % (fn, btag))
            ok, P = k.must("call", getattr(qp, fn), c1)
            n += 1
            if ok:
                k.close("vecs-vs-textbook", list(P.vecs), [coeffs_fast(M, Bmat) for M in T.povm_matrices(ax)[0]], listy=True)
                out.count("legacy_generated")
            ok, val = A.call(getattr(qp, fn), A.make_system("D2,2"))
            out.ops += 1
            if ok:
                out.fail("povm:%s:wrong-system-accepted" % fn, "1-qubit constructor yielded an object on 2 qubits")
            else:
                out.count("outside_raised")
        c2 = A.make_system("D2,2")
        Bm2 = np.array([b.reshape(-1) for b in R.basis_mats(c2)])
        for a, b in itertools.product("xyz", repeat=2):
            fn = "get_%s%s_povm" % (a, b)
            k = Chk(out, "povm:%s" % fn)
            ok, P = k.must("call", getattr(qp, fn), c2)
            n += 1
            if ok:
                k.close("vecs-vs-textbook", list(P.vecs), [coeffs_fast(M, Bm2) for M in T.povm_matrices(a + "_" + b)[0]], listy=True)
                out.count("legacy_generated")
            ok, val = A.call(getattr(qp, fn), c1)
            out.ops += 1
            if ok:
                out.fail("povm:%s:wrong-system-accepted" % fn, "2-qubit constructor yielded an object on 1 qubit")
            else:
                out.count("outside_raised")
    elif what == "param":
        th = R.angles(seed, 3, salt=1)
        for t in [0.0, math.pi / 2, math.pi] + th:
            k = Chk(out, "gate:get_x_rotation")
            ok, G = k.must("call", qg.get_x_rotation, t, c1)
            n += 1
            if ok:
                # documented nowhere: the HS matrix rotates (Y,Z) by theta, i.e. exp(-i theta/2 X)
                k.close("hs-vs-textbook", G.hs, hs_of_kraus_fast([T.rot2(T.PX, t)], Bmat))
        for pp in (0.0, 0.25, 0.75, 1.0):
            for tag in ("Q1", "D2,2", "Q3"):
                cc, BB, BBm, dd = sysinfo(tag)
                k = Chk(out, "gate:get_depolarizing_channel:%s" % tag)
                ok, G = k.must("call", qg.get_depolarizing_channel, pp, cc)
                n += 1
                if ok:
                    S = (1 - pp) * np.eye(dd * dd) + pp / dd * np.outer(np.eye(dd).reshape(-1), np.eye(dd).reshape(-1))
                    k.close("hs-vs-textbook", G.hs, BBm.conj() @ S @ BBm.T)
        for g in (0.0, 0.375, 1.0):
            k = Chk(out, "gate:get_amplitutde_damping_channel")
            ok, G = k.must("call", qg.get_amplitutde_damping_channel, g, c1)
            n += 1
            if ok:
                K0 = np.diag([1, math.sqrt(1 - g)]).astype(complex)
                K1 = np.array([[0, math.sqrt(g)], [0, 0]], dtype=complex)
                k.close("hs-vs-textbook", G.hs, hs_of_kraus_fast([K0, K1], Bmat))
        for bad in (-0.1, 1.5):
            ok, val = A.call(qg.get_depolarizing_channel, bad, c1)
            out.ops += 1
            if ok:
                out.fail("gate:get_depolarizing_channel:p-out-of-range-accepted", "p=%r" % bad)
    inner(out, max(n - 1, 0))
    out.outcome = "ok" if not out.fails else "fail"
    return out


def names_sorted(names):
    return sorted(names)


# ---------------------------------------------------------------------------------------------- testers / depolarized

def ex_tester(p, seed):
    from quara.objects import tester_typical as tt, state_typical as st, povm_typical as pt
    out = Out()
    kind, tag = p["kind"], p["sys"]
    c, B, Bmat, d = sysinfo(tag)
    num = len(DIMS[tag])
    qubit = DIMS[tag][0] == 2
    if kind == "states":
        names = st.get_state_names_1qubit() if qubit else st.get_state_names_1qutrit()
    else:
        names = pt.get_povm_names_1qubit() if qubit else pt.get_povm_names_1qutrit()
    k = Chk(out, "tester_typical:%s:%s" % (kind, tag))
    fn = tt.generate_tester_states if kind == "states" else tt.generate_tester_povms
    ok, objs = k.must("call", fn, c, list(names))
    if not ok:
        out.outcome = "fail"
        return out
    combos = list(itertools.product(names, repeat=num))
    k.true("count", len(objs) == len(combos), "%d objects for %d name tuples" % (len(objs), len(combos)))
    n = 0
    for combo, obj in zip(combos, objs):
        n += 1
        out.traces += 1
        if kind == "states":
            vref = T.kron_all([T.state_vector(x)[0] for x in combo])
            if dist(obj.vec, coeffs_fast(T.proj(vref), Bmat)) > TOL:
                out.fail("tester_typical:states:%s:%s" % (tag, "_".join(combo)), "tester state differs from the product of the named states")
        else:
            mref = T.povm_matrices("_".join(combo))[0]
            if list_dist(list(obj.vecs), [coeffs_fast(M, Bmat) for M in mref]) > TOL:
                out.fail("tester_typical:povms:%s:%s" % (tag, "_".join(combo)), "tester POVM differs from the product of the named POVMs")
    # depolarized variants: (1-p) rho + p I/d ; POVM elements (1-p) M + p tr(M)/d I
    pr = 0.25
    fnd = tt.generate_tester_states_depolarized if kind == "states" else tt.generate_tester_povms_depolarized
    ok, objs = k.must("depolarized-call", fnd, c, list(names), pr)
    if ok:
        for combo, obj in zip(combos, objs):
            n += 1
            out.traces += 1
            if kind == "states":
                rho = T.proj(T.kron_all([T.state_vector(x)[0] for x in combo]))
                want = coeffs_fast((1 - pr) * rho + pr * np.eye(d) / d, Bmat)
                bad = dist(obj.vec, want) > TOL
            else:
                mref = T.povm_matrices("_".join(combo))[0]
                want = [coeffs_fast((1 - pr) * M + pr * np.trace(M) / d * np.eye(d), Bmat) for M in mref]
                bad = list_dist(list(obj.vecs), want) > TOL
            if bad:
                out.fail("tester_typical:%s-depolarized:%s:%s" % (kind, tag, "_".join(combo)), "depolarized tester object differs from the reference")
    out.count("tester_objects", n)
    inner(out, n)
    out.outcome = "ok" if not out.fails else "fail"
    return out


def ex_depolarized(p, seed):
    """qoperation_typical.generate_qoperation_depolarized on every 1-qubit / 1-qutrit catalogue name"""
    from quara.objects import qoperation_typical as qt
    out = Out()
    mode, tag, pr = p["mode"], p["sys"], 0.25
    c, B, Bmat, d = sysinfo(tag)
    Sdep = (1 - pr) * np.eye(d * d) + pr / d * np.outer(np.eye(d).reshape(-1), np.eye(d).reshape(-1))
    Dhs = Bmat.conj() @ Sdep @ Bmat.T
    n = 0
    for name in p["names"]:
        k = Chk(out, "qoperation_typical:depolarized:%s:%s" % (mode, name))
        ok, obj = k.must("call", qt.generate_qoperation_depolarized, mode, name, c, pr)
        n += 1
        if not ok:
            continue
        if mode == "state":
            rho = T.proj(T.state_vector(name)[0])
            k.close("vs-reference", obj.vec, coeffs_fast((1 - pr) * rho + pr * np.eye(d) / d, Bmat))
        elif mode == "povm":
            k.close("vs-reference", list(obj.vecs),
                    [coeffs_fast((1 - pr) * M + pr * np.trace(M) / d * np.eye(d), Bmat) for M in T.povm_matrices(name)[0]], listy=True)
        elif mode == "gate":
            k.close("vs-reference", obj.hs, Dhs @ hs_of_kraus_fast([T.gate_unitary(name)[0]], Bmat))
        else:
            k.close("vs-reference", list(obj.hss), [Dhs @ hs_of_kraus_fast(ks, Bmat) for ks in T.mprocess_kraus(name)[0]], listy=True)
    out.count("depolarized_objects", n)
    inner(out, max(n - 1, 0))
    out.outcome = "ok" if not out.fails else "fail"
    return out
