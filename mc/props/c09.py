"""C09 Linear estimation inverts the forward model exactly.

E1 over the C08 tomography configurations (complete / over-complete testers; all configurations for the rank guard).
The estimator is affine in the data vector f, so it is fed the complete affine basis {0, e_1 .. e_R} of data space
(which contains non-normalised / adversarial data) and judged by the normal equations of the REFERENCE forward model
(Born rule in time order, mc/props/_c08_common.py); plus exact distributions of every alphabet object (exact recovery),
all orders of dataset lists (sequence == individual), sample counts, all few-shot count tables, the rank guard, and
the library's own consistency check.
"""
import itertools

import os

import numpy as np

from mc import alphabet as A, refmodel as R
from mc.core import Out, inner
from mc.props import _c08_common as K

ID = "C09"
RULE = ("one element = (tomography configuration [type, flag, system, unknown outcome count, tester set], schedule list, "
        "data vector); data vectors: 0 and every unit vector of data space (affine basis), exact Born distributions of "
        "every alphabet object (interior, boundary, pure), every few-shot count table up to the bound; dataset lists: all "
        "orders of 3 datasets, repetitions; sample counts 1, 10, 10^6 and mixed; non-trivial = data vector not all zero; "
        "distinct = distinct (configuration, list, data vector / dataset list)")
ASSUMPTIONS = ["the forward model in the normal equations is the reference Born-rule model (not the library's matrices)",
               "tester pools, systems and parametrisation as in C08",
               "few-shot tables for qpt use N=1; for qmpt N=1 with the schedules after the fifth fixed to their first outcome",
               "an incomplete tester set counts as rejected when calc_estimate raises any exception"]
BOUNDS = {"quick": "Q1, Q3 configurations of C08; unit data vectors fed individually when <= 160 rows and always through one "
                   "calc_estimate_sequence call; few-shot N<=3 (qst, povmt Q1), N<=2 (qst Q3, povmt m=3), N=1 (qpt, qmpt); weak_tester: 1-qubit qst, one weak axis "
                   "eps in {1e-3, 2e-5, 4e-6, 2e-6} x 3 axes x both flags x 10 true states (cond(A) up to 5e5)",
          "thorough": "adds Q2 configurations, individual unit vectors up to 700 rows"}
EXHAUSTIVE = {"quick": True, "thorough": True}
CASE_TIMEOUT = 3600
CHUNK = 1
TOL_SAME = 1e-12
WEAK_EPS = (1e-3, 2e-5, 4e-6, 2e-6)      # strength of the weak measurement axis: cond(A) about 1/eps


def families(tier, seed):
    comp = K.config_list(tier, only_complete=True)
    allc = K.config_list(tier)
    fams = [
        ("affine_data", [{"cfg": c, "tier": tier} for c in comp]),
        ("exact_recovery", [{"cfg": c} for c in comp]),
        ("sequence_and_counts", [{"cfg": c} for c in comp]),
        ("fewshot", fewshot_cases()),
        ("rank_guard", [{"cfg": c} for c in allc]),
        ("estimator_reuse", [{"cfg": c} for c in comp]),
        ("weak_tester", [{"eps": e, "flag": fl, "axis": ax} for e in WEAK_EPS for fl in (False, True) for ax in (0, 1, 2)]),
    ]
    return fams


def fewshot_cases():
    out = []
    for flag in (False, True):
        def cfg(tomo, sys, m, ss, ps):
            return {"tomo": tomo, "flag": flag, "sys": sys, "m": m, "sset": ss, "pset": ps}
        for N in (1, 2, 3):
            out.append({"cfg": cfg("qst", "Q1", None, None, "equal_complete"), "N": N, "vary": 99})
            out.append({"cfg": cfg("qst", "Q1", None, None, "mixed_complete"), "N": N, "vary": 99})
            out.append({"cfg": cfg("povmt", "Q1", 2, "complete", None), "N": N, "vary": 99})
        for N in (1, 2):
            out.append({"cfg": cfg("qst", "Q3", None, None, "equal_complete"), "N": N, "vary": 99})
            out.append({"cfg": cfg("povmt", "Q1", 3, "complete", None), "N": N, "vary": 99})
        out.append({"cfg": cfg("qpt", "Q1", None, "complete", "equal_complete"), "N": 1, "vary": 99})
        out.append({"cfg": cfg("qmpt", "Q1", 2, "complete", "equal_complete"), "N": 1, "vary": 5})
    return out


def guards(summary):
    g = []
    info = summary["info"]
    need = ["unit_vectors_fed", "zero_vector_fed", "normal_equations_ok", "exact_recovered", "recovered_pure",
            "recovered_boundary", "recovered_interior", "sequence_orders_ok", "counts_variants_ok", "fewshot_tables",
            "fewshot_with_empty_outcome", "reused_same_shape_other_model", "dense_nonnormalised_fed", "guard_raised", "guard_passed", "consistency_check_ok", "overcomplete_configs",
            "just_complete_configs", "flag_true", "flag_false", "qoperation_checked", "equal_count_configs",
            "weak_tester_recovered", "weak_tester_cond_above_1e5"]
    for t in K.TOMOS:
        need.append("tomo_" + t)
    for k in need:
        if info.get(k, 0) < 1:
            g.append("never seen: " + k)
    return g


def execute(family, params, seed):
    if family == "weak_tester":
        return ex_weak(params)
    cx = K.ctx(params["cfg"], seed)
    out = Out()
    seen = {}
    out.count("tomo_" + cx.tomo)
    out.count("flag_true" if cx.flag else "flag_false")
    fn = {"affine_data": ex_affine, "exact_recovery": ex_exact, "sequence_and_counts": ex_sequence,
          "fewshot": ex_fewshot, "rank_guard": ex_guard, "estimator_reuse": ex_reuse}[family]
    fn(out, seen, cx, params)
    out.outcome = "ok" if not out.fails else "fail:" + ",".join(sorted(seen))[:120]
    return out


# ------------------------------------------------------------------------------------------- helpers

def estimator():
    from quara.protocol.qtomography.standard.linear_estimator import LinearEstimator
    return LinearEstimator()


def split(cx, pairs, f, n=1):
    """data vector -> list of (sample count, per-schedule array) in schedule order"""
    parts, pos = [], 0
    ns = n if isinstance(n, (list, tuple)) else [n] * len(pairs)
    for p, nn in zip(pairs, ns):
        k = cx.n_out(p)
        parts.append((nn, np.array(f[pos:pos + k], dtype=np.float64)))
        pos += k
    assert pos == len(f)
    return parts


def mixed_counts(cx, pairs):
    return len({cx.n_out(p) for p in pairs}) > 1


def cls_of(cx, pairs):
    return "unequal-outcome-counts:" if mixed_counts(cx, pairs) else ""


def model(cx, pairs):
    Aref, bref = cx.ref_model(pairs)
    s = np.linalg.svd(Aref, compute_uv=False)
    cond = s[0] / s[-1] if s[-1] > 0 else float("inf")
    if cond > 1e5:
        raise AssertionError("harness: complete tester set too ill-conditioned for a meaningful comparison (cond %.3g): %s" % (
            cond, K.cfg_tag(cx.cfg)))
    if os.environ.get("C09_CONDLOG"):
        with open(os.environ["C09_CONDLOG"], "a") as fh:
            fh.write("%.4g %s\n" % (cond, K.cfg_tag(cx.cfg)))
    return Aref, bref, cond


def tol_for(cond):
    """the estimator forms (A^T A)^-1 explicitly: rounding errors grow like eps * cond(A)^2; 1e-13 * cond^2 keeps a
    margin of 450 eps cond^2. (A tolerance of 45 eps cond^2 was tried after a seeded ridge term of 1e-12 had been missed; it
    raised a false alarm on the unchanged tree - 133 eps cond^2 observed at VERIF_SEED=3 for a reversed Lueders instrument -
    and was withdrawn: a ridge of that size is not distinguishable from the rounding of the explicit normal equations.)
    Never below 1e-9; the counters ratio_* record how much of the allowance is used."""
    return 1e-9 * max(1.0, cond * cond / 1e4)


def normal_eq_residual(M, b, v, f):
    scale = max(1.0, float(np.abs(v).max()))
    return float(np.abs(M.T @ (M @ v - (f - b))).max()) / scale


def check_normal(out, seen, cx, qt, Aref, bref, cond, v, f, where, what):
    """normal equations of the reference forward model for estimate v of data f"""
    tag = "%s:flag=%s" % (cx.tomo, cx.flag)
    v = np.asarray(v, dtype=float)
    if v.shape != (Aref.shape[1],):
        K.fail_once(out, seen, "estimated_var:shape:%s" % tag, "%s %s: shape %r, %d variables" % (where, what, v.shape, Aref.shape[1]))
        return False
    res = normal_eq_residual(Aref, bref, v, f)
    if cond * cond > 1e4:
        for thr in (0.03, 0.1, 0.3):
            if res > thr * tol_for(cond):
                out.count("ratio_normal_eq_gt_%g" % thr)
        out.count("normal_eq_ill_conditioned_checked")
    if not np.all(np.isfinite(v)):
        K.fail_once(out, seen, "estimated_var:not-finite:%s" % tag, "%s %s: estimate %r" % (where, what, v))
        return False
    if not (res <= tol_for(cond)):
        # does the estimate at least solve the normal equations of the library's own matrices?
        okA, matA = A.call(qt.calc_matA)
        okB, vecB = A.call(qt.calc_vecB)
        own = None
        if okA and okB and np.shape(matA) == Aref.shape:
            own = normal_eq_residual(np.asarray(matA, float), np.asarray(vecB, float), v, f)
        kind = "forward-model-mismatch" if own is not None and own <= tol_for(cond) else "not-least-squares"
        K.fail_once(out, seen, "estimated_var:normal-equations:%s:%s" % (kind, tag),
                    "%s %s: |A^T(Av-(f-b))| = %.3g (own matrices: %s), cond %.3g" % (where, what, res, own, cond))
        return False
    out.count("normal_equations_ok")
    return True


def est_call(out, seen, cx, qt, pairs, datasets, where, sequence=False):
    """run the estimator on one dataset (calc_estimate) or a list (calc_estimate_sequence); returns result or None"""
    est = estimator()
    arrays = [d[1] for ds in (datasets if sequence else [datasets]) for d in ds]
    snap = [a.copy() for a in arrays]
    if sequence:
        ok, r = A.call(est.calc_estimate_sequence, qt, datasets)
    else:
        ok, r = A.call(est.calc_estimate, qt, datasets)
    out.ops += 1
    out.count("data_snapshots_compared")
    if any(not np.array_equal(a, b) for a, b in zip(arrays, snap)):
        K.fail_once(out, seen, "calc_estimate%s:modifies-the-callers-data:%s" % ("_sequence" if sequence else "", cx.tomo),
                    "%s: an empirical-distribution array handed to the estimator was changed in place" % where)
        for a, b in zip(arrays, snap):
            a[...] = b
    if not ok:
        K.fail_once(out, seen, "calc_estimate%s:%sraises:%s" % ("_sequence" if sequence else "", cls_of(cx, pairs), cx.tomo),
                    "%s: %s" % (where, A.fmt_exc(r)))
        return None
    return r


def check_qoperation(out, seen, cx, obj, v, where):
    """the returned object is the one described by the variables"""
    tag = "%s:flag=%s" % (cx.tomo, cx.flag)
    ok, st = A.call(cx.F.stacked, obj)
    want = cx.F.stacked_from_var(np.asarray(v, float), cx.flag)
    out.count("qoperation_checked")
    if not ok or st.shape != want.shape or np.abs(st - want).max() > TOL_SAME * max(1.0, np.abs(want).max()):
        K.fail_once(out, seen, "estimated_qoperation:differs-from-estimated_var:%s" % tag, "%s: %s" % (
            where, A.fmt_exc(st) if not ok else "max deviation %.3g" % (np.abs(st - want).max() if st.shape == want.shape else -1)))
        return False
    return True


def lists_for(cx):
    """schedule lists that keep the tester set complete: all; for over-complete sets also variants"""
    S = len(cx.all)
    lists = [("all", "all"), ("reversed_all", list(range(S - 1, -1, -1)))]
    if cx.cfg["sset"] == "over" or (cx.cfg["pset"] or "").startswith("over"):
        lists.append(("all_twice", list(range(S)) + list(range(S))))
    return lists


def pairs_of(cx, idx):
    return cx.all if isinstance(idx, str) else [cx.all[k] for k in idx]


def make_qt(out, seen, cx, idx, where):
    ok, qt = A.call(cx.make, "all" if isinstance(idx, str) else pairs_of(cx, idx))
    if not ok:
        K.fail_once(out, seen, "constructor:raises:%s" % cx.tomo, "%s: %s" % (where, A.fmt_exc(qt)))
        return None
    return qt


def count_cfg(out, cx):
    over = cx.cfg["sset"] == "over" or (cx.cfg["pset"] or "").startswith("over")
    out.count("overcomplete_configs" if over else "just_complete_configs")
    if not mixed_counts(cx, cx.all):
        out.count("equal_count_configs")


# ------------------------------------------------------------------------------------------- families

def ex_affine(out, seen, cx, params):
    """every unit data vector and 0: normal equations of the reference model"""
    count_cfg(out, cx)
    limit = 160 if params.get("tier", "quick") == "quick" else 700
    n_el = 0
    digs = []
    for name, idx in lists_for(cx):
        where = "%s list=%s" % (K.cfg_tag(cx.cfg), name)
        pairs = pairs_of(cx, idx)
        qt = make_qt(out, seen, cx, idx, where)
        if qt is None:
            continue
        Aref, bref, cond = model(cx, pairs)
        rows = Aref.shape[0]
        data = np.vstack([np.zeros((1, rows)), np.eye(rows)])
        n_el += len(data)
        # all basis vectors through one sequence call
        r = est_call(out, seen, cx, qt, pairs, [split(cx, pairs, f) for f in data], where, sequence=True)
        if r is not None:
            vs = r.estimated_var_sequence
            if len(vs) != len(data):
                K.fail_once(out, seen, "estimated_var_sequence:length:%s" % cx.tomo, "%s: %d for %d datasets" % (where, len(vs), len(data)))
            else:
                for k, (v, f) in enumerate(zip(vs, data)):
                    out.traces += 1
                    out.count("zero_vector_fed" if k == 0 else "unit_vectors_fed")
                    check_normal(out, seen, cx, qt, Aref, bref, cond, v, f, where, "data=e_%d (sequence)" % (k - 1))
                if name == "all":
                    digs.append(np.array(vs))
                # spot the objects of 0, e_0 and the last unit vector
                ok, objs = A.call(lambda: r.estimated_qoperation_sequence)
                out.ops += 1
                if not ok or len(objs) != len(vs):
                    K.fail_once(out, seen, "estimated_qoperation_sequence:raises-or-length:%s" % cx.tomo, "%s: %s" % (
                        where, A.fmt_exc(objs) if not ok else len(objs)))
                else:
                    for k in range(len(vs)):
                        check_qoperation(out, seen, cx, objs[k], vs[k], "%s data=e_%d" % (where, k - 1))
        # adversarial NON-normalised dense data (every schedule sums to something else than 1), both entry points
        dense = [0.3 * np.ones(rows) + np.eye(rows)[k % rows] * (1.0 + 0.5 * k) for k in (0, rows // 2, rows - 1)] + [2.0 * np.ones(rows)]
        rs = est_call(out, seen, cx, qt, pairs, [split(cx, pairs, f) for f in dense], where, sequence=True)
        for k, f in enumerate(dense):
            r1 = est_call(out, seen, cx, qt, pairs, split(cx, pairs, f), where)
            n_el += 1
            if r1 is None:
                break
            out.traces += 1
            out.count("dense_nonnormalised_fed")
            if check_normal(out, seen, cx, qt, Aref, bref, cond, r1.estimated_var, f, where, "data=dense-nonnormalised-%d" % k) and rs is not None:
                if np.abs(np.asarray(rs.estimated_var_sequence[k], float) - np.asarray(r1.estimated_var, float)).max() > 1e-9 * max(1.0, np.abs(np.asarray(r1.estimated_var)).max()):
                    K.fail_once(out, seen, "calc_estimate:differs-from-calc_estimate_sequence:%s" % cx.tomo, "%s data=dense-nonnormalised-%d" % (where, k))
        if rows <= limit:
            for k, f in enumerate(data):
                r1 = est_call(out, seen, cx, qt, pairs, split(cx, pairs, f), where)
                if r1 is None:
                    break
                out.traces += 1
                out.count("zero_vector_fed" if k == 0 else "unit_vectors_fed")
                check_normal(out, seen, cx, qt, Aref, bref, cond, r1.estimated_var, f, where, "data=e_%d" % (k - 1))
    inner(out, max(0, n_el - 1))
    out.digest = A.digest(*digs) if digs else ""


def ex_reuse(out, seen, cx, params):
    """ONE estimator object processes several tomography objects in a row (the schedule lists of this configuration in every
    order of length 2 and 3, incl. lists whose model has the same shape but other entries): every result must equal the
    result of a fresh estimator, i.e. satisfy the normal equations of the current reference model."""
    from quara.protocol.qtomography.standard.projected_linear_estimator import ProjectedLinearEstimator
    import itertools
    count_cfg(out, cx)
    S = len(cx.all)
    lists = [(n_, i_) for n_, i_ in lists_for(cx) if n_ != "all_twice"]
    if S > 2:
        lists.append(("rotated_all", list(range(1, S)) + [0]))
    built = []
    for name, idx in lists:
        where = "%s list=%s" % (K.cfg_tag(cx.cfg), name)
        pairs = pairs_of(cx, idx)
        qt = make_qt(out, seen, cx, idx, where)
        if qt is None:
            return
        Aref, bref, cond = model(cx, pairs)
        rows = Aref.shape[0]
        f = 0.2 * np.ones(rows) + np.array([np.cos(1.3 * t) for t in range(rows)]) * 0.1
        built.append((name, pairs, qt, Aref, bref, cond, f))
    n = 0
    for L in (2, 3):
        for seq in itertools.permutations(range(len(built)), L):
            est = estimator()
            n += 1
            for pos, bi in enumerate(seq):
                name, pairs, qt, Aref, bref, cond, f = built[bi]
                ok, r = A.call(est.calc_estimate, qt, split(cx, pairs, f))
                out.ops += 1
                out.transitions += 1
                if not ok:
                    K.fail_once(out, seen, "calc_estimate:raises-on-reused-estimator:%s" % cx.tomo, "history %r: %s" % ([built[b][0] for b in seq[:pos + 1]], A.fmt_exc(r)))
                    break
                out.traces += 1
                if pos > 0:
                    out.count("reused_estimator_calls")
                    if built[seq[pos - 1]][3].shape == Aref.shape and np.abs(built[seq[pos - 1]][3] - Aref).max() > 1e-6:
                        out.count("reused_same_shape_other_model")
                if not check_normal(out, seen, cx, qt, Aref, bref, cond, r.estimated_var, f, "history %r" % ([built[b][0] for b in seq[:pos + 1]],),
                                    "reused-estimator"):
                    break
    inner(out, max(0, n - 1))


def ex_exact(out, seen, cx, params):
    """exact distributions of every alphabet object in -> that object out (variables and object);
    the library's own consistency check value ~ 0"""
    from quara.simulation.consistency_check import calc_mse_of_true_estimated
    tag = "%s:flag=%s" % (cx.tomo, cx.flag)
    count_cfg(out, cx)
    objs = K.true_objects(cx)
    n_el = 0
    for name, idx in lists_for(cx):
        where = "%s list=%s" % (K.cfg_tag(cx.cfg), name)
        pairs = pairs_of(cx, idx)
        qt = make_qt(out, seen, cx, idx, where)
        if qt is None:
            continue
        Aref, bref, cond = model(cx, pairs)
        tol = tol_for(cond)
        for oname, ocls, x in objs:
            n_el += 1
            out.traces += 1
            f_parts = K.born_vector(cx, x, pairs)
            f = np.concatenate(f_parts)
            v_true = cx.F.var_from_stacked(x, cx.flag)
            r = est_call(out, seen, cx, qt, pairs, split(cx, pairs, f, 10), "%s true=%s" % (where, oname))
            if r is None:
                continue
            v = np.asarray(r.estimated_var, float)
            if v.shape == v_true.shape and cond * cond > 1e4:
                for thr in (0.03, 0.1, 0.3):
                    if np.abs(v - v_true).max() > thr * tol:
                        out.count("ratio_exact_recovery_gt_%g" % thr)
            if v.shape != v_true.shape or np.abs(v - v_true).max() > tol:
                K.fail_once(out, seen, "estimated_var:exact-data-not-recovered:%s:%s" % (ocls, tag), "%s true=%s: deviation %.3g (cond %.3g)" % (
                    where, oname, np.abs(v - v_true).max() if v.shape == v_true.shape else -1, cond))
                continue
            ok, obj = A.call(lambda: r.estimated_qoperation)
            out.ops += 1
            if not ok:
                K.fail_once(out, seen, "estimated_qoperation:raises:%s" % tag, "%s true=%s: %s" % (where, oname, A.fmt_exc(obj)))
                continue
            st = cx.F.stacked(obj)
            out.count("qoperation_checked")
            if st.shape != x.shape or np.abs(st - x).max() > tol:
                K.fail_once(out, seen, "estimated_qoperation:exact-data-not-recovered:%s:%s" % (ocls, tag), "%s true=%s: deviation %.3g" % (
                    where, oname, np.abs(st - x).max() if st.shape == x.shape else -1))
                continue
            out.count("exact_recovered")
            out.count("recovered_" + ocls)
            # the library's own route: circuit distributions of the true object and its consistency value
            if name == "all":
                true_q = cx.q_unknown(x)
                ok, res = A.call(calc_mse_of_true_estimated, true_q, qt, estimator())
                out.ops += 1
                if not ok:
                    K.fail_once(out, seen, "consistency_check:%sraises:%s" % (cls_of(cx, pairs), cx.tomo), "%s true=%s: %s" % (
                        where, oname, A.fmt_exc(res)))
                elif not (res[0] <= max(1e-16, len(x) * tol * tol)):
                    K.fail_once(out, seen, "consistency_check:value-not-zero:%s" % tag, "%s true=%s: %r" % (where, oname, res[0]))
                else:
                    out.count("consistency_check_ok")
    inner(out, max(0, n_el - 1))


def ex_sequence(out, seen, cx, params):
    """calc_estimate_sequence of a list == the individual estimates (all orders of 3 datasets, repetitions);
    estimates independent of the attached sample counts"""
    tag = "%s:flag=%s" % (cx.tomo, cx.flag)
    count_cfg(out, cx)
    where = "%s list=all" % K.cfg_tag(cx.cfg)
    pairs = cx.all
    qt = make_qt(out, seen, cx, "all", where)
    if qt is None:
        return
    Aref, bref, cond = model(cx, pairs)
    rows = Aref.shape[0]
    objs = K.true_objects(cx)
    # three datasets: exact data of an alphabet object, a unit vector, a few-shot table (one shot per schedule)
    f0 = np.concatenate(K.born_vector(cx, objs[1][2], pairs))
    f1 = np.zeros(rows)
    f1[rows // 2] = 1.0
    f2 = np.zeros(rows)
    pos = 0
    for s, p in enumerate(pairs):
        k = cx.n_out(p)
        f2[pos + (s % k)] = 1.0
        pos += k
    fs = [f0, f1, f2]
    singles = []
    for f in fs:
        r = est_call(out, seen, cx, qt, pairs, split(cx, pairs, f), where)
        if r is None:
            return
        singles.append(np.asarray(r.estimated_var, float))
        check_normal(out, seen, cx, qt, Aref, bref, cond, singles[-1], f, where, "single dataset")
    scale = max(1.0, max(float(np.abs(v).max()) for v in singles))
    orders = [list(p) for p in itertools.permutations(range(3))] + [[0], [1, 1], [2, 0, 2], [0, 1, 2, 0, 1, 2]]
    n_el = 0
    for order in orders:
        n_el += 1
        out.traces += 1
        r = est_call(out, seen, cx, qt, pairs, [split(cx, pairs, fs[k]) for k in order], "%s order=%r" % (where, order), sequence=True)
        if r is None:
            continue
        vs = r.estimated_var_sequence
        bad = len(vs) != len(order) or any(np.shape(v) != singles[k].shape or np.abs(np.asarray(v) - singles[k]).max() > TOL_SAME * scale
                                            for v, k in zip(vs, order))
        if bad:
            K.fail_once(out, seen, "calc_estimate_sequence:differs-from-individual-estimates:%s" % tag, "%s order=%r" % (where, order))
            continue
        # estimated_var == first of the sequence; objects in the same order
        if np.abs(np.asarray(r.estimated_var) - singles[order[0]]).max() > TOL_SAME * scale:
            K.fail_once(out, seen, "estimated_var:not-first-of-sequence:%s" % tag, "%s order=%r" % (where, order))
        ok, qs = A.call(lambda: r.estimated_qoperation_sequence)
        ok1, q0 = A.call(lambda: r.estimated_qoperation)
        out.ops += 2
        if not ok or not ok1 or len(qs) != len(order):
            K.fail_once(out, seen, "estimated_qoperation_sequence:raises-or-length:%s" % cx.tomo, "%s order=%r" % (where, order))
            continue
        good = check_qoperation(out, seen, cx, q0, singles[order[0]], "%s order=%r first" % (where, order))
        for q, k in zip(qs, order):
            good = check_qoperation(out, seen, cx, q, singles[k], "%s order=%r" % (where, order)) and good
        if good:
            out.count("sequence_orders_ok")
    # sample counts
    S = len(pairs)
    variants = [1, 10, 10 ** 6, [1 + (s % 3) * 999 for s in range(S)], [10 ** 6 if s == 0 else 1 for s in range(S)]]
    for f, base in zip(fs, singles):
        for n in variants:
            n_el += 1
            r = est_call(out, seen, cx, qt, pairs, split(cx, pairs, f, n), "%s counts=%r" % (where, n if not isinstance(n, list) else "mixed"))
            if r is None:
                continue
            v = np.asarray(r.estimated_var, float)
            if v.shape != base.shape or np.abs(v - base).max() > TOL_SAME * scale:
                K.fail_once(out, seen, "estimated_var:depends-on-sample-counts:%s" % tag, "%s counts=%r: deviation %.3g" % (
                    where, n, np.abs(v - base).max() if v.shape == base.shape else -1))
            else:
                out.count("counts_variants_ok")
    inner(out, max(0, n_el - 1))


def ex_fewshot(out, seen, cx, params):
    """every empirical distribution obtainable with N shots per schedule (schedules beyond `vary` fixed)"""
    N, vary = params["N"], params["vary"]
    where = "%s list=all N=%d" % (K.cfg_tag(cx.cfg), N)
    pairs = cx.all
    qt = make_qt(out, seen, cx, "all", where)
    if qt is None:
        return
    count_cfg(out, cx)
    Aref, bref, cond = model(cx, pairs)
    per = []
    for s, p in enumerate(pairs):
        k = cx.n_out(p)
        if s < vary:
            per.append([np.array(c, float) / N for c in R.compositions(N, k)])
        else:
            c = np.zeros(k)
            c[0] = 1.0
            per.append([c])
    n_el = 0
    pinv = np.linalg.pinv(Aref)
    for combo in itertools.product(*per):
        n_el += 1
        f = np.concatenate(combo)
        out.count("fewshot_tables")
        if f.min() == 0.0:
            out.count("fewshot_with_empty_outcome")
        r = est_call(out, seen, cx, qt, pairs, [(N, c.copy()) for c in combo], where)
        if r is None:
            break
        out.traces += 1
        v = np.asarray(r.estimated_var, float)
        if check_normal(out, seen, cx, qt, Aref, bref, cond, v, f, where, "table %d" % n_el):
            vref = pinv @ (f - bref)
            if np.abs(v - vref).max() > tol_for(cond) * max(1.0, np.abs(vref).max()):
                K.fail_once(out, seen, "estimated_var:not-the-least-squares-solution:%s" % cx.tomo, "%s table %d" % (where, n_el))
    inner(out, max(0, n_el - 1))


def ex_guard(out, seen, cx, params):
    """the estimator rejects exactly the schedule lists whose testers are not informationally complete"""
    S = len(cx.all)
    lists = [("all", "all"), ("all_twice", list(range(S)) + list(range(S)))]
    for i in range(min(S, 12)):
        lists.append(("single", [i]))
    if S > 1:
        for i in range(min(S, 12)):
            lists.append(("drop1", [k for k in range(S) if k != i]))
    x0 = cx.phys_points()[0]
    v0 = cx.F.var_from_stacked(x0, cx.flag)
    n_el = 0
    for name, idx in lists:
        n_el += 1
        where = "%s list=%s %r" % (K.cfg_tag(cx.cfg), name, idx if not isinstance(idx, str) else "")
        pairs = pairs_of(cx, idx)
        qt = make_qt(out, seen, cx, idx, where)
        if qt is None:
            continue
        Aref, bref = cx.ref_model(pairs)
        rows, nvar = Aref.shape
        rank, amb = K.robust_rank(Aref)
        if amb:
            out.count("rank_ambiguous")
            continue
        ic = rank == nvar
        if ic != cx.complete_by_span(pairs):
            raise AssertionError("harness: completeness by span and by Jacobian differ: " + where)
        f = np.concatenate(K.born_vector(cx, x0, pairs))
        est = estimator()
        ok, r = A.call(est.calc_estimate, qt, split(cx, pairs, f, 100))
        out.ops += 1
        out.traces += 1
        shape_class = "rows<cols" if rows < nvar else "rows>=cols"
        if ic:
            if not ok:
                K.fail_once(out, seen, "calc_estimate:%sraises:%s" % (cls_of(cx, pairs), cx.tomo), "%s: %s" % (where, A.fmt_exc(r)))
            else:
                out.count("guard_passed")
                s = np.linalg.svd(Aref, compute_uv=False)
                v = np.asarray(r.estimated_var, float)
                if s[0] / s[-1] > 1e5:
                    out.count("guard_passed_ill_conditioned")       # barely complete: recovery not comparable
                elif v.shape != v0.shape or np.abs(v - v0).max() > tol_for(s[0] / s[-1]):
                    K.fail_once(out, seen, "estimated_var:exact-data-not-recovered:interior:%s:flag=%s" % (cx.tomo, cx.flag),
                                "%s: deviation %.3g" % (where, np.abs(v - v0).max() if v.shape == v0.shape else -1))
        else:
            okA, matA = A.call(qt.calc_matA)
            if ok and rows >= nvar and okA and K.rank_verdict_in_band(matA, nvar):
                out.count("guard_verdict_at_noise_level")          # numpy's rank threshold vs a 1e-16 singular value
            elif ok and rows < nvar:
                # Observation only: C09 quantifies over complete and over-complete tester sets.  For an under-determined
                # model the guard (rank == min(shape)) passes and a meaningless estimate is returned.
                out.count("note_underdetermined_model_not_rejected")
            elif ok:
                v = np.asarray(r.estimated_var, float)
                K.fail_once(out, seen, "calc_estimate:incomplete-testers-not-rejected:%s:%s" % (shape_class, cx.tomo),
                            "%s: matA %dx%d reference rank %d; returned an estimate with max |v| = %.3g, |v - true| = %.3g" % (
                                where, rows, nvar, rank, np.abs(v).max(), np.abs(v - v0).max() if v.shape == v0.shape else -1))
            else:
                out.count("guard_raised")
                out.count("guard_raised_" + type(r).__name__)
    inner(out, max(0, n_el - 1))


# ------------------------------------------------------------------------------------------- weak (barely complete) testers

WEAK_BLOCH = [(0.0, 0.0, 0.0), (0.9, 0.0, 0.0), (0.0, 0.9, 0.0), (0.0, 0.0, -0.9), (0.3, 0.5, 0.4), (-0.5, 0.3, -0.6),
              (0.0, 1.0, 0.0), (0.6, 0.0, 0.8), (-1.0, 0.0, 0.0), (0.48, -0.64, 0.6)]


def ex_weak(params):
    """1-qubit state tomography whose tester set is informationally complete but measures one Pauli axis only weakly
    ({(I +- eps sigma)/2}): cond(A) ~ 1/eps, up to 5e5.  The exact Born distributions (computed here from the textbook
    trace formula) of interior, boundary and pure states must come back within the same rounding allowance as everywhere
    else (tol_for: 450 eps_machine cond^2) - a complete tester set is a complete tester set, however lopsided."""
    from quara.objects.composite_system import CompositeSystem
    from quara.objects.elemental_system import ElementalSystem
    from quara.objects.matrix_basis import get_normalized_pauli_basis
    from quara.objects.povm import Povm
    from quara.protocol.qtomography.standard.standard_qst import StandardQst
    out = Out()
    seen = {}
    eps, flag, axis = params["eps"], params["flag"], params["axis"]
    out.count("flag_true" if flag else "flag_false")
    c_sys = CompositeSystem([ElementalSystem(0, get_normalized_pauli_basis())])
    sig = [np.array([[0, 1], [1, 0]], complex), np.array([[0, -1j], [1j, 0]], complex), np.array([[1, 0], [0, -1]], complex)]
    I2 = np.eye(2, dtype=complex)
    elems, povms = [], []
    for k in range(3):
        w = eps if k == axis else 1.0
        ms = [(I2 + w * sig[k]) / 2, (I2 - w * sig[k]) / 2]
        elems.append(ms)
        vecs = []
        for M in ms:
            a = np.zeros(3)
            a[k] = w if M is ms[0] else -w
            vecs.append(np.array([1.0, a[0], a[1], a[2]]) / np.sqrt(2) )
        povms.append(Povm(c_sys, vecs, is_physicality_required=False))
    # reference forward model on the library-independent coordinates tr(B_k rho), B = {I, X, Y, Z}/sqrt 2
    B = [I2 / np.sqrt(2)] + [s_ / np.sqrt(2) for s_ in sig]
    rows = np.array([[np.trace(M @ Bk).real for Bk in B] for ms in elems for M in ms])
    Aref = rows[:, 1:] if flag else rows
    sv = np.linalg.svd(Aref, compute_uv=False)
    cond = sv[0] / sv[-1]
    tol = tol_for(cond)
    if cond > 1e5:
        out.count("weak_tester_cond_above_1e5")
    where = "qst Q1 weak axis %s eps=%g flag=%s cond=%.3g" % ("XYZ"[axis], eps, flag, cond)
    ok, qt = A.call(StandardQst, povms, on_para_eq_constraint=flag, schedules="all")
    out.ops += 1
    if not ok:
        K.fail_once(out, seen, "StandardQst:raises:weak-tester:flag=%s" % flag, "%s: %s" % (where, A.fmt_exc(qt)))
        qt = None
    n_el = 0
    for r in WEAK_BLOCH if qt is not None else []:
        n_el += 1
        rho = (I2 + sum(r[k] * sig[k] for k in range(3))) / 2
        dists = [(1000, np.array([np.trace(M @ rho).real for M in ms], dtype=np.float64)) for ms in elems]
        ok, res = A.call(estimator().calc_estimate, qt, dists)
        out.ops += 1
        out.traces += 1
        if not ok:
            K.fail_once(out, seen, "calc_estimate:raises:weak-tester:flag=%s" % flag, "%s true bloch=%r: %s" % (where, r, A.fmt_exc(res)))
            continue
        ok, dm = A.call(lambda: res.estimated_qoperation.to_density_matrix())
        if not ok:
            K.fail_once(out, seen, "estimated_qoperation:raises:weak-tester:flag=%s" % flag, "%s true bloch=%r: %s" % (where, r, A.fmt_exc(dm)))
            continue
        dev = np.abs(np.asarray(dm) - rho).max()
        if not (dev <= tol):
            K.fail_once(out, seen, "estimated_var:exact-data-not-recovered:weak-tester:flag=%s:cond%s1e5" % (flag, ">" if cond > 1e5 else "<="),
                        "%s true bloch=%r: density matrix off by %.3g (allowance %.3g)" % (where, r, dev, tol))
        else:
            out.count("weak_tester_recovered")
            if dev > 0.1 * tol:
                out.count("weak_tester_dev_above_tenth_of_allowance")
    inner(out, max(0, n_el - 1))
    out.outcome = "ok" if not out.fails else "fail:" + ",".join(sorted(seen))[:120]
    return out
