"""Reference side of C14: distribution alphabet, inverse-CDF reference, stream predictions,
prefix-counting reference.  No quara code in here.

Trusted base (stated in c14.ASSUMPTIONS): numpy's bit generators (MT19937 / PCG64 / the legacy global
RandomState) and scipy.stats.multinomial.rvs as THE multinomial sampler on a given stream.
"""
import itertools
import math

import numpy as np
from scipy.stats import multinomial as _sp_multinomial

TWO53 = 9007199254740992.0  # 2**53
U_MAX = 1.0 - 2.0 ** -53     # the largest value a 53-bit uniform generator returns

# ---------------------------------------------------------------- distribution alphabet


def _zero_patterns(v):
    """(tag, vector) with exact zeros inserted at the start / in the middle / at the end (length <= 16)."""
    m = len(v)
    mid = (m + 1) // 2
    out = [("nozero", list(v))]
    pats = [("z-start", [0], []), ("z-end", [], [m]), ("z-mid", [mid], []), ("z-start-end", [0], [m]),
            ("z-mid2", [mid, mid], []), ("z-all", [0, mid], [m]), ("z-end2", [], [m, m])]
    for tag, ins_front_mid, ins_end in pats:
        w = list(v)
        for pos in sorted(ins_front_mid + ins_end, reverse=True):
            w.insert(pos, 0.0)
        if 2 <= len(w) <= 16:
            out.append((tag, w))
    return out


def base_vectors():
    out = []
    for m in range(2, 17):
        out.append(("uniform%d" % m, [1.0 / m] * m))
    for m in range(2, 17):
        out.append(("dyadic%d" % m, [0.5 ** (k + 1) for k in range(m - 1)] + [0.5 ** (m - 1)]))
    for m in (2, 3, 5, 16):
        out.append(("point%d" % m, [1.0] + [0.0] * (m - 1)))
    out.append(("tenths-0.3x3+0.1", [0.3, 0.3, 0.3, 0.1]))
    out.append(("tenths-0.7-0.2-0.1", [0.7, 0.2, 0.1]))
    out.append(("tenths-0.1-0.2-0.7", [0.1, 0.2, 0.7]))
    out.append(("tenths-0.6-0.3-0.1", [0.6, 0.3, 0.1]))
    out.append(("fifths-0.2x5", [0.2] * 5))
    out.append(("0.05x20cut16", [0.05] * 12 + [0.1] * 4))
    out.append(("sevenths-mixed", [1 / 7.0, 2 / 7.0, 4 / 7.0]))
    out.append(("thirds-mixed", [1 / 3.0, 2 / 3.0]))
    for t, tn in ((1e-300, "1e-300"), (1e-17, "1e-17"), (1e-9, "1e-9")):
        out.append(("tiny%s-first" % tn, [t, 1.0 - t]))
        out.append(("tiny%s-last" % tn, [1.0 - t, t]))
        out.append(("tiny%s-mid" % tn, [0.5, t, 0.5 - t]))
        out.append(("tiny%s-many" % tn, [t, 0.25, t, 0.25, t, 0.5 - 3 * t]))
    d = 2.0 ** -45  # 2.8e-14 < default atol 1e-13: accepted by the library's own validation
    out.append(("atol-below", [0.5, 0.5 - d]))
    out.append(("atol-below-rev", [0.5 - d, 0.5]))
    out.append(("atol-above", [0.5, 0.5 + d]))
    return out


def compositions(total, m):
    if m == 1:
        yield (total,)
        return
    for k in range(total + 1):
        for rest in compositions(total - k, m - 1):
            yield (k,) + rest


_DISTS = {}


def distributions(tier):
    """list of (name, vector).  Deterministic; identical in every process."""
    if tier in _DISTS:
        return _DISTS[tier]
    out = []
    for name, v in base_vectors():
        for tag, w in _zero_patterns(v):
            out.append(("%s/%s" % (name, tag), w))
    # the full simplex grids: every vector of tenths (two float renderings) and of eighths
    mmax = 5 if tier == "quick" else 7
    for m in range(2, mmax + 1):
        for ks in compositions(10, m):
            out.append(("tenths-div/%s" % ",".join(map(str, ks)), [k / 10.0 for k in ks]))
            out.append(("tenths-mul/%s" % ",".join(map(str, ks)), [k * 0.1 for k in ks]))
    for m in range(2, (5 if tier == "quick" else 6) + 1):
        for ks in compositions(8, m):
            out.append(("eighths/%s" % ",".join(map(str, ks)), [k / 8.0 for k in ks]))
    _DISTS[tier] = out
    return out


def float_cumsum(p):
    """left-to-right float partial sums (THE definition of the CDF of a float vector used here)"""
    c, s = [], 0.0
    for x in p:
        s += float(x)
        c.append(s)
    return c


def library_accepts(p, atol=1e-13):
    """the documented input domain: non-negative entries, |sum - 1| <= atol"""
    return all(x >= 0 for x in p) and abs(float(np.sum(np.asarray(p, dtype=float))) - 1.0) <= atol


def boundary_us(p):
    """0, 1-2^-53, every partial sum, its two float neighbours and its neighbours on the 2^-53 grid (the values a
    53-bit generator can return); all inside [0, 1)."""
    us = {0.0, U_MAX}
    for c in float_cumsum(p):
        cand = [c, float(np.nextafter(c, 0.0)), float(np.nextafter(c, 2.0))]
        j = int(math.floor(min(c, 1.0) * TWO53))
        for k in (j - 1, j, j + 1, j + 2):
            cand.append(k / TWO53)
        for u in cand:
            if 0.0 <= u < 1.0:
                us.add(u)
    return sorted(us)


def zero_class(p, i):
    nz = [k for k, x in enumerate(p) if x > 0]
    if i < nz[0]:
        return "leading"
    if i > nz[-1]:
        return "trailing"
    return "middle"


def ref_inverse_cdf(p, us):
    """textbook inverse CDF: the first outcome whose partial sum exceeds u; a u at or above the float total belongs to
    the last outcome of non-zero probability."""
    c = np.array(float_cumsum(p))
    idx = np.searchsorted(c, np.asarray(us, dtype=float), side="right")
    last = max(k for k, x in enumerate(p) if x > 0)
    return [int(i) if i < len(c) else last for i in idx]


# ---------------------------------------------------------------- streams (reference clones)


class RefStreams:
    """reference copies of the three streams a history can touch"""

    def __init__(self):
        self.rs = np.random.RandomState(0)
        self.g = np.random.Generator(np.random.MT19937(0))

    def load(self, gstate, g_state):
        self.rs.set_state(gstate)
        self.g.bit_generator.state = g_state


def fresh_stream(seed):
    return np.random.Generator(np.random.MT19937(seed))


def ref_uniform(stream, n):
    if isinstance(stream, np.random.RandomState):
        return stream.random_sample(n)
    return stream.random(n)


def ref_multinomial(stream, n, p):
    return np.asarray(_sp_multinomial.rvs(n, p, random_state=stream))


def predict(kind, requests, stream):
    """reference output items, in draw order, of one entry-point call on `stream`"""
    items = []
    for n, p in requests:
        if kind == "data":
            items.append(ref_inverse_cdf(p, ref_uniform(stream, n)))
        else:
            items.append((n, ref_multinomial(stream, n, p) / n))
    return items


def rs_key(state):
    return (state[0], state[1].tobytes(), int(state[2]), int(state[3]), float(state[4]))


def bg_key(state):
    """hashable form of a Generator bit-generator state dict"""
    def conv(x):
        if isinstance(x, dict):
            return tuple((k, conv(v)) for k, v in sorted(x.items()))
        if isinstance(x, np.ndarray):
            return x.tobytes()
        return x
    return conv(state)


# ---------------------------------------------------------------- nested output layout


def assemble(paths, items, empty):
    if not paths:
        return empty
    if len(paths[0]) == 0:
        return items[0]
    if len(paths[0]) == 1:
        out = [None] * (max(p[0] for p in paths) + 1)
        for p, r in zip(paths, items):
            out[p[0]] = r
        return out
    out = [[] for _ in range(max(p[0] for p in paths) + 1)]
    for a in range(len(out)):
        out[a] = [None] * (max(p[1] for p in paths if p[0] == a) + 1)
    for p, r in zip(paths, items):
        out[p[0]][p[1]] = r
    return out


class Structure(Exception):
    pass


def disassemble(paths, output, empty):
    """items in draw order; raises Structure when the nesting is not the documented one"""
    if not paths:
        if not same(output, empty):
            raise Structure("expected %r" % (empty,))
        return []
    try:
        if len(paths[0]) == 0:
            return [output]
        if len(paths[0]) == 1:
            if not isinstance(output, (list, tuple)) or len(output) != max(p[0] for p in paths) + 1:
                raise Structure("outer length")
            return [output[p[0]] for p in paths]
        if not isinstance(output, (list, tuple)) or len(output) != max(p[0] for p in paths) + 1:
            raise Structure("outer length")
        for a in range(len(output)):
            if not isinstance(output[a], (list, tuple)) or len(output[a]) != max(p[1] for p in paths if p[0] == a) + 1:
                raise Structure("inner length at %d" % a)
        return [output[p[0]][p[1]] for p in paths]
    except (IndexError, TypeError, KeyError) as e:
        raise Structure(repr(e))


def same(a, b):
    if isinstance(a, (list, tuple)):
        return isinstance(b, (list, tuple)) and len(a) == len(b) and all(same(x, y) for x, y in zip(a, b))
    if isinstance(a, np.ndarray) or isinstance(b, np.ndarray):
        if isinstance(a, (list, tuple)) or isinstance(b, (list, tuple)):
            return False
        a, b = np.asarray(a), np.asarray(b)
        return a.shape == b.shape and bool(np.array_equal(a, b))
    return bool(a == b)


def to_jsonable(x):
    if isinstance(x, (list, tuple)):
        return [to_jsonable(y) for y in x]
    if isinstance(x, np.ndarray):
        return [float(v).hex() for v in x.ravel()]
    if isinstance(x, (np.integer,)):
        return int(x)
    if isinstance(x, (np.floating, float)):
        return float(x).hex()
    return x


# ---------------------------------------------------------------- prefix counting reference


def ref_empi(mnum, data, ns):
    """('value', list) | ('error', why) | ('unspecified', list)  for calc_empi_dist_sequence(mnum, data, ns)
    with all num_sums >= 1."""
    if mnum < 0:
        return "error", "negative-measurement-num"
    if len(ns) == 0:
        return "value", []
    if any(n > len(data) for n in ns):
        return "error", "too-long"
    if any(a >= b for a, b in zip(ns, ns[1:])):
        return "error", "not-increasing"
    top = ns[-1]
    if any(not (0 <= d < mnum) for d in data[:top]):
        return "error", "data-out-of-range"
    val = []
    for n in ns:
        cnt = np.zeros(mnum, dtype=np.int64)
        for d in data[:n]:
            cnt[d] += 1
        val.append((n, cnt, cnt / n))
    if any(not (0 <= d < mnum) for d in data[top:]):
        return "unspecified", val
    return "value", val


def all_lists(alphabet, maxlen):
    for L in range(maxlen + 1):
        for t in itertools.product(alphabet, repeat=L):
            yield list(t)
