"""C08 Tomography forward model equals the circuit's Born-rule statistics.

E1 over (tomography type x parametrisation flag x system x unknown outcome count x tester set x schedule list).
For every schedule list the real tomography object is built and
 (a) calc_matA() v + calc_vecB() is compared with the reference Born rule on the FULL affine basis {0, e_1..e_n} of
     variable space (two affine maps equal on an affine basis are equal for every candidate object),
 (b) calc_prob_dists / calc_prob_dist / generate_prob_dists_sequence are compared with the reference, outcome by
     outcome, on a physical affine basis of the feasible set (interior point + small displacements),
 (c) one column per variable, num_variables, full column rank <=> informationally complete (reference rank).
"""
import itertools

import numpy as np

from mc import alphabet as A
from mc.core import Out, inner
from mc.props import _c08_common as K

ID = "C08"
RULE = ("one element = (tomography type, flag, system, unknown outcome count, tester set, schedule list); tester sets are "
        "named sets of physical states / POVMs with mixed outcome counts 2..4 (just complete, over-complete, incomplete "
        "wide / tall); schedule lists: 'all', the explicit and the reversed full list, every sub-list up to the size bound, "
        "every sub-list missing 1 (or 2) schedules, "
        "repetitions, all permutations of two 3-schedule lists; per element the model is compared on the full affine basis "
        "of variable space (0 and every unit vector) and on a physical affine basis of the feasible set; non-trivial = "
        "the list has >= 2 schedules; distinct = distinct (configuration, schedule list)")
ASSUMPTIONS = ["the unknown's variables are mapped to objects by the documented parametrisation (mc/frames.py: implied part "
               "dropped: state first coefficient, povm last element, gate first HS row, mprocess first row of the last HS)",
               "tester objects are the named finite pools; bases are the normalised Pauli / Gell-Mann bases",
               "the circuit route (generate_prob_dists_sequence) is compared on the full physical affine basis only for the "
               "'all' list; other lists use one generic physical point (each schedule's circuit is covered by 'all')",
               "objects handed to calc_prob_dists carry the same on_para_eq_constraint flag as the tomography"]
BOUNDS = {"quick": "Q1, Q3; povmt m=2..4, qmpt m=2..4 on Q1, m=2..3 (m=4 on one tester set) on Q3; sub-lists: all sizes when "
                   "<= 6 schedules, else sizes <= k with at most 1500 sub-lists (k>=1); deletions of 1 schedule, of 2 when <= 750 lists",
          "thorough": "adds Q2 with product testers (qmpt m=2 on 4 tester sets, m=3..4 on two), Q3 qmpt m=4 everywhere; sub-list cap "
                      "4000, deletions of 2 schedules when <= 2000 lists"}
EXHAUSTIVE = {"quick": True, "thorough": True}
CASE_TIMEOUT = 3600
CHUNK = 1


def sub_cap(tier):
    return 1500 if tier == "quick" else 4000


def families(tier, seed):
    cfgs = K.config_list(tier)
    lists_cases, sub_cases, co_cases = [], [], []
    for cfg in cfgs:
        lists_cases.append({"cfg": cfg})
        S = n_all(cfg, seed)
        kmax = K.subset_bound(S, sub_cap(tier))
        for k in range(1, kmax + 1):
            if S > 20 and k >= 2:
                # split by the first schedule of the sub-list
                for f in range(S - k + 1):
                    sub_cases.append({"cfg": cfg, "size": k, "first": f})
            else:
                sub_cases.append({"cfg": cfg, "size": k, "first": -1})
        # large sub-lists: the full list with 1 (or 2) schedules deleted (sizes not already covered above)
        if S > 6:
            co_cases.append({"cfg": cfg, "drop": 1, "first": -1})
            if S - 2 > kmax and S + S * (S - 1) // 2 <= sub_cap(tier) // 2:
                for f in range(S - 1):
                    co_cases.append({"cfg": cfg, "drop": 2, "first": f})
    lists_cases.sort(key=lambda c: cost_key(c["cfg"]))
    # the same tester objects at other list positions, several tomography objects built one after the other in one process
    order_cases = [{"cfg": cfg} for cfg in cfgs if cfg["sys"] == "Q1" and K.ctx(cfg, seed).complete_by_span(K.ctx(cfg, seed).all)]
    weak = [{"tomo": t, "flag": f, "eps": e} for t in ("qst", "povmt", "qpt", "qmpt") for f in (True, False) for e in (1e-3, 1e-6, 1e-9)]
    return [("lists", lists_cases), ("sublists", sub_cases), ("colists", co_cases), ("tester_orders", order_cases), ("weak_testers", weak)]


def cost_key(cfg):
    return ({"Q1": 0, "Q3": 1, "Q2": 2}[cfg["sys"]], K.TOMOS.index(cfg["tomo"]), cfg["m"] or 0)


def n_all(cfg, seed):
    P = K.pool(cfg["sys"], seed)
    ns = len(P.state_sets[cfg["sset"]]) if cfg["tomo"] != "qst" else 1
    npv = len(P.povm_sets[cfg["pset"]]) if cfg["tomo"] != "povmt" else 1
    return ns * npv


def guards(summary):
    g = []
    info = summary["info"]
    need = ["lists_checked", "mixed_counts_lists", "equal_counts_lists", "ic_true", "ic_false", "ic_false_wide",
            "ic_false_tall", "fullrank_said_true", "fullrank_said_false", "model_equal", "prob_dists_equal_counts_ok",
            "circuit_ok", "repeated_schedule_lists", "permuted_lists", "flag_true", "flag_false",
            "outcomes_ge_10", "schedules_ge_10", "zero_probability_seen", "span_and_jacobian_agree"]
    for t in K.TOMOS:
        need.append("tomo_" + t)
    for k in need:
        if info.get(k, 0) < 1:
            g.append("never seen: " + k)
    # lists whose reference Jacobian has a singular value in the band (1e-12, 1e-7) get no completeness verdict (seed-dependent:
    # 6 of about 79k lists at VERIF_SEED=5); only a sizeable share of them would make the exploration vacuous
    if info.get("rank_ambiguous", 0) > 0.02 * max(1, info.get("span_and_jacobian_agree", 0)):
        g.append("reference rank ambiguous in %d lists" % info["rank_ambiguous"])
    return g


def ex_weak(params, seed):
    """informationally complete but badly scaled testers (pseudo-pure states / weak measurements of strength eps): the model
    still has full column rank, and is_fullrank_matA must say so (the singular values of A itself are far above rounding)"""
    from quara.protocol.qtomography.standard.standard_qst import StandardQst
    from quara.protocol.qtomography.standard.standard_povmt import StandardPovmt
    from quara.protocol.qtomography.standard.standard_qpt import StandardQpt
    from quara.protocol.qtomography.standard.standard_qmpt import StandardQmpt
    from mc import refmodel as R
    out = Out()
    tomo, flag, eps = params["tomo"], params["flag"], params["eps"]
    c = A.make_system("Q1")
    X = np.array([[0, 1], [1, 0]], dtype=complex)
    Y = np.array([[0, -1j], [1j, 0]])
    Z = np.diag([1.0, -1.0]).astype(complex)
    U = R.generic_unitary(2, seed, salt=6)
    axes = [U @ P @ U.conj().T for P in (X, Y, Z)]
    I2 = np.eye(2, dtype=complex)
    dirs = axes + [-(axes[0] + axes[1] + axes[2]) / np.sqrt(3)]
    states = [A.q_state(c, (I2 + eps * D) / 2) for D in dirs]                       # pseudo-pure, tetrahedron-like frame
    povms = [A.q_povm(c, [(I2 + eps * D) / 2, (I2 - eps * D) / 2]) for D in axes]    # weak measurements along 3 axes
    kw = dict(on_para_eq_constraint=flag, schedules="all")
    mk = {"qst": lambda: StandardQst(povms, **kw), "povmt": lambda: StandardPovmt(states, 2, **kw),
          "qpt": lambda: StandardQpt(states, povms, **kw), "qmpt": lambda: StandardQmpt(states, povms, 2, **kw)}[tomo]
    ok, qt = A.call(mk)
    out.ops += 1
    if not ok:
        out.fail("weak_testers:constructor-raises:%s" % tomo, A.fmt_exc(qt))
        return out
    ok, matA = A.call(qt.calc_matA)
    ok2, fr = A.call(qt.is_fullrank_matA)
    out.ops += 2
    if not ok or not ok2:
        out.fail("weak_testers:raises:%s" % tomo, A.fmt_exc(matA if not ok else fr))
        return out
    sv = np.linalg.svd(np.asarray(matA, float), compute_uv=False)
    nvar = np.asarray(matA).shape[1]
    out.traces += 1
    out.count("weak_tester_models")
    # reference verdict: complete by construction (frame of 4 states / 3 axes); numerically far from rank deficiency
    if len(sv) < nvar or sv[nvar - 1] <= 1e-12 * sv[0] * 1e2:
        out.count("weak_tester_model_too_close_to_rounding")       # not asserted
    elif not fr:
        out.fail("is_fullrank_matA:false-for-complete-badly-scaled-testers:%s" % tomo,
                 "eps=%g flag=%s: singular values of matA %.3g .. %.3g (ratio %.3g, far above rounding) but is_fullrank_matA() is False" % (
                     eps, flag, sv[0], sv[nvar - 1], sv[nvar - 1] / sv[0]))
    out.outcome = "ok" if not out.fails else "fail"
    return out


def execute(family, params, seed):
    if family == "weak_testers":
        return ex_weak(params, seed)
    cfg = params["cfg"]
    cx = K.ctx(cfg, seed)
    out = Out()
    seen = {}
    digs = []
    if family == "lists":
        full = [("all", "all")] + K.special_lists(cx)
        n = 0
        for name, idx in full:
            n += 1
            check_list(out, seen, cx, name, idx, digs)
        inner(out, n - 1)
    elif family == "tester_orders":
        n = 0
        for seq in ((0, 1, 0), (2, 0, 1), (1, 2, 0)):
            for rev in seq:
                c2 = dict(cfg)
                c2["rev"] = rev
                n += 1
                out.count("tester_order_objects")
                check_list(out, seen, K.ctx(c2, seed), "all", "all", digs)
        inner(out, n - 1)
    elif family == "colists":
        S = len(cx.all)
        k, f = params["drop"], params["first"]
        n = 0
        for comb in itertools.combinations(range(S), k):
            if f >= 0 and comb[0] != f:
                continue
            n += 1
            check_list(out, seen, cx, "drop%d" % k, [i for i in range(S) if i not in comb], digs)
        inner(out, max(0, n - 1))
    else:
        S = len(cx.all)
        k, f = params["size"], params["first"]
        n = 0
        for comb in itertools.combinations(range(S), k):
            if f >= 0 and comb[0] != f:
                continue
            n += 1
            check_list(out, seen, cx, "sub%d" % k, list(comb), digs)
        inner(out, max(0, n - 1), max(0, n - 1) if k >= 2 else 0)
        out.nontrivial = k >= 2
    out.outcome = "ok" if not out.fails else "fail:" + ",".join(sorted(seen))[:120]
    out.digest = A.digest(*digs) if digs else ""
    return out


def rows_of(val):
    """per-schedule rows of whatever container calc_prob_dists returns (2-d array or list of arrays)"""
    return [np.asarray(r, dtype=float).ravel() for r in val]


def check_list(out, seen, cx, name, idx, digs):
    tomo, flag = cx.tomo, cx.flag
    tag = "%s:flag=%s" % (tomo, flag)
    where = "%s list=%s %r" % (K.cfg_tag(cx.cfg), name, idx if not isinstance(idx, str) else idx)
    pairs = cx.all if isinstance(idx, str) else [cx.all[k] for k in idx]
    outs = [cx.n_out(p) for p in pairs]
    mixed = len(set(outs)) > 1
    out.count("lists_checked")
    out.count("tomo_" + tomo)
    out.count("flag_true" if flag else "flag_false")
    out.count("mixed_counts_lists" if mixed else "equal_counts_lists")
    if len(pairs) != len(set(pairs)):
        out.count("repeated_schedule_lists")
    if name == "perm3":
        out.count("permuted_lists")
    if max(outs) >= 10:
        out.count("outcomes_ge_10")
    if len(pairs) >= 10:
        out.count("schedules_ge_10")

    ok, qt = A.call(cx.make, "all" if isinstance(idx, str) else pairs)
    out.ops += 1
    if not ok:
        K.fail_once(out, seen, "constructor:raises:%s" % tag, "%s: %s" % (where, A.fmt_exc(qt)))
        return

    # ---------------- (a) model vs definition on the full affine basis of variable space
    Aref, bref = cx.ref_model(pairs)
    nrows, nvar = Aref.shape
    okA, matA = A.call(qt.calc_matA)
    okB, vecB = A.call(qt.calc_vecB)
    out.ops += 2
    out.traces += nvar + 1
    model_ok = False
    if not okA or not okB:
        K.fail_once(out, seen, "calc_matA/vecB:raises:%s" % tag, "%s: %s" % (where, A.fmt_exc(matA if not okA else vecB)))
    else:
        matA = np.asarray(matA, dtype=float)
        vecB = np.asarray(vecB, dtype=float)
        if matA.ndim != 2 or matA.shape[1] != nvar:
            K.fail_once(out, seen, "calc_matA:columns-not-one-per-variable:%s" % tag,
                        "%s: shape %r, %d variables" % (where, matA.shape, nvar))
        elif matA.shape[0] != nrows or vecB.shape != (nrows,):
            K.fail_once(out, seen, "calc_matA/vecB:rows-not-one-per-outcome:%s" % tag,
                        "%s: shapes %r %r, %d (schedule, outcome) pairs" % (where, matA.shape, vecB.shape, nrows))
        else:
            gb, eb = K.close(vecB, bref)
            ga, ea = K.close(matA + vecB[:, None], Aref + bref[:, None])
            if not gb:
                K.fail_once(out, seen, "model:offset-differs-from-born-rule:%s" % tag,
                            "%s: prediction at var=0 off by %.3g\n got %r\n ref %r" % (where, eb, vecB[:12], bref[:12]))
            if not ga:
                same_rows = K.close(np.sort(matA + vecB[:, None], axis=0), np.sort(Aref + bref[:, None], axis=0))[0]
                what = "row-order" if same_rows else "values"
                j = int(np.argmax(np.abs(matA + vecB[:, None] - Aref - bref[:, None]).max(axis=0)))
                K.fail_once(out, seen, "model:unit-vector-prediction-differs:%s:%s" % (what, tag),
                            "%s: prediction at var=e_%d off by %.3g\n got %r\n ref %r" % (
                                where, j, ea, (matA[:, j] + vecB)[:12], (Aref[:, j] + bref)[:12]))
            if ga and gb:
                model_ok = True
                out.count("model_equal")
        if name == "all":
            digs.extend([matA, vecB])

    # ---------------- (c) number of variables, informational completeness
    okn, nv = A.call(lambda: qt.num_variables)
    out.ops += 1
    if not okn or nv != nvar:
        K.fail_once(out, seen, "num_variables:wrong:%s" % tag, "%s: got %r, reference %d" % (where, nv, nvar))
    rank, amb = K.robust_rank(Aref)
    if amb:
        out.count("rank_ambiguous")
    else:
        ic = rank == nvar
        ic_span = cx.complete_by_span(pairs)
        if ic != ic_span:
            raise AssertionError("harness: completeness by tester span (%s) and by reference Jacobian (%s) differ: %s" % (
                ic_span, ic, where))
        out.count("span_and_jacobian_agree")
        out.count("ic_true" if ic else "ic_false")
        shape_class = "rows<cols" if nrows < nvar else "rows>=cols"
        if not ic:
            out.count("ic_false_wide" if nrows < nvar else "ic_false_tall")
        okf, fr = A.call(qt.is_fullrank_matA)
        out.ops += 1
        if not okf:
            K.fail_once(out, seen, "is_fullrank_matA:raises:%s" % tag, "%s: %s" % (where, A.fmt_exc(fr)))
        else:
            out.count("fullrank_said_true" if fr else "fullrank_said_false")
            if ic and not fr:
                K.fail_once(out, seen, "is_fullrank_matA:false-for-complete-testers:%s" % tag, where)
            if (not ic) and fr:
                if nrows >= nvar and okA and K.rank_verdict_in_band(matA, nvar):
                    out.count("rank_verdict_at_noise_level")       # numpy's threshold vs a 1e-16 singular value
                elif nrows < nvar:
                    # Observation only: C08 promises full column rank WHENEVER the testers are informationally complete;
                    # it does not say what is_fullrank_matA answers for an under-determined (wide) model, where the
                    # library compares the rank with min(shape) and answers True.
                    out.count("note_is_fullrank_true_for_underdetermined_model")
                else:
                    K.fail_once(out, seen, "is_fullrank_matA:true-for-incomplete-testers:%s:%s" % (shape_class, tomo),
                                "%s: matA is %dx%d, reference rank %d" % (where, nrows, nvar, rank))
        if okA and isinstance(matA, np.ndarray) and matA.ndim == 2 and matA.size:
            r_lib, amb2 = K.robust_rank(matA)
            if ic and not amb2 and r_lib < nvar:
                K.fail_once(out, seen, "calc_matA:column-rank-deficient-for-complete-testers:%s" % tag,
                            "%s: rank %d < %d" % (where, r_lib, nvar))

    # ---------------- (b) model vs circuit on a physical affine basis of the feasible set
    phys = cx.phys_points()
    # 'all': the full physical affine basis; other lists: the generic displaced point (wiring / order of the list)
    pts = list(range(len(phys))) if name == "all" else [len(phys) - 1]
    if name == "all" and cx.cfg["sys"] in ("Q1", "Q3"):
        # (one qubit and one qutrit in both tiers; the 2-qubit configurations of the thorough tier keep the affine basis only)
        # the circuit route is not affine in the unknown (outcomes below eps_zero are dropped, branch buffers are concatenated):
        # the named alphabet objects, with exactly impossible outcomes at the first / last positions, are run as well
        named = [x for (_, _, x) in K.true_objects(cx)]
        phys = list(phys) + named
        pts += list(range(len(phys) - len(named), len(phys)))
        out.count("circuit_named_objects", len(named))
    for k in pts:
        x = phys[k]
        born = cx.born_all(x, sorted(set(pairs)))
        ref_rows = [born[p] for p in pairs]
        if min(r.min() for r in ref_rows) < 1e-12:
            out.count("zero_probability_seen")
        obj = cx.q_unknown(x)
        out.traces += 1
        # -- calc_prob_dists
        okp, pd = A.call(qt.calc_prob_dists, obj)
        out.ops += 1
        cls = "unequal-outcome-counts:" if mixed else ""
        if not okp:
            K.fail_once(out, seen, "calc_prob_dists:%sraises:%s" % (cls, tomo), "%s point %d: %s" % (where, k, A.fmt_exc(pd)))
        else:
            rows = rows_of(pd)
            bad = None
            if len(rows) != len(ref_rows) or any(r.shape != q.shape for r, q in zip(rows, ref_rows)):
                bad = "layout: got %d rows of sizes %r, schedules have outcome counts %r" % (
                    len(rows), [r.size for r in rows][:8], outs[:8])
                what = "wrong-layout"
            else:
                err = max(float(np.abs(r - q).max()) for r, q in zip(rows, ref_rows))
                if err > K.TOL:
                    bad = "max deviation %.3g" % err
                    what = "values-differ"
            if bad:
                K.fail_once(out, seen, "calc_prob_dists:%s%s:%s" % (cls, what, tag if not mixed else tomo),
                            "%s point %d: %s" % (where, k, bad))
            elif not mixed:
                out.count("prob_dists_equal_counts_ok")
            else:
                out.count("prob_dists_mixed_counts_ok")
        # -- calc_prob_dist for the first and the last schedule
        for si in sorted({0, len(pairs) - 1}):
            oks, ps = A.call(qt.calc_prob_dist, obj, si)
            out.ops += 1
            if not oks:
                K.fail_once(out, seen, "calc_prob_dist:%sraises:%s" % (cls, tomo), "%s point %d schedule %d: %s" % (
                    where, k, si, A.fmt_exc(ps)))
            else:
                g, e = K.close(np.asarray(ps, float).ravel(), ref_rows[si])
                if not g:
                    K.fail_once(out, seen, "calc_prob_dist:%sdiffers:%s" % (cls, tag if not mixed else tomo),
                                "%s point %d schedule %d: deviation %.3g" % (where, k, si, e))
        # -- the same candidate handed over in other memory layouts (Fortran-ordered, non-contiguous view): same prediction
        if name == "all" and k == len(cx.phys_points()) - 1:
            for lay in ("F", "strided"):
                okl, lobj = A.call(cx.F.make, x, on_para_eq_constraint=flag, layout=lay)
                okq, pl = A.call(qt.calc_prob_dists, lobj) if okl else (False, lobj)
                out.ops += 1
                out.count("layout_candidates")
                if not okq:
                    K.fail_once(out, seen, "calc_prob_dists:raises:candidate-layout=%s:%s" % (lay, tomo), "%s: %s" % (where, A.fmt_exc(pl)))
                    continue
                rl = rows_of(pl)
                if len(rl) != len(ref_rows) or any(r.shape != q.shape for r, q in zip(rl, ref_rows)) or \
                        max(float(np.abs(r - q).max()) for r, q in zip(rl, ref_rows)) > K.TOL:
                    K.fail_once(out, seen, "calc_prob_dists:values-differ:candidate-layout=%s:%s" % (lay, tomo),
                                "%s: the prediction for the same candidate values held in a %s array differs from the Born rule" % (where, lay))
        # -- the circuit
        okg, gs = A.call(qt.generate_prob_dists_sequence, obj)
        out.ops += 1
        if not okg:
            K.fail_once(out, seen, "generate_prob_dists_sequence:raises:%s" % tag, "%s point %d: %s" % (where, k, A.fmt_exc(gs)))
        else:
            rows = rows_of(gs)
            if len(rows) != len(ref_rows) or any(r.shape != q.shape for r, q in zip(rows, ref_rows)):
                K.fail_once(out, seen, "generate_prob_dists_sequence:layout:%s" % tag, "%s point %d: sizes %r vs %r" % (
                    where, k, [r.size for r in rows][:8], outs[:8]))
            else:
                err = max(float(np.abs(r - q).max()) for r, q in zip(rows, ref_rows))
                if err > K.TOL:
                    srt = max(float(np.abs(np.sort(r) - np.sort(q)).max()) for r, q in zip(rows, ref_rows))
                    what = "outcome-order" if srt <= K.TOL else "values"
                    K.fail_once(out, seen, "generate_prob_dists_sequence:differs:%s:%s" % (what, tag),
                                "%s point %d: deviation %.3g" % (where, k, err))
                else:
                    out.count("circuit_ok")
                    # circuit vs the library's own model (both library routes, same order)
                    if model_ok:
                        v = cx.F.var_from_stacked(x, flag)
                        pm = matA @ v + vecB
                        if np.abs(pm - np.concatenate(ref_rows)).max() > K.TOL:
                            raise AssertionError("harness: model equal on the basis but not at a physical point")
            if name == "all" and k == 0:
                digs.extend(rows)
