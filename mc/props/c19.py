"""C19 Analytical error formulas equal exact expectations.

E1 over (tomography type x tester set x true object x parametrisation flag) x sample-size lists.  Exact expectations
come from COMPLETE enumeration of multinomial count vectors with their exact probabilities (reference Born rule on
dense matrices): jointly over all schedules for small cases, per schedule (independent schedules) for n <= 8, and the
textbook 1/n law anchored at the enumerated n = 1 moments beyond.  The library's own LinearEstimator is run on every
enumerated dataset.  Fisher matrix = enumerated one-shot expectation of the score outer product = textbook sum;
Cramer-Rao bound = Tr J (sum_j n_j F_j)^-1 J^T with J the Jacobian object <- variables (= Tr F^-1 whenever the implied
part of the object is constant; the POVM override of the library is exactly this).  Helper routines are compared with
their definitions on all 0/1/2-valued arrays of small shapes.  Tester sets are fixed measurement / preparation frames
conjugated by one generic unitary, so VERIF_SEED changes their orientation but not their conditioning.
"""
import itertools
import warnings
import math

import numpy as np

from mc import alphabet as A, refmodel as R
from mc.core import Out, inner
from mc.props import _c19_model as M

ID = "C19"
RULE = ("cases = (tomography type, tester set, true object of the shared alphabet, on_para_eq_constraint flag); inside a case "
        "every multinomial count vector of every schedule (n = 1..nmax, nmax <= 8 bounded by the per-(schedule,n) cap) is "
        "enumerated with its exact probability and fed to LinearEstimator; distinct = distinct (case, schedule, n, count "
        "vector) resp. (case, sample-size list, joint count vector) resp. helper input arrays; non-trivial = true object with "
        "at least one schedule whose distribution is not a point mass")
ASSUMPTIONS = [
    "per-schedule family: schedules are sampled independently and the estimator is additive over schedules "
    "(checked completely in the joint family and on spot datasets in every case); cross terms use the enumerated biases",
    "sample sizes above the enumeration bound use Cov(mean of n iid) = Cov(one shot)/n anchored at the enumerated n=1 moments; "
    "the law itself is re-checked on every enumerated n",
    "Fisher matrix / Cramer-Rao bound are only asserted when every outcome probability is >= 1e-3 (away from the 1e-8 replacement)",
    "tester sets are informationally complete with cond(A) <= 100 (asserted per case); ill-conditioned tester sets, where the "
    "library's pinv(A^T A) and the estimator's inv(A^T A) differ by more than rounding, are not covered",
    "Cramer-Rao bound: relative tolerance max(1e-9, 100 eps cond(F)); lists with cond(F) > 1e8 are skipped (counted)",
    "true objects outside the shared alphabet, 2-qubit process tomography and the simulation-level 3-sigma comparators "
    "(loss_function.mean_squared_error) are not covered",
]
BOUNDS = {
    "quick": "1-qubit QST/POVMT/QPT/QMPT, testers with 2..4 outcomes (1..15 schedules, 2..12 outcomes per schedule), both flags, both modes; per-schedule "
             "n <= 8 with <= 2000 count vectors per (schedule, n); joint enumeration <= 12000 datasets per list; "
             "large n in {10,1e3,1e6}; helpers on 0/1/2-valued arrays of shapes <= 3x2",
    "thorough": "adds qutrit QST/POVMT/QPT, 2-qubit QST, 5-state tester sets everywhere, <= 20000 count vectors per (schedule, n), "
                "joint enumeration <= 70000 datasets per list",
}
EXHAUSTIVE = {"quick": True, "thorough": True}
CASE_TIMEOUT = 900

TOL = 1e-9
PROB_MARGIN = 1e-3


# ---------------------------------------------------------------------------------------------- small utilities

def cfg_of(p):
    """configuration class used in failure signatures: tomography type, flag, equal / mixed outcome counts over schedules"""
    mixed = "mixed" in p.get("povms", "")
    return "%s:flag=%s:%s" % (p["tomo"], p["flag"], "mixed-outcome-counts" if mixed else "equal-outcome-counts")


def label_of(p):
    t = p["tomo"]
    testers = p["povms"] if t == "qst" else p["states"] if t == "povmt" else "%s+%s" % (p["states"], p["povms"])
    s = "%s testers=%s" % (p["sys"], testers)
    if p.get("m"):
        s += " m=%d" % p["m"]
    if p.get("sched", "all") != "all":
        s += " sched=%s" % p["sched"]
    return s + " true=%s" % p["true"]


class Case:
    """per-case failure book-keeping: one failure record per signature"""

    def __init__(self, out, cfg, label):
        self.out, self.cfg, self.label = out, cfg, label
        self.seen = {}

    def fail(self, site, what, msg):
        sig = "%s:%s:%s" % (site, what, self.cfg)
        if sig in self.seen:
            self.seen[sig] += 1
            return
        self.seen[sig] = 1
        self.out.fail(sig, "%s | %s" % (self.label, msg))

    def scalar(self, site, what, got, exact, floor, ctx, tol=None):
        tol = TOL if tol is None else tol
        self.out.traces += 1
        ok = np.isscalar(got) or (isinstance(got, np.ndarray) and got.ndim == 0)
        if not ok or not np.isfinite(got):
            self.fail(site, what + ":not-a-finite-scalar", "%s got %r" % (ctx, got))
            return False
        scale = max(abs(exact), floor)
        if abs(float(got) - exact) > tol * scale:
            self.fail(site, what, "%s library=%.15g exact=%.15g rel.err=%.3g" % (ctx, float(got), exact, abs(float(got) - exact) / scale))
            return False
        return True

    def matrix(self, site, what, got, exact, floor, ctx):
        self.out.traces += 1
        got = np.asarray(got)
        if got.shape != exact.shape:
            self.fail(site, what + ":shape", "%s library shape %r, exact shape %r" % (ctx, got.shape, exact.shape))
            return False
        if not np.all(np.isfinite(got)):
            self.fail(site, what + ":not-finite", ctx)
            return False
        scale = max(float(np.abs(exact).max()), floor)
        err = float(np.abs(got - exact).max())
        if err > TOL * scale:
            k = np.unravel_index(np.argmax(np.abs(got - exact)), exact.shape)
            self.fail(site, what, "%s max|library-exact|=%.3g (scale %.3g) at %r: library=%.12g exact=%.12g" % (
                ctx, err, scale, k, got[k], exact[k]))
            return False
        return True


def block_diag(blocks):
    n = sum(b.shape[0] for b in blocks)
    out = np.zeros((n, n))
    k = 0
    for b in blocks:
        s = b.shape[0]
        out[k:k + s, k:k + s] = b
        k += s
    return out


def small_lists(S, N):
    lists = [("equal", [n] * S) for n in range(1, N + 1)]
    if S > 1 and N > 1:
        for r in range(N):
            lists.append(("unequal", [1 + (j + r) % N for j in range(S)]))
        lists.append(("unequal", [N] + [1] * (S - 1)))
        lists.append(("unequal", [1] * (S - 1) + [N]))
    seen, res = set(), []
    for c, l in lists:
        if tuple(l) not in seen:
            seen.add(tuple(l))
            res.append(("equal" if len(set(l)) == 1 else c, l))
    return res


BIG = (10, 1000, 10 ** 6)


def large_lists(S, N):
    lists = [("large-equal", [n] * S) for n in BIG]
    if S > 1:
        for r in range(3):
            lists.append(("large-unequal", [BIG[(j + r) % 3] for j in range(S)]))
        lists.append(("large-unequal", [N if j % 2 == 0 else 10 ** 6 for j in range(S)]))
    return lists


# ---------------------------------------------------------------------------------------------- exact values for a list

def exact_from_schedules(S, E, n_list):
    """compose per-schedule enumerations (independent schedules).  E[(j, n)] enumerated; n beyond the enumeration bound
    uses the 1/n law anchored at n = 1."""
    nv = S.nv
    cov_v = np.zeros((nv, nv))
    bias_v = np.zeros(nv)
    bias_o = np.zeros(S.F.n)
    tr_o = 0.0
    cov_f, mse_f = [], 0.0
    for j, n in enumerate(n_list):
        if (j, n) in E:
            e, k = E[(j, n)], 1.0
        else:
            e, k = E[(j, 1)], 1.0 / n
        cov_v += k * (e.S2_v - np.outer(e.bias_v, e.bias_v))
        tr_o += k * (e.S2o_tr - float(e.bias_o @ e.bias_o))
        bias_v += e.bias_v
        bias_o += e.bias_o
        df = e.mean_f - S.probs[j]
        cf = k * (e.cov_f - np.outer(df, df))
        cov_f.append(cf)
        mse_f += float(np.trace(cf)) + float(df @ df)
    return {"cov_f_blocks": cov_f, "cov_f_total": block_diag(cov_f), "cov_v": cov_v,
            "mse_v": float(np.trace(cov_v)) + float(bias_v @ bias_v), "mse_o": tr_o + float(bias_o @ bias_o), "mse_f": mse_f}


def check_list(cs, S, cls, n_list, ex, single=True):
    """all list-level analytical routines of the library against the exact values `ex`"""
    out, qt, q = cs.out, S.qt, S.qope
    floor = 1e-6 / min(n_list)
    ctx = "n_list=%r" % (n_list,)
    out.count("lists_" + cls.split("-")[0])
    if len(set(n_list)) > 1:
        out.count("unequal_lists")
    if single:
        for j, n in enumerate(n_list):
            ok, got = A.call(qt.calc_covariance_mat_single, q, j, n)
            out.ops += 1
            if not ok:
                cs.fail("calc_covariance_mat_single", "raises", "%s schedule %d: %s" % (ctx, j, A.fmt_exc(got)))
            else:
                cs.matrix("calc_covariance_mat_single", "differs-from-exact-covariance", got, ex["cov_f_blocks"][j], floor,
                          "%s schedule %d" % (ctx, j))
    ok, got = A.call(qt.calc_covariance_mat_total, q, list(n_list))
    out.ops += 1
    if not ok:
        cs.fail("calc_covariance_mat_total", "raises", "%s: %s" % (ctx, A.fmt_exc(got)))
    else:
        cs.matrix("calc_covariance_mat_total", "differs-from-exact-covariance", got, ex["cov_f_total"], floor, ctx)
    ok, got = A.call(qt.calc_mse_empi_dists_analytical, q, list(n_list))
    out.ops += 1
    if not ok:
        cs.fail("calc_mse_empi_dists_analytical", "raises", "%s: %s" % (ctx, A.fmt_exc(got)))
    else:
        cs.scalar("calc_mse_empi_dists_analytical", "differs-from-exact-mse", got, ex["mse_f"], floor, ctx)
    ok, got = A.call(qt.calc_covariance_linear_mat_total, q, list(n_list))
    out.ops += 1
    if not ok:
        cs.fail("calc_covariance_linear_mat_total", "raises", "%s: %s" % (ctx, A.fmt_exc(got)))
    else:
        cs.matrix("calc_covariance_linear_mat_total", "differs-from-exact-covariance-of-estimates", got, ex["cov_v"], floor, ctx)
    for mode, key in (("var", "mse_v"), ("qoperation", "mse_o"), (None, "mse_o")):
        if mode is None:
            ok, got = A.call(qt.calc_mse_linear_analytical, q, list(n_list))
        else:
            ok, got = A.call(qt.calc_mse_linear_analytical, q, list(n_list), mode=mode)
        out.ops += 1
        site = "calc_mse_linear_analytical:mode=%s" % (mode or "default")
        if not ok:
            cs.fail(site, "raises", "%s: %s" % (ctx, A.fmt_exc(got)))
        else:
            what = "differs-from-exact-mse"
            if key == "mse_o" and ex["mse_o"] > ex["mse_v"] * (1 + 1e-6) and np.isscalar(got) and \
                    abs(float(got) - ex["mse_v"]) <= TOL * max(abs(ex["mse_v"]), floor):
                # a specific, separately listed way of being wrong: the variable-level value is returned although the
                # implied (dependent) part of the object has non-zero variance
                what = "returns-variable-level-mse-implied-part-omitted"
            out.count("mse_checked:%s:%s:%s" % (S.tomo, S.flag, mode or "default"))
            good = cs.scalar(site, what, got, ex[key], floor,
                             "%s (exact var-level mse %.12g, exact object-level mse %.12g)" % (ctx, ex["mse_v"], ex["mse_o"]))
    if ex["mse_o"] > ex["mse_v"] * (1 + 1e-6):
        out.count("implied_term_nonzero:%s" % S.tomo)


def check_bad_mode(cs, S):
    ok, got = A.call(S.qt.calc_mse_linear_analytical, S.qope, [1] * S.S, mode="bogus")
    cs.out.ops += 1
    if ok or not isinstance(got, ValueError):
        cs.fail("calc_mse_linear_analytical", "unknown-mode-not-rejected", "mode='bogus' -> %r" % (got,))
    else:
        cs.out.count("bad_mode_rejected")


# ---------------------------------------------------------------------------------------------- family: per schedule

def estimator():
    from quara.protocol.qtomography.standard.linear_estimator import LinearEstimator
    return LinearEstimator()


def enumerate_schedules(cs, S, est, N):
    """E[(j, n)] for all schedules, n = 1..N; also the 1/n law and unbiasedness by enumeration"""
    out = cs.out
    E = {}
    for j in range(S.S):
        for n in range(1, N + 1):
            ok, e = M.enum_schedule(S, est, j, n)
            out.ops += 1
            if not ok:
                cs.fail("LinearEstimator.calc_estimate_sequence", "raises", "schedule %d n=%d: %s" % (j, n, A.fmt_exc(e)))
                return None
            E[(j, n)] = e
            out.count("datasets", e.count)
            out.count("enum_n%d" % n)
            out.count("outcomes_%d" % min(S.M[j], 5))
            if np.abs(e.mean_f - S.probs[j]).max() > 1e-12:
                raise AssertionError("harness: enumerated mean frequency differs from the probabilities")
            if e.conv_err > 1e-11 * (1 + float(np.abs(S.x_true).max())):
                cs.fail("estimated_qoperation_sequence", "to_stacked_vector-differs-from-reference-parametrisation",
                        "schedule %d n=%d: max deviation %.3g" % (j, n, e.conv_err))
            if np.abs(e.bias_v).max() < 1e-11 * (1 + np.abs(S.v_true).max()):
                out.count("unbiased_by_enumeration")
            else:
                out.count("biased_estimates")
            if n > 1:
                c1 = E[(j, 1)].S2_v - np.outer(E[(j, 1)].bias_v, E[(j, 1)].bias_v)
                cn = e.S2_v - np.outer(e.bias_v, e.bias_v)
                if np.abs(n * cn - c1).max() > 1e-10 * max(1e-12, float(np.abs(c1).max())):
                    out.count("scaling_law_mismatch")
                else:
                    out.count("scaling_law_verified")
    return E


def additivity_spot(cs, S, est, E):
    """v(all schedules perturbed) - v_true == sum_j [v(only schedule j perturbed) - v_true] on max(M) one-shot datasets"""
    out = cs.out
    seqs, single = [], []
    for r in range(max(S.M)):
        ds = []
        for j in range(S.S):
            f = np.zeros(S.M[j])
            f[(j + r) % S.M[j]] = 1.0
            ds.append((1, f))
        seqs.append(ds)
        for j in range(S.S):
            b = S.base_dataset()
            b[j] = ds[j]
            single.append(b)
    ok, V, _ = M.run_estimator(S, est, seqs + single)
    if not ok:
        return
    k = len(seqs)
    for r in range(k):
        comb = V[r] - S.v_true
        parts = sum(V[k + r * S.S + j] - S.v_true for j in range(S.S))
        if np.abs(comb - parts).max() > 1e-10 * (1 + np.abs(comb).max()):
            out.count("additivity_mismatch")
        else:
            out.count("additivity_verified")


def ex_persched(p, seed):
    out = Out()
    S = M.Setup(p, seed)
    cs = Case(out, cfg_of(p), label_of(p))
    est = estimator()
    N = min(M.nmax_for(m, p["cap"]) for m in S.M)
    out.nontrivial = any(q.max() < 1 - 1e-9 for q in S.probs)
    if S.min_prob < 1e-9:
        out.count("zero_probability_seen")
    ok, rk = A.call(S.qt.is_fullrank_matA)
    if not ok or not rk:
        raise AssertionError("harness: tester set %r is not informationally complete" % (p,))
    E = enumerate_schedules(cs, S, est, N)
    n_inner = 0
    if E is not None:
        additivity_spot(cs, S, est, E)
        for cls, n_list in small_lists(S.S, N) + large_lists(S.S, N):
            ex = exact_from_schedules(S, E, n_list)
            check_list(cs, S, cls, n_list, ex)
            n_inner += 1
        check_bad_mode(cs, S)
        n_inner += sum(e.count for e in E.values())
        out.digest = A.digest(*[E[k].S2_v for k in sorted(E)])
    else:
        # the estimator cannot be run: still confront the distribution-level routines with the exact values
        for cls, n_list in small_lists(S.S, min(N, 3)):
            blocks = []
            for j, n in enumerate(n_list):
                fs, pm = M.comps_and_pmf(n, S.probs[j])
                df = fs / n - S.probs[j]
                blocks.append((df * pm[:, None]).T @ df)
                n_inner += len(pm)
            ex = {"cov_f_blocks": blocks, "cov_f_total": block_diag(blocks), "mse_f": float(sum(np.trace(b) for b in blocks))}
            check_dists_only(cs, S, cls, n_list, ex)
    inner(out, n_inner, n_inner if out.nontrivial else 0)
    out.outcome = "ok" if not out.fails else "fail"
    return out


def check_dists_only(cs, S, cls, n_list, ex):
    out, qt, q = cs.out, S.qt, S.qope
    floor = 1e-6 / min(n_list)
    ctx = "n_list=%r" % (n_list,)
    for j, n in enumerate(n_list):
        ok, got = A.call(qt.calc_covariance_mat_single, q, j, n)
        out.ops += 1
        if not ok:
            cs.fail("calc_covariance_mat_single", "raises", "%s schedule %d: %s" % (ctx, j, A.fmt_exc(got)))
        else:
            cs.matrix("calc_covariance_mat_single", "differs-from-exact-covariance", got, ex["cov_f_blocks"][j], floor,
                      "%s schedule %d" % (ctx, j))
    ok, got = A.call(qt.calc_covariance_mat_total, q, list(n_list))
    out.ops += 1
    if not ok:
        cs.fail("calc_covariance_mat_total", "raises", "%s: %s" % (ctx, A.fmt_exc(got)))
    else:
        cs.matrix("calc_covariance_mat_total", "differs-from-exact-covariance", got, ex["cov_f_total"], floor, ctx)
    ok, got = A.call(qt.calc_mse_empi_dists_analytical, q, list(n_list))
    out.ops += 1
    if not ok:
        cs.fail("calc_mse_empi_dists_analytical", "raises", "%s: %s" % (ctx, A.fmt_exc(got)))
    else:
        cs.scalar("calc_mse_empi_dists_analytical", "differs-from-exact-mse", got, ex["mse_f"], floor, ctx)
    for name in ("calc_covariance_linear_mat_total", "calc_mse_linear_analytical"):
        ok, got = A.call(getattr(qt, name), q, list(n_list))
        out.ops += 1
        if not ok:
            cs.fail(name, "raises", "%s: %s" % (ctx, A.fmt_exc(got)))


# ---------------------------------------------------------------------------------------------- family: joint

def ex_joint(p, seed):
    out = Out()
    S = M.Setup(p, seed)
    cs = Case(out, cfg_of(p), label_of(p) + " joint")
    est = estimator()
    out.nontrivial = any(q.max() < 1 - 1e-9 for q in S.probs)
    n_inner = 0
    E = {}
    digs = []
    for n_list in p["lists"]:
        ok, acc = M.joint_enumeration(S, est, n_list)
        out.ops += 1
        if not ok:
            cs.fail("LinearEstimator.calc_estimate_sequence", "raises", "n_list=%r: %s" % (n_list, A.fmt_exc(acc)))
            continue
        n_inner += acc["count"]
        out.count("joint_datasets", acc["count"])
        out.count("joint_lists")
        if acc["conv_err"] > 1e-11 * (1 + float(np.abs(S.x_true).max())):
            cs.fail("estimated_qoperation_sequence", "to_stacked_vector-differs-from-reference-parametrisation",
                    "n_list=%r: max deviation %.3g" % (n_list, acc["conv_err"]))
        cov_f = acc["S2_f"] - np.outer(acc["mean_f"], acc["mean_f"])
        blocks, k = [], 0
        for m in S.M:
            blocks.append(cov_f[k:k + m, k:k + m])
            k += m
        ex = {"cov_f_blocks": blocks, "cov_f_total": cov_f, "cov_v": acc["S2_v"] - np.outer(acc["mean_v"], acc["mean_v"]),
              "mse_v": float(np.trace(acc["S2_v"])), "mse_o": acc["mse_o"], "mse_f": acc["mse_f"]}
        off = cov_f - block_diag(blocks)
        if np.abs(off).max() < 1e-13:
            out.count("joint_cross_blocks_zero")
        check_list(cs, S, "joint", n_list, ex)
        # the composition used by the per-schedule family must reproduce the joint enumeration
        for j, n in enumerate(n_list):
            if (j, n) not in E:
                ok, e = M.enum_schedule(S, est, j, n)
                if ok:
                    E[(j, n)] = e
        if all((j, n) in E for j, n in enumerate(n_list)):
            cmp_ = exact_from_schedules(S, E, n_list)
            bad = False
            for key in ("mse_v", "mse_o", "mse_f"):
                if abs(cmp_[key] - ex[key]) > 1e-10 * max(abs(ex[key]), 1e-9):
                    bad = True
            if np.abs(cmp_["cov_v"] - ex["cov_v"]).max() > 1e-10 * max(float(np.abs(ex["cov_v"]).max()), 1e-9):
                bad = True
            out.count("additivity_mismatch" if bad else "composition_equals_joint")
        digs.append(A.digest(acc["S2_v"], acc["S2_f"]))
    inner(out, n_inner, n_inner if out.nontrivial else 0)
    out.digest = "".join(digs)[:48]
    out.outcome = "ok" if not out.fails else "fail"
    return out


# ---------------------------------------------------------------------------------------------- family: fisher

def weight_lists(S):
    ws = [[1.0] * S, [(1 + (2 * j) % 5) / 7.0 for j in range(S)], [0.5 ** (j % 4) for j in range(S)]]
    if S > 1:
        ws.append([0.0 if j == 0 else 1.0 + j for j in range(S)])
    return ws


def crb_lists(S):
    ls = [[1] * S, [8] * S, [1000] * S]
    if S > 1:
        ls += [[1 + (j + r) % 8 for j in range(S)] for r in (0, 3)]
        ls.append([BIG[j % 3] for j in range(S)])
    return ls


def ex_fisher(p, seed):
    out = Out()
    S = M.Setup(p, seed)
    cs = Case(out, cfg_of(p), label_of(p))
    qt = S.qt
    if S.min_prob < PROB_MARGIN:
        out.count("fisher_skipped_small_prob")
        out.nontrivial = False
        out.outcome = "skipped:min-probability-below-margin"
        return out
    nv = S.nv
    Fs = []
    n_inner = 0
    for j in range(S.S):
        G, pj = S.G[j], S.probs[j]
        textbook = np.zeros((nv, nv))
        score = np.zeros((nv, nv))
        for x in range(S.M[j]):                       # complete enumeration of the one-shot outcomes
            textbook += np.outer(G[x], G[x]) / pj[x]
            s = G[x] / pj[x]
            score += pj[x] * np.outer(s, s)
            n_inner += 1
        if np.abs(textbook - score).max() > 1e-12 * max(1.0, float(np.abs(textbook).max())):
            raise AssertionError("harness: score expectation and textbook Fisher sum differ")
        Fs.append(textbook)
        for label, arg in (("qoperation", S.qope), ("ndarray", S.v_true.copy())):
            ok, got = A.call(qt.calc_fisher_matrix, j, arg)
            out.ops += 1
            if not ok:
                cs.fail("calc_fisher_matrix:arg=%s" % label, "raises", "schedule %d: %s" % (j, A.fmt_exc(got)))
            else:
                out.count("fisher_checked:%s:%s" % (S.tomo, S.flag))
                cs.matrix("calc_fisher_matrix:arg=%s" % label, "differs-from-expected-score-outer-product", got, score, 1e-9,
                          "schedule %d" % j)
    for w in weight_lists(S.S):
        exact = sum(wj * Fj for wj, Fj in zip(w, Fs))
        ok, got = A.call(qt.calc_fisher_matrix_total, S.qope, list(w))
        out.ops += 1
        n_inner += 1
        if not ok:
            cs.fail("calc_fisher_matrix_total", "raises", "weights=%r: %s" % (w, A.fmt_exc(got)))
        else:
            cs.matrix("calc_fisher_matrix_total", "differs-from-weighted-sum", got, exact, 1e-9, "weights=%r" % (w,))
    for list_N in crb_lists(S.S):
        Ftot = sum(n * Fj for n, Fj in zip(list_N, Fs))
        cond = float(np.linalg.cond(Ftot))
        if not np.isfinite(cond) or cond > 1e8:
            out.count("crb_skipped_ill_conditioned")
            continue
        # forward error of an inverse ~ cond x machine epsilon: 1e-9 up to cond 1e5, 100 x cond x eps beyond
        tol = max(TOL, cond * 1e-14)
        Finv = np.linalg.inv(Ftot)
        crb_var = float(np.trace(Finv))
        crb_obj = float(np.trace(S.J @ Finv @ S.J.T))
        # the library documents the object-level bound for POVM tomography (implied last element); for states and
        # gates the implied part is constant so both levels coincide
        if S.tomo in ("qst", "qpt") and abs(crb_obj - crb_var) > 1e-12 * crb_var:
            raise AssertionError("harness: object- and variable-level bounds must coincide for %s" % S.tomo)
        for N in (sum(list_N), list_N[0], 1, 10 ** 6):
            for label, arg in (("qoperation", S.qope), ("ndarray", S.v_true.copy())):
                ok, got = A.call(qt.calc_cramer_rao_bound, arg, N, list(list_N))
                out.ops += 1
                n_inner += 1
                ctx = "N=%r list_N=%r arg=%s (variable-level %.12g, object-level %.12g, cond %.3g)" % (
                    N, list_N, label, crb_var, crb_obj, cond)
                if not ok:
                    cs.fail("calc_cramer_rao_bound", "raises", "%s: %s" % (ctx, A.fmt_exc(got)))
                    continue
                floor = 1e-12
                out.count("crb_checked:%s:%s" % (S.tomo, S.flag))
                # the bound the library plots next to object-level mean squared errors: Tr J F^-1 J^T with J the Jacobian
                # of the object w.r.t. the variables (= Tr F^-1 whenever the implied part is constant: states, gates, flag False)
                gap = (crb_obj - crb_var) / crb_var
                if gap <= tol:                          # both levels coincide (states, gates, flag False)
                    cs.scalar("calc_cramer_rao_bound", "differs-from-trace-of-inverse-fisher", got, crb_obj, floor, ctx, tol=tol)
                elif gap > 10 * tol:                    # the implied part of the object has a resolvable contribution
                    what = "differs-from-object-level-bound"
                    if np.isscalar(got) and abs(float(got) - crb_var) <= tol * crb_var:
                        what = "returns-variable-level-bound-implied-part-omitted"
                    if cs.scalar("calc_cramer_rao_bound", what, got, crb_obj, floor, ctx, tol=tol):
                        out.count("crb_implied_term_effective:%s" % S.tomo)
                else:
                    out.count("crb_levels_not_resolvable")
    inner(out, n_inner)
    out.digest = A.digest(*Fs)
    out.outcome = "ok" if not out.fails else "fail"
    return out


# ---------------------------------------------------------------------------------------------- family: helpers

def arrays012(shape):
    n = int(np.prod(shape))
    for vals in itertools.product((0.0, 1.0, 2.0), repeat=n):
        yield np.array(vals).reshape(shape)


def hfail(out, seen, site, what, cls, msg):
    sig = "%s:%s:%s" % (site, what, cls)
    if sig in seen:
        return
    seen.add(sig)
    out.fail(sig, msg)


def ex_helpers(p, seed):
    from quara.utils import matrix_util as mu
    out = Out()
    seen = set()
    which = p["helper"]
    n = 0
    if which == "calc_se":
        for L, k in ((1, 1), (1, 2), (2, 1), (2, 2), (1, 3)):
            pool = list(arrays012((L, k)))
            for X in pool:
                for Y in pool:
                    n += 1
                    exact = float(sum((X[i][t] - Y[i][t]) ** 2 for i in range(L) for t in range(k)))
                    ok, got = A.call(mu.calc_se, [x for x in X], [y for y in Y])
                    out.ops += 1
                    out.traces += 1
                    if not ok or got != exact:
                        hfail(out, seen, "matrix_util.calc_se", "differs-from-sum-of-squares", "L=%d,k=%d" % (L, k),
                              "xs=%r ys=%r -> %r, exact %r" % (X, Y, got, exact))
        # complex entries (density matrices / POVM elements with a Y component): squared error = sum |x - y|^2
        vals = (0.0, 1.0, 1j, 1 - 1j)
        for L, k in ((1, 1), (1, 2), (2, 1)):
            pool = [np.array(c, dtype=np.complex128).reshape(L, k) for c in itertools.product(vals, repeat=L * k)]
            for X in pool:
                for Y in pool:
                    n += 1
                    exact = float(sum(abs(X[i][t] - Y[i][t]) ** 2 for i in range(L) for t in range(k)))
                    with warnings.catch_warnings():
                        warnings.simplefilter("ignore")
                        ok, got = A.call(mu.calc_se, [x for x in X], [y for y in Y])
                    out.ops += 1
                    out.traces += 1
                    out.count("calc_se_complex_inputs")
                    if not ok or abs(complex(got) - exact) > 1e-12:
                        hfail(out, seen, "matrix_util.calc_se", "differs-from-sum-of-squared-moduli:complex", "L=%d,k=%d" % (L, k),
                              "xs=%r ys=%r -> %r, exact %r" % (X.tolist(), Y.tolist(), got, exact))
    elif which == "calc_mse_prob_dists":
        # R repetitions, each a list of L arrays of length k; se of one repetition is decided by the difference pattern
        for Rn, L, k in ((1, 1, 2), (2, 1, 2), (3, 1, 1), (2, 2, 1), (3, 2, 1)):
            pool = list(arrays012((L, k)))
            ys = [np.ones(k) for _ in range(L)]
            for combo in itertools.product(range(len(pool)), repeat=Rn):
                n += 1
                xs_list = [[x for x in pool[c]] for c in combo]
                ys_list = [ys] * Rn
                ses = [float(sum((pool[c][i][t] - 1.0) ** 2 for i in range(L) for t in range(k))) for c in combo]
                mean = sum(ses) / Rn
                ok, got = A.call(mu.calc_mse_prob_dists, xs_list, ys_list)
                out.ops += 1
                out.traces += 1
                cls = "R=%d,L=%d,k=%d" % (Rn, L, k)
                if not ok:
                    hfail(out, seen, "matrix_util.calc_mse_prob_dists", "raises", cls, A.fmt_exc(got))
                    continue
                if abs(got[0] - mean) > 1e-12 * max(1.0, mean):
                    hfail(out, seen, "matrix_util.calc_mse_prob_dists", "mean-differs", cls, "ses=%r -> %r" % (ses, got))
                if Rn > 1:
                    sd = math.sqrt(sum((s - mean) ** 2 for s in ses) / (Rn - 1))
                    out.count("std_checked")
                    if abs(got[1] - sd) > 1e-12 * max(1.0, sd):
                        hfail(out, seen, "matrix_util.calc_mse_prob_dists", "sample-std-differs", cls, "ses=%r -> %r, exact %r" % (ses, got, sd))
    elif which == "calc_covariance_mat":
        from quara.data_analysis import data_analysis as da
        for k in (1, 2, 3):
            for q in arrays012((k,)):
                for nn in (1, 2, 3, 7):
                    n += 1
                    exact = np.array([[((q[a] if a == b else 0.0) - q[a] * q[b]) / nn for b in range(k)] for a in range(k)])
                    for name, fn in (("matrix_util.calc_covariance_mat", mu.calc_covariance_mat),
                                     ("data_analysis.calc_covariance_matrix_of_prob_dist", da.calc_covariance_matrix_of_prob_dist)):
                        ok, got = A.call(fn, q.copy(), nn)
                        out.ops += 1
                        out.traces += 1
                        if not ok or np.asarray(got).shape != exact.shape or np.abs(got - exact).max() > 1e-15:
                            hfail(out, seen, name, "differs-from-definition", "k=%d" % k, "q=%r n=%d -> %r" % (q, nn, got))
        # on genuine distributions: the formula equals the enumerated covariance of the empirical distribution
        for k in (2, 3, 4):
            for c in R.compositions(4, k):
                q = np.array(c) / 4.0
                for nn in (1, 2, 3, 5):
                    n += 1
                    fs, pm = M.comps_and_pmf(nn, q)
                    df = fs / nn - q
                    exact = (df * pm[:, None]).T @ df
                    ok, got = A.call(mu.calc_covariance_mat, q.copy(), nn)
                    out.ops += 1
                    out.traces += 1
                    out.count("covariance_vs_enumeration")
                    if not ok or np.abs(got - exact).max() > 1e-14:
                        hfail(out, seen, "matrix_util.calc_covariance_mat", "differs-from-enumerated-covariance", "k=%d" % k,
                              "q=%r n=%d -> %r, exact %r" % (q, nn, got, exact))
    elif which == "calc_covariance_mat_total":
        from quara.data_analysis import data_analysis as da
        pool = [a for k in (1, 2) for a in arrays012((k,))] + [np.array([0.5, 0.25, 0.25]), np.array([1.0, 0.0, 0.0])]
        for Ln in (1, 2, 3):
            for combo in itertools.product(range(len(pool)), repeat=Ln):
                n += 1
                qs = [pool[c] for c in combo]
                ns = [1 + (i * 2 + combo[0]) % 3 for i in range(Ln)]
                blocks = [np.array([[((q[a] if a == b else 0.0) - q[a] * q[b]) / nn for b in range(len(q))] for a in range(len(q))])
                          for q, nn in zip(qs, ns)]
                exact = block_diag(blocks)
                ok, got = A.call(mu.calc_covariance_mat_total, [(nn, q.copy()) for q, nn in zip(qs, ns)])
                out.ops += 1
                out.traces += 1
                if not ok or np.asarray(got).shape != exact.shape or np.abs(got - exact).max() > 1e-15:
                    hfail(out, seen, "matrix_util.calc_covariance_mat_total", "differs-from-direct-sum", "len=%d" % Ln,
                          "dists=%r ns=%r -> %r" % (qs, ns, got))
                if len({len(q) for q in qs}) > 1:
                    out.count("unequal_lengths_direct_sum")
                nn = ns[0]
                exact2 = block_diag([b * (n_ / nn) for b, n_ in zip(blocks, ns)])
                ok, got = A.call(da.calc_covariance_matrix_of_prob_dists, [q.copy() for q in qs], nn)
                out.ops += 1
                out.traces += 1
                if not ok or np.asarray(got).shape != exact2.shape or np.abs(got - exact2).max() > 1e-14:
                    hfail(out, seen, "data_analysis.calc_covariance_matrix_of_prob_dists", "differs-from-direct-sum", "len=%d" % Ln,
                          "dists=%r n=%r -> %r" % (qs, nn, got))
    elif which == "calc_direct_sum":
        m1 = list(arrays012((1, 1)))
        m2 = list(arrays012((2, 2)))
        m2s = [a for a in m2 if a.max() <= 1.0]
        plans = [[m1 + m2], [m1 + m2, m1 + m2], [m1 + m2s, m1 + m2s, m1 + m2s]]
        for pools in plans:
            for combo in itertools.product(*pools):
                n += 1
                exact = block_diag(list(combo))
                ok, got = A.call(mu.calc_direct_sum, [c.copy() for c in combo])
                out.ops += 1
                out.traces += 1
                if not ok or np.asarray(got).shape != exact.shape or not np.array_equal(got, exact):
                    hfail(out, seen, "matrix_util.calc_direct_sum", "differs-from-block-diagonal", "len=%d" % len(combo),
                          "blocks=%r -> %r" % (combo, got))
        # documented rejections
        for bad, cls in ((np.array([1.0, 2.0]), "ndim=1"), (np.ones((2, 2, 2)), "ndim=3")):
            ok, got = A.call(mu.calc_direct_sum, [np.eye(2), bad])
            out.ops += 1
            n += 1
            if ok or not isinstance(got, ValueError):
                hfail(out, seen, "matrix_util.calc_direct_sum", "non-matrix-not-rejected", cls, "-> %r" % (got,))
            else:
                out.count("direct_sum_rejections")
        for shape in ((2, 1), (1, 2), (2, 3), (3, 2)):
            for pos in (0, 1):
                blocks = [np.eye(2), np.eye(2)]
                blocks[pos] = np.arange(1.0, 1.0 + shape[0] * shape[1]).reshape(shape)
                ok, got = A.call(mu.calc_direct_sum, blocks)
                out.ops += 1
                n += 1
                if ok or not isinstance(got, ValueError):
                    hfail(out, seen, "matrix_util.calc_direct_sum", "non-square-block-not-rejected", "shape=%dx%d" % shape,
                          "documented ValueError for non-square blocks; blocks=%r -> %r" % (blocks, got))
                else:
                    out.count("direct_sum_rejections")
    elif which == "calc_conjugate":
        for r, k in ((1, 1), (2, 1), (1, 2), (2, 2), (3, 2)):
            xs = list(arrays012((r, k)))
            vs = list(arrays012((k, k)))
            if r == 3:
                xs = [x for x in xs if x.max() <= 1.0]
            for x in xs:
                for v in vs:
                    n += 1
                    exact = np.array([[sum(x[a, i] * v[i, j] * x[b, j] for i in range(k) for j in range(k)) for b in range(r)]
                                      for a in range(r)])
                    ok, got = A.call(mu.calc_conjugate, x.copy(), v.copy())
                    out.ops += 1
                    out.traces += 1
                    if not ok or np.asarray(got).shape != exact.shape or not np.array_equal(got, exact):
                        hfail(out, seen, "matrix_util.calc_conjugate", "differs-from-x-v-xT", "shape=%dx%d" % (r, k),
                              "x=%r v=%r -> %r" % (x, v, got))
    elif which == "calc_left_inv":
        for shape in ((1, 1), (2, 1), (3, 1), (2, 2), (3, 2)):
            for X in arrays012(shape):
                n += 1
                gram = X.T @ X
                det = round(float(np.linalg.det(gram)))          # integer Gram determinant decides the rank exactly
                ok, got = A.call(mu.calc_left_inv, X.copy())
                out.ops += 1
                out.traces += 1
                cls = "shape=%dx%d" % shape
                if det == 0:
                    if ok or not isinstance(got, ValueError):
                        hfail(out, seen, "matrix_util.calc_left_inv", "rank-deficient-not-rejected", cls, "X=%r -> %r" % (X, got))
                    else:
                        out.count("left_inv_rejected")
                else:
                    if not ok:
                        hfail(out, seen, "matrix_util.calc_left_inv", "raises-on-full-rank", cls, "X=%r: %s" % (X, A.fmt_exc(got)))
                        continue
                    out.count("left_inv_accepted")
                    exact = np.linalg.solve(gram, X.T)
                    if got.shape != exact.shape or np.abs(got @ X - np.eye(shape[1])).max() > 1e-11 or np.abs(got - exact).max() > 1e-11:
                        hfail(out, seen, "matrix_util.calc_left_inv", "not-the-left-inverse", cls, "X=%r -> %r" % (X, got))
    elif which == "replace_prob_dist":
        for k in (2, 3, 4):
            for tot in (1, 2, 4):
                for c in R.compositions(tot, k):
                    base = np.array(c) / float(tot)
                    for tiny in (0.0, 1e-9, 5e-9):
                        # move `tiny` mass from the largest entry to every zero entry (below the threshold 1e-8)
                        q = base.copy()
                        z = np.where(base == 0)[0]
                        q[z] = tiny
                        q[int(np.argmax(base))] -= tiny * len(z)
                        for eps in (None, 1e-8, 1e-3):
                            n += 1
                            e = 1e-8 if eps is None else eps
                            low = q < e
                            cnt = int(low.sum())
                            if cnt == k:
                                continue
                            exact = np.where(low, e, q - e * cnt / (k - cnt))
                            ok, got = A.call(mu.replace_prob_dist, q.copy()) if eps is None else A.call(mu.replace_prob_dist, q.copy(), eps)
                            out.ops += 1
                            out.traces += 1
                            cls = "k=%d" % k
                            if not ok:
                                hfail(out, seen, "matrix_util.replace_prob_dist", "raises", cls, "q=%r eps=%r: %s" % (q, eps, A.fmt_exc(got)))
                                continue
                            if cnt:
                                out.count("replace_replaced")
                            else:
                                out.count("replace_untouched")
                                if not np.array_equal(got, q):
                                    hfail(out, seen, "matrix_util.replace_prob_dist", "changes-distribution-without-small-entries", cls,
                                          "q=%r eps=%r -> %r" % (q, eps, got))
                            if np.abs(got - exact).max() > 1e-15 or abs(got.sum() - (q[~low].sum() + e * cnt - e * cnt)) > 1e-12:
                                hfail(out, seen, "matrix_util.replace_prob_dist", "differs-from-definition", cls,
                                      "q=%r eps=%r -> %r, exact %r" % (q, eps, got, exact))
    elif which == "calc_fisher_matrix":
        for k in (2, 3):
            for tot in (2, 4, 5):
                for c in R.compositions(tot, k):
                    if min(c) == 0:
                        continue
                    q = np.array(c) / float(tot)
                    for nvar in (1, 2):
                        for G in arrays012((k, nvar)):
                            n += 1
                            exact = np.zeros((nvar, nvar))
                            score = np.zeros((nvar, nvar))
                            for x in range(k):
                                exact += np.outer(G[x], G[x]) / q[x]
                                score += q[x] * np.outer(G[x] / q[x], G[x] / q[x])
                            ok, got = A.call(mu.calc_fisher_matrix, q.copy(), [g.copy() for g in G])
                            out.ops += 1
                            out.traces += 1
                            if not ok or np.abs(got - exact).max() > 1e-9 * max(1.0, np.abs(exact).max()) or \
                                    np.abs(got - score).max() > 1e-9 * max(1.0, np.abs(exact).max()):
                                hfail(out, seen, "matrix_util.calc_fisher_matrix", "differs-from-textbook-sum", "k=%d,nvar=%d" % (k, nvar),
                                      "p=%r grad=%r -> %r, exact %r" % (q, G, got, exact))
                    # total: two distributions, weights; number of variables equal to / different from the outcome count
                    q2 = q[::-1].copy()
                    for nvar in (1, 2, 3):
                        G1 = np.arange(1.0, 1.0 + nvar * k).reshape(k, nvar) % 3
                        G2 = (np.arange(2.0, 2.0 + nvar * k).reshape(k, nvar) * 2) % 3
                        for w in ([1.0, 1.0], [0.25, 3.0], [0.0, 1.0]):
                            n += 1
                            exact = np.zeros((nvar, nvar))
                            for x in range(k):
                                exact += w[0] * np.outer(G1[x], G1[x]) / q[x] + w[1] * np.outer(G2[x], G2[x]) / q2[x]
                            ok, got = A.call(mu.calc_fisher_matrix_total, [q.copy(), q2], [list(G1), list(G2)], list(w))
                            out.ops += 1
                            out.traces += 1
                            cls = "outcomes%svariables" % ("=" if k == nvar else "!=")
                            if not ok:
                                hfail(out, seen, "matrix_util.calc_fisher_matrix_total", "raises", cls,
                                      "k=%d outcomes, %d variables: p=%r,%r w=%r: %s" % (k, nvar, q, q2, w, A.fmt_exc(got)))
                            elif np.asarray(got).shape != exact.shape or np.abs(got - exact).max() > 1e-9 * max(1.0, np.abs(exact).max()):
                                hfail(out, seen, "matrix_util.calc_fisher_matrix_total", "differs-from-weighted-sum", cls,
                                      "k=%d outcomes, %d variables: p=%r,%r w=%r -> %r, exact %r" % (k, nvar, q, q2, w, got, exact))
                            else:
                                out.count("fisher_total_helper_ok")
    elif which == "calc_mse_general_norm":
        from quara.data_analysis import data_analysis as da
        norms = {"l2": lambda x, y: math.sqrt(float(sum((a - b) ** 2 for a, b in zip(x, y)))),
                 "l1": lambda x, y: float(sum(abs(a - b) for a, b in zip(x, y)))}
        for Rn, k in ((1, 1), (1, 2), (2, 1), (2, 2), (3, 1)):
            pool = list(arrays012((k,)))
            for combo in itertools.product(range(len(pool)), repeat=Rn):
                for y in pool:
                    for nm, fn in norms.items():
                        n += 1
                        exact = sum(fn(pool[c], y) ** 2 for c in combo) / Rn
                        ok, got = A.call(da.calc_mse_general_norm, [pool[c].copy() for c in combo], y.copy(), fn)
                        out.ops += 1
                        out.traces += 1
                        if not ok or abs(got - exact) > 1e-12 * max(1.0, exact):
                            hfail(out, seen, "data_analysis.calc_mse_general_norm", "differs-from-mean-of-squared-norms",
                                  "R=%d,k=%d,%s" % (Rn, k, nm), "xs=%r y=%r -> %r, exact %r" % ([pool[c] for c in combo], y, got, exact))
    elif which == "calc_mse_qoperations":
        from quara.data_analysis import data_analysis as da
        c_sys = A.make_system("Q1")
        B = R.basis_mats(c_sys)
        for kind, ref, ctor in (("state", A.states_ref(2, seed), A.q_state), ("povm", {k: v for k, v in A.povms_ref(2, seed).items() if len(v) == 3}, A.q_povm),
                                ("gate", {k: v for k, v in A.gates_ref(2, seed).items() if k in ("identity", "unitary_generic", "ampdamp", "depolarizing")}, A.q_gate),
                                ("mprocess", {k: v for k, v in A.instruments_ref(2, seed).items() if len(v) == 2}, A.q_mprocess)):
            names = sorted(ref)
            for flag in (False, True):
                objs = {k: ctor(c_sys, ref[k], on_para_eq_constraint=flag) for k in names}
                vecs = {k: M.stacked_of(kind, ref[k], B) for k in names}
                for Rn in (1, 2, 3):
                    for combo in itertools.product(names, repeat=Rn):
                        for yname in names:
                            n += 1
                            pts = [float(((vecs[c] - vecs[yname]) ** 2).sum()) for c in combo]
                            mean = sum(pts) / Rn
                            cls = "%s:flag=%s:R=%d" % (kind, flag, Rn)
                            ok, got = A.call(da.calc_mse_qoperations, [objs[c] for c in combo], [objs[yname]] * Rn, with_std=False)
                            out.ops += 1
                            out.traces += 1
                            if not ok or abs(got - mean) > 1e-12 * max(1.0, mean):
                                hfail(out, seen, "data_analysis.calc_mse_qoperations", "mean-differs", cls,
                                      "xs=%r y=%s -> %r, exact %r" % (combo, yname, got, mean))
                            if Rn > 1:
                                sd = math.sqrt(sum((s - mean) ** 2 for s in pts) / (Rn - 1))
                                ok, got = A.call(da.calc_mse_qoperations, [objs[c] for c in combo], [objs[yname]] * Rn)
                                out.ops += 1
                                out.count("std_checked")
                                if not ok or abs(got[0] - mean) > 1e-12 * max(1.0, mean) or abs(got[1] - sd) > 1e-11 * max(1.0, sd):
                                    hfail(out, seen, "data_analysis.calc_mse_qoperations", "mean-or-sample-std-differs", cls,
                                          "xs=%r y=%s -> %r, exact %r" % (combo, yname, got, (mean, sd)))
                ok, got = A.call(da.calc_mse_qoperations, [objs[names[0]]], [objs[names[0]]], mode="bogus")
                out.ops += 1
                if ok or not isinstance(got, ValueError):
                    hfail(out, seen, "data_analysis.calc_mse_qoperations", "unknown-mode-not-rejected", kind, "-> %r" % (got,))
    else:
        raise ValueError(which)
    out.count("helper_inputs", n)
    inner(out, max(0, n - 1))
    out.outcome = "ok" if not out.fails else "fail"
    out.digest = A.digest(np.array([n, out.ops]))
    return out


# ---------------------------------------------------------------------------------------------- families

Q1_STATES = ["z0", "pure_generic", "pure_fourier", "mixed_generic", "maxmixed", "aligned_x0", "nearly_aligned_x0"]
Q1_POVMS = {2: ["generic_m2", "rank1_m2", "projective_m2", "comp_m2", "aligned_pz"], 3: ["generic_m3", "rank1_m3", "withzero_m3"],
            4: ["generic_m4", "rank1_m4", "withzero_m4"]}
Q1_GATES = ["identity", "unitary_generic", "unitary_fourier", "dephasing", "ampdamp", "kraus_generic_r2", "kraus_generic_r4", "depolarizing"]
Q1_INSTR = {2: ["luders_m2", "feedback_m2", "multikraus_m2", "comp_m2"], 3: ["luders_m3", "feedback_m3", "multikraus_m3"]}


def base_configs(tier):
    """[(params without 'true'/'flag', [true names])]"""
    th = tier == "thorough"
    cfgs = []
    for pv in ("m2", "m2x4", "m3", "m3x3", "m4", "m4x2"):
        cfgs.append(({"tomo": "qst", "sys": "Q1", "povms": pv}, Q1_STATES))
    cfgs.append(({"tomo": "qst", "sys": "Q1", "povms": "m2", "sched": "perm"}, Q1_STATES))
    for st in ("s4", "s5"):
        for m in (2, 3, 4):
            cfgs.append(({"tomo": "povmt", "sys": "Q1", "states": st, "m": m}, Q1_POVMS[m]))
    qpt = [("s4", "m2"), ("s4", "m3"), ("s4", "m4"), ("s4", "m4x2"), ("s5", "m2"), ("s5", "m4")]
    if th:
        qpt += [("s5", "m3"), ("s5", "m4x2"), ("s4", "m3x3"), ("s4", "m2x4")]
    for st, pv in qpt:
        cfgs.append(({"tomo": "qpt", "sys": "Q1", "states": st, "povms": pv}, Q1_GATES))
    cfgs.append(({"tomo": "qpt", "sys": "Q1", "states": "s4", "povms": "m4", "sched": "perm"}, Q1_GATES))
    qmpt = [("s4", "m2"), ("s4", "m3"), ("s4", "m4"), ("s5", "m4")]
    if th:
        qmpt += [("s5", "m2"), ("s5", "m3"), ("s4", "m4x2")]
    for st, pv in qmpt:
        for m in (2, 3):
            cfgs.append(({"tomo": "qmpt", "sys": "Q1", "states": st, "povms": pv, "m": m}, Q1_INSTR[m]))
    if th:
        q3_states = ["z0", "pure_generic", "pure_fourier", "mixed_generic", "boundary_generic", "maxmixed"]
        for pv in ("mub3", "mub4", "proj9"):
            cfgs.append(({"tomo": "qst", "sys": "Q3", "povms": pv}, q3_states))
        for st in ("g9", "g10"):
            for m, names in ((2, ["generic_m2", "projective_m2"]), (3, ["generic_m3", "rank1_m3", "projective_m3", "withzero_m3", "comp_m3"]),
                             (4, ["generic_m4", "rank1_m4", "withzero_m4"])):
                cfgs.append(({"tomo": "povmt", "sys": "Q3", "states": st, "m": m}, names))
        cfgs.append(({"tomo": "qpt", "sys": "Q3", "states": "g9", "povms": "mub3"}, ["identity", "unitary_generic", "ampdamp", "depolarizing"]))
        cfgs.append(({"tomo": "qpt", "sys": "Q3", "states": "g10", "povms": "mub4"}, ["unitary_generic", "dephasing", "kraus_generic_r2"]))
        for pv in ("pauli9", "tetra16"):
            cfgs.append(({"tomo": "qst", "sys": "Q2", "povms": pv}, ["z0", "pure_generic", "pure_fourier", "mixed_generic", "boundary_generic", "maxmixed"]))
    return cfgs


def mixed_configs(tier):
    cfgs = []
    for pv in ("mixed234", "mixed23", "mixed42"):
        cfgs.append(({"tomo": "qst", "sys": "Q1", "povms": pv}, ["pure_generic", "mixed_generic", "maxmixed"]))
    for pv in ("mixed234", "mixed23"):
        cfgs.append(({"tomo": "qpt", "sys": "Q1", "states": "s4", "povms": pv}, ["unitary_generic", "ampdamp", "depolarizing"]))
    cfgs.append(({"tomo": "qmpt", "sys": "Q1", "states": "s4", "povms": "mixed23", "m": 2}, ["feedback_m2", "multikraus_m2"]))
    return cfgs


def expand(cfgs, **extra):
    out = []
    for base, truths in cfgs:
        for t in truths:
            for flag in (False, True):
                p = dict(base)
                p.update({"true": t, "flag": flag})
                p.update(extra)
                out.append(p)
    return out


def joint_plans(tier):
    """[(base params, truths, lists)] with the number of joint datasets per list within the tier's cap"""
    cap = 12000 if tier == "quick" else 70000
    plans = [
        ({"tomo": "qst", "sys": "Q1", "povms": "m2"}, Q1_STATES, [[1, 1, 1], [2, 2, 2], [3, 3, 3], [4, 4, 4], [1, 2, 3], [3, 1, 4], [4, 4, 1], [8, 8, 8]]),
        ({"tomo": "qst", "sys": "Q1", "povms": "m2", "sched": "perm"}, Q1_STATES, [[2, 2, 2, 2], [1, 2, 3, 4], [4, 3, 2, 4]]),
        ({"tomo": "qst", "sys": "Q1", "povms": "m2x4"}, Q1_STATES, [[2, 2, 2, 2], [1, 2, 3, 4], [4, 4, 4, 4]]),
        ({"tomo": "qst", "sys": "Q1", "povms": "m3"}, Q1_STATES, [[1, 1], [2, 2], [4, 4], [3, 4], [1, 4], [8, 8]]),
        ({"tomo": "qst", "sys": "Q1", "povms": "m3x3"}, Q1_STATES, [[2, 2, 2], [4, 4, 4], [1, 3, 4]]),
        ({"tomo": "qst", "sys": "Q1", "povms": "m4"}, Q1_STATES, [[1], [2], [4], [8]]),
        ({"tomo": "qst", "sys": "Q1", "povms": "m4x2"}, Q1_STATES, [[1, 1], [3, 3], [2, 4], [6, 6]]),
        ({"tomo": "povmt", "sys": "Q1", "states": "s4", "m": 2}, Q1_POVMS[2], [[1] * 4, [2] * 4, [3] * 4, [4] * 4, [1, 2, 3, 4], [8] * 4]),
        ({"tomo": "povmt", "sys": "Q1", "states": "s5", "m": 2}, Q1_POVMS[2], [[2] * 5, [4, 3, 2, 1, 2], [4] * 5]),
        ({"tomo": "povmt", "sys": "Q1", "states": "s4", "m": 3}, Q1_POVMS[3], [[1] * 4, [2] * 4, [1, 2, 1, 3], [3] * 4]),
        ({"tomo": "povmt", "sys": "Q1", "states": "s4", "m": 4}, Q1_POVMS[4], [[1] * 4, [2] * 4, [1, 1, 2, 3]]),
        ({"tomo": "qpt", "sys": "Q1", "states": "s4", "povms": "m4"}, Q1_GATES, [[1] * 4, [2] * 4, [1, 2, 1, 3]]),
        ({"tomo": "qpt", "sys": "Q1", "states": "s4", "povms": "m3"}, Q1_GATES, [[1] * 8, [2, 1, 1, 1, 1, 1, 1, 2]]),
        ({"tomo": "qpt", "sys": "Q1", "states": "s4", "povms": "m2"}, Q1_GATES, [[1] * 12, [2, 1, 1, 1, 1, 1, 1, 1, 1, 1, 1, 3]]),
        ({"tomo": "qmpt", "sys": "Q1", "states": "s4", "povms": "m4", "m": 2}, Q1_INSTR[2], [[1] * 4, [2, 1, 1, 1]]),
        ({"tomo": "qmpt", "sys": "Q1", "states": "s4", "povms": "m4", "m": 3}, Q1_INSTR[3], [[1] * 4]),
    ]
    res = []
    for base, truths, lists in plans:
        ms = schedule_outcomes(base)
        keep = [l for l in lists if len(l) == len(ms) and int(np.prod([M.n_comps(n, m) for n, m in zip(l, ms)])) <= cap]
        if keep:
            res.append((base, truths, keep))
    return res


def schedule_outcomes(base):
    """outcome count per schedule from the names only (no quara needed)"""
    t = base["tomo"]
    def pm(name):
        if name in M.Q1_POVM_SETS:
            return [M.Q1_POVM_M[k] for k in M.Q1_POVM_SETS[name]]
        return list(M.FIXED_POVM_SETS[name][1])
    def ns(name):
        return {"s4": 4, "s5": 5}.get(name) or int(name[1:])
    if t == "qst":
        ms = pm(base["povms"])
        if base.get("sched") == "perm":
            ms = ms[::-1] + [ms[0]]
        return ms
    if t == "povmt":
        return [base["m"]] * ns(base["states"])
    ms = [m for _ in range(ns(base["states"])) for m in pm(base["povms"])]
    if base.get("sched") == "perm":
        ms = ms[::-1] + [ms[0]]
    if t == "qmpt":
        ms = [m * base["m"] for m in ms]
    return ms


HELPERS = ["calc_se", "calc_mse_prob_dists", "calc_covariance_mat", "calc_covariance_mat_total", "calc_direct_sum", "calc_conjugate",
           "calc_left_inv", "replace_prob_dist", "calc_fisher_matrix", "calc_mse_general_norm", "calc_mse_qoperations"]


def families(tier, seed):
    cap = 2000 if tier == "quick" else 20000
    fams = []
    fams.append(("helpers", [{"helper": h} for h in HELPERS]))
    joint = []
    for base, truths, lists in joint_plans(tier):
        for t in truths:
            for flag in (False, True):
                p = dict(base)
                p.update({"true": t, "flag": flag, "lists": lists})
                joint.append(p)
    fams.append(("joint", joint))
    fams.append(("fisher", expand(base_configs(tier))))
    fams.append(("per_schedule", expand(base_configs(tier), cap=cap)))
    fams.append(("mixed_outcome_counts", expand(mixed_configs(tier), cap=cap)))
    return fams


def execute(family, params, seed):
    if family == "helpers":
        return ex_helpers(params, seed)
    if family == "joint":
        return ex_joint(params, seed)
    if family == "fisher":
        return ex_fisher(params, seed)
    if family == "per_schedule":
        return ex_persched(params, seed)
    if family == "mixed_outcome_counts":
        out = ex_persched(params, seed)
        out2 = ex_fisher({k: v for k, v in params.items() if k != "cap"}, seed)
        out.fails += out2.fails
        out.ops += out2.ops
        out.traces += out2.traces
        for k, v in out2.info.items():
            out.info["mixed_" + k if not k.startswith("_") else k] = out.info.get("mixed_" + k if not k.startswith("_") else k, 0) + v
        out.count("mixed_cases")
        out.outcome = "ok" if not out.fails else "fail"
        return out
    raise ValueError(family)


def guards(summary):
    g = []
    info = summary["info"]
    need = ["datasets", "joint_datasets", "joint_lists", "unequal_lists", "lists_equal", "lists_unequal", "lists_large", "lists_joint",
            "outcomes_2", "outcomes_3", "outcomes_4", "outcomes_5", "enum_n1", "enum_n8", "unbiased_by_enumeration",
            "scaling_law_verified", "additivity_verified", "composition_equals_joint", "joint_cross_blocks_zero",
            "zero_probability_seen", "fisher_skipped_small_prob", "implied_term_nonzero:povmt", "crb_implied_term_effective:povmt",
            "bad_mode_rejected", "mixed_cases", "helper_inputs", "left_inv_rejected", "left_inv_accepted", "replace_replaced",
            "replace_untouched", "std_checked", "covariance_vs_enumeration", "unequal_lengths_direct_sum", "direct_sum_rejections"]
    for t in ("qst", "povmt", "qpt", "qmpt"):
        for f in (False, True):
            need.append("fisher_checked:%s:%s" % (t, f))
            need.append("crb_checked:%s:%s" % (t, f))
            for mode in ("var", "qoperation", "default"):
                need.append("mse_checked:%s:%s:%s" % (t, f, mode))
    for k in need:
        if info.get(k, 0) < 1:
            g.append("never observed: %s" % k)
    for k in ("additivity_mismatch", "scaling_law_mismatch", "biased_estimates"):
        if info.get(k, 0) > 0:
            g.append("oracle precondition violated %d time(s): %s (the per-schedule composition is not valid for this estimator)" % (info[k], k))
    return g
