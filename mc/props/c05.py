"""C05 Physical projection returns the nearest physical object.

Lock-step monitor: every recorded Dykstra transition (p,q,x,y)_k -> (p,q,x,y)_{k+1} of every explored run is
re-derived with the reference projections; the stopping rule is checked on every recorded state.
End-to-end: result vs. the reference nearest point (reference Dykstra run to float precision and certified by
the KKT certificate of DESIGN section 3, complete over competitors), physicality, fixed points, order
independence, object-level == variable-level == closures.  Thorough: independent Clarabel solve.
"""
import math

import numpy as np

from mc import alphabet as A, refmodel as R
from mc.core import Out, inner, HarnessError
from mc.frames import frame

ID = "C05"
RULE = ("inputs per (type, m, system): every physical alphabet object, each of them displaced along 3 fixed directions by "
        "1e-3/1e-2/1e-1, far points (Hermitian-alphabet block tuples at norm 1..1e2) and their one-constraint projections; "
        "x both projection orders x eps in {1e-14,1e-10,1e-6} x {object level, variable level flag off/on}; "
        "non-trivial = the run needed more than one sweep; distinct = distinct (config, input, order, eps, routine)")
ASSUMPTIONS = ["the reference nearest point is the limit of a reference Dykstra iteration, accepted only when its KKT certificate "
               "(dual PSD, complementary slackness, feasibility) holds to 1e-7",
               "end-to-end accuracy constant C=20 in C*sqrt(eps) (observed ratio <= 1.5 on the unchanged tree)",
               "inputs outside the alphabet are not covered"]
BOUNDS = {"quick": "Q1: all types (m=2,3,4 povm; m=2,3 mprocess); Q3: state, povm m=2,3, gate, mprocess m=2; max_iteration 20000",
          "thorough": "adds Q2 state/povm m=2,3/gate/mprocess m=2, Q3 mprocess m=3, povm m=4 on Q3, Clarabel solve of every far/near input on Q1,Q3"}
CASE_TIMEOUT = 1500
CACC = 20.0
EPSS = (1e-14, 1e-10, 1e-6)
ORDERS = ("eq_ineq", "ineq_eq")
MAXIT = 20000


def plan(tier):
    out = [("state", "Q1", None), ("povm", "Q1", 2), ("povm", "Q1", 3), ("povm", "Q1", 4), ("gate", "Q1", None),
           ("mprocess", "Q1", 2), ("mprocess", "Q1", 3),
           ("state", "Q3", None), ("povm", "Q3", 2), ("povm", "Q3", 3), ("gate", "Q3", None), ("mprocess", "Q3", 2)]
    if tier == "thorough":
        out += [("povm", "Q3", 4), ("mprocess", "Q3", 3), ("state", "Q2", None), ("povm", "Q2", 2), ("povm", "Q2", 3),
                ("gate", "Q2", None), ("mprocess", "Q2", 2)]
    return out


def physical_points(F, seed):
    """dict name -> stacked vector of a physical object"""
    d = F.d
    out = {}
    if F.kind == "state":
        for n, rho in A.states_ref(d, seed).items():
            out[n] = F.from_blocks([rho])
    elif F.kind == "povm":
        for n, Ms in A.povms_ref(d, seed, ms=(F.m,)).items():
            if len(Ms) == F.m:
                out[n] = F.from_blocks(Ms)
    elif F.kind == "gate":
        for n, ks in A.gates_ref(d, seed).items():
            if n in ("identity", "unitary_generic", "ampdamp", "kraus_generic_r2", "depolarizing"):
                out[n] = F.from_blocks([R.choi_from_action(lambda X, ks=ks: R.kraus_apply(ks, X), d)])
    else:
        for n, inst in A.instruments_ref(d, seed, ms=(F.m,)).items():
            if len(inst) == F.m:
                out[n] = F.from_blocks([R.choi_from_action(lambda X, ks=ks: R.kraus_apply(ks, X), d) for ks in inst])
    return out


def directions(F, seed):
    n = F.n
    a = R.angles(seed, n, salt=7)
    g = np.array([math.cos(5 * a[i] + 0.3 * i) for i in range(n)])
    g /= np.linalg.norm(g)
    h = np.array([math.sin(3 * a[i] + 1.1 * i) for i in range(n)])
    h /= np.linalg.norm(h)
    t = np.zeros(n)
    t[0] = 1.0        # changes the trace / first coefficient
    if F.kind == "mprocess":
        t[(F.m - 1) * F.D * F.D] = -0.5
    return {"generic1": g, "generic2": h, "trace": t}


def far_points(F, seed, tier):
    bd = F.block_dim()
    sp = A.spectra(bd)
    eb = A.eigenbases(bd, seed)
    pats = [("one_negative", "generic"), ("mixed_sign", "fourier"), ("all_negative", "generic"), ("degenerate", "id")]
    out = {}
    for (s, b) in pats:
        for sc in (1.0, 10.0, 100.0):
            if sc == 100.0 and s in ("all_negative", "degenerate"):
                continue
            blocks = [sc * (1 + 0.5 * k) * R.hermitian_from(sp[s], eb[b if k % 2 == 0 else "generic"]) for k in range(F.nblocks())]
            x = F.from_blocks(blocks)
            x = x * (sc / max(1e-300, np.linalg.norm(x)))     # norm exactly 1, 10, 100
            out["far:%s/%s/%g" % (s, b, sc)] = x
    return out


def inputs_for(F, seed, tier):
    """ordered dict name -> x0"""
    out = {}
    phys = physical_points(F, seed)
    for n, x in phys.items():
        out["phys:" + n] = x
    dirs = directions(F, seed)
    names = list(phys)[:3] if tier == "quick" else list(phys)
    for n in names:
        for dn, dv in dirs.items():
            for delta in (1e-3, 1e-2, 1e-1):
                out["near:%s+%g*%s" % (n, delta, dn)] = phys[n] + delta * dv
    far = far_points(F, seed, tier)
    for n, x in far.items():
        out[n] = x
    for n, x in list(far.items())[:4]:
        out["eqonly:" + n] = F.PA(x)
        out["ineqonly:" + n] = F.PB(x)
    return out


_INPUTS = {}


def all_inputs(F, cfg, seed):
    if (cfg, seed) not in _INPUTS:
        _INPUTS[(cfg, seed)] = inputs_for(F, seed, "thorough")
    return _INPUTS[(cfg, seed)]


def families(tier, seed):
    cases = []
    for kind, sysname, m in plan(tier):
        F = frame(kind, sysname, m)
        for name in inputs_for(F, seed, tier):
            cases.append({"kind": kind, "sys": sysname, "m": m, "input": name})
    fams = [("dykstra", cases)]
    # the same runs on a composite system whose cached tables were built, then ONE of them dropped (it is rebuilt lazily by the run)
    hist = []
    seen = set()
    for c in cases:
        key = (c["kind"], c["sys"], c["m"])
        if key in seen or c["input"].startswith("phys:") or (tier == "quick" and c["sys"] not in ("Q1", "Q3")):
            continue
        seen.add(key)
        for d in DELETERS:
            hist.append(dict(c, history=d))
    fams.append(("dykstra_after_cache_delete", hist))
    if tier == "thorough":
        sel = [c for c in cases if c["sys"] in ("Q1", "Q3") and not c["input"].startswith("phys:")]
        fams.append(("clarabel", sel))
    return fams


DELETERS = ("delete_dict_from_hs_to_choi", "delete_dict_from_choi_to_hs", "delete_basis_T_sparse", "delete_basisconjugate_sparse",
            "delete_basisconjugate_basis_sparse", "delete_basis_basisconjugate_T_sparse", "delete_basis_basisconjugate_T_sparse_from_1",
            "delete_basishermitian_basis_T_from_1")


def guards(summary):
    g = []
    info = summary["info"]
    for k in ("steps_checked", "multi_sweep_runs", "already_physical_inputs", "clipped_runs", "order_pairs", "var_level_runs",
              "closure_runs", "maxiter_said_so", "runs_after_cache_delete"):
        if info.get(k, 0) < 1:
            g.append("never seen: " + k)
    return g


# ---------------------------------------------------------------- reference nearest point

_REF = {}


def ref_projection(F, x0, key):
    if key in _REF:
        return _REF[key]
    x = np.array(x0, float)
    p = np.zeros_like(x)
    q = np.zeros_like(x)
    last = None
    for k in range(400000):
        y = F.PA(x + p)
        pn = x + p - y
        xn = F.PB(y + q)
        qn = y + q - xn
        err = float(np.sum((p - pn) ** 2 + (q - qn) ** 2))
        x, p, q = xn, pn, qn
        if k >= 1 and (err < 1e-30 * max(1.0, float(x0 @ x0)) or err == last == 0.0):
            break
        last = err
    xs = F.PA(x)   # land on the affine set exactly; PSD defect of this point is ~1e-15
    scale = max(1.0, float(np.abs(x0).max()))
    c = F.certificate(x0, xs)
    good = (c["eq_res"] <= 1e-9 * scale and c["primal_min_eig"] >= -1e-9 * scale and c["dual_min_eig"] >= -1e-7 * scale
            and c["slack"] <= 1e-7 * scale * scale)
    _REF[key] = (xs, good, {k2: v for k2, v in c.items() if k2 != "y"})
    return _REF[key]


def crit(p0, p1, q0, q1):
    return float(np.sum((p0 - p1) ** 2 + (q0 - q1) ** 2))


def lockstep(out, F, hist, x_in, order, eps, maxit, conv, site, scale):
    """conv: function turning a history entry into a stacked vector"""
    ps = [conv(v) for v in hist["p"]]
    qs = [conv(v) for v in hist["q"]]
    xs = [conv(v) for v in hist["x"]]
    ys = [None] + [conv(v) for v in hist["y"][1:]]
    ev = hist["error_value"]
    n = len(ev)
    tol = 1e-9 * scale
    if not (len(ps) == len(qs) == len(xs) == len(ys) == n + 1):
        out.fail("%s:history-lengths" % site, "lengths p,q,x,y,err = %d,%d,%d,%d,%d" % (len(ps), len(qs), len(xs), len(ys), n))
        return None
    if np.abs(ps[0]).max() > 0 or np.abs(qs[0]).max() > 0 or np.abs(xs[0] - x_in).max() > 1e-12 * scale or hist["y"][0] is not None:
        out.fail("%s:history-initial-state" % site, "p0,q0 must be 0, x0 the input, y0 None")
    P1, P2 = (F.PA, F.PB) if order == "eq_ineq" else (F.PB, F.PA)
    for k in range(n):
        yk = P1(xs[k] + ps[k])
        pk = xs[k] + ps[k] - ys[k + 1]
        xk = P2(ys[k + 1] + qs[k])
        qk = ys[k + 1] + qs[k] - xs[k + 1]
        out.count("steps_checked")
        bad = None
        if np.abs(yk - ys[k + 1]).max() > tol:
            bad = "y_%d != P1(x+p) (err %.3g)" % (k + 1, np.abs(yk - ys[k + 1]).max())
        elif np.abs(pk - ps[k + 1]).max() > tol:
            bad = "p_%d != x+p-y (err %.3g)" % (k + 1, np.abs(pk - ps[k + 1]).max())
        elif np.abs(xk - xs[k + 1]).max() > tol:
            bad = "x_%d != P2(y+q) (err %.3g)" % (k + 1, np.abs(xk - xs[k + 1]).max())
        elif np.abs(qk - qs[k + 1]).max() > tol:
            bad = "q_%d != y+q-x (err %.3g)" % (k + 1, np.abs(qk - qs[k + 1]).max())
        if bad:
            out.fail("%s:lockstep-step" % site, bad)
            return None
        # exact Dykstra invariants on the recorded states
        if order == "eq_ineq":
            inv_ok = F.eq_defect(ys[k + 1]) <= 1e-10 * scale and F.min_eig(xs[k + 1]) >= -1e-9 * scale
        else:
            inv_ok = F.min_eig(ys[k + 1]) >= -1e-9 * scale and F.eq_defect(xs[k + 1]) <= 1e-10 * scale
        if not inv_ok:
            out.fail("%s:lockstep-invariant" % site, "iterate %d leaves its constraint set" % (k + 1))
            return None
        if k == 0:
            if ev[0] is not None:
                out.fail("%s:criterion-at-0" % site, "error_value[0] must be None, got %r" % (ev[0],))
        else:
            c = crit(ps[k], ps[k + 1], qs[k], qs[k + 1])
            if abs(c - ev[k]) > 1e-9 * max(abs(c), 1e-300) + 1e-30:
                out.fail("%s:criterion-value" % site, "recorded %.6g, reference %.6g at k=%d" % (ev[k], c, k))
                return None
            if k < n - 1 and ev[k] < eps:
                out.fail("%s:ran-past-stopping-point" % site, "criterion %.3g < eps %.3g at k=%d but the run continued to %d" % (ev[k], eps, k, n - 1))
                return None
    stopped = n >= 2 and ev[n - 1] is not None and ev[n - 1] < eps
    if not stopped and n != maxit:
        out.fail("%s:stopped-without-criterion" % site, "run ended after %d sweeps (max %d) with criterion %r >= eps %g" % (n, maxit, ev[-1], eps))
        return None
    return xs[-1], n, stopped


def execute(family, p, seed):
    if family == "clarabel":
        return ex_clarabel(p, seed)
    out = Out()
    kind, sysname, m, name = p["kind"], p["sys"], p["m"], p["input"]
    F = frame(kind, sysname, m)
    cfg = "%s:%s:m=%s" % (kind, sysname, m)
    icls = name.split(":")[0]
    x0 = all_inputs(F, cfg, seed)[name]
    scale = max(1.0, float(np.abs(x0).max()))
    xr, good, cert = ref_projection(F, x0, (cfg, name, seed, "F"))
    if not good:
        raise HarnessError("reference projection not certified for %s %s: %r" % (cfg, name, cert))
    is_phys = F.eq_defect(x0) < 1e-12 and F.min_eig(x0) > -1e-12
    if is_phys:
        out.count("already_physical_inputs")
    if p.get("history"):
        warm = F.make(x0)
        A.call(warm.calc_proj_ineq_constraint)
        A.call(warm.calc_proj_eq_constraint)
        A.call(lambda: warm.to_choi_matrix_with_dict() if hasattr(warm, "to_choi_matrix_with_dict") else None)
        okd, rd = A.call(getattr(F.c_sys, p["history"]))
        if not okd:
            out.fail("composite_system.%s:raises" % p["history"], A.fmt_exc(rd))
        out.count("runs_after_cache_delete")
    digs = []
    results = {}
    for eps in EPSS:
        tolx = CACC * math.sqrt(eps) * scale
        for order in ORDERS:
            site = "calc_proj_physical:%s:%s" % (cfg, order)
            obj = F.make(x0, mode_proj_order=order, eps_proj_physical=eps)
            snap = F.stacked(obj)
            ok, val = A.call(obj.calc_proj_physical, max_iteration=MAXIT, is_iteration_history=True)
            out.ops += 1
            if not ok:
                out.fail(site + ":raises", "%s input %s eps=%g: %s" % (cfg, name, eps, A.fmt_exc(val)))
                continue
            res, hist = val
            ls = lockstep(out, F, hist, x0, order, eps, MAXIT, F.stacked, site, scale)
            if not np.array_equal(F.stacked(obj), snap):
                out.fail(site + ":mutates-self", "input %s" % name)
            if ls is None:
                continue
            xl, nsw, stopped = ls
            out.traces += nsw
            if nsw > 2:
                out.count("multi_sweep_runs")
            xres = F.stacked(res)
            if np.abs(xres - xl).max() > 0:
                out.fail(site + ":result-not-last-x", "returned object differs from the last recorded x by %.3g" % np.abs(xres - xl).max())
            if not stopped:
                out.fail(site + ":no-convergence", "input %s eps=%g: %d sweeps without meeting the criterion" % (name, eps, nsw))
                continue
            results[(eps, order, "obj")] = xres
            digs.append(xres)
            # physical to the accuracy of the threshold
            if F.eq_defect(xres) > tolx or F.min_eig(xres) < -tolx:
                out.fail(site + ":not-physical", "input %s eps=%g: eq defect %.3g, min eig %.3g (allowed %.3g)" % (
                    name, eps, F.eq_defect(xres), F.min_eig(xres), tolx))
            err = float(np.linalg.norm(xres - xr))
            ratio = err / (math.sqrt(eps) * scale)
            for thr in (1, 2, 5, 10):
                if ratio > thr:
                    out.count("accuracy_ratio_gt_%d" % thr)
            if err > tolx:
                out.fail(site + ":not-nearest", "input %s eps=%g: distance to the certified nearest physical point %.3g > %.3g" % (name, eps, err, tolx))
            if np.abs(xr - x0).max() > 1e-9:
                out.count("clipped_runs")
            if is_phys and np.abs(xres - x0).max() > 1e-9:
                out.fail(site + ":moves-physical-input", "input %s eps=%g moved by %.3g" % (name, eps, np.abs(xres - x0).max()))
            # no history requested: same answer
            if eps == 1e-10:
                ok, r2 = A.call(obj.calc_proj_physical, max_iteration=MAXIT)
                out.ops += 1
                if not ok or np.abs(F.stacked(r2) - xres).max() > 0:
                    out.fail(site + ":history-flag-changes-result", "input %s eps=%g" % (name, eps))

            # ---- variable level, both flags
            for flag in (False, True):
                v0 = F.var_from_stacked(x0, flag)
                xin = F.stacked_from_var(v0, flag)      # what the variable vector denotes
                if flag:
                    xrf, goodf, certf = ref_projection(F, xin, (cfg, name, seed, "T"))
                    if not goodf:
                        raise HarnessError("reference projection not certified (flag) for %s %s: %r" % (cfg, name, certf))
                else:
                    xrf = xr
                tmpl = F.make(xin, mode_proj_order=order, eps_proj_physical=eps, on_para_eq_constraint=flag)
                vsite = "calc_proj_physical_with_var:%s:%s:flag=%s" % (cfg, order, flag)
                vv = v0.copy()
                ok, val = A.call(tmpl.calc_proj_physical_with_var, vv, on_para_eq_constraint=flag, max_iteration=MAXIT, is_iteration_history=True)
                out.ops += 1
                out.count("var_level_runs")
                if not ok:
                    out.fail(vsite + ":raises", "input %s eps=%g: %s" % (name, eps, A.fmt_exc(val)))
                    continue
                if not np.array_equal(vv, v0):
                    out.fail(vsite + ":mutates-argument", "input %s" % name)
                vres, vh = val
                ls = lockstep(out, F, vh, xin, order, eps, MAXIT, lambda a: np.array(a, float).ravel(), vsite, scale)
                if ls is None:
                    continue
                xl2, nsw2, stopped2 = ls
                out.traces += nsw2
                if not stopped2:
                    out.fail(vsite + ":no-convergence", "input %s eps=%g" % (name, eps))
                    continue
                want = F.var_from_stacked(xl2, flag)
                if np.asarray(vres).shape != want.shape or np.abs(np.asarray(vres, float) - want).max() > 1e-12 * scale:
                    out.fail(vsite + ":result-not-last-x", "returned variables are not the last recorded x in variable form")
                    continue
                xv = F.stacked_from_var(np.asarray(vres, float), flag)
                results[(eps, order, "var%s" % flag)] = xv
                if float(np.linalg.norm(xv - xrf)) > tolx:
                    out.fail(vsite + ":not-nearest", "input %s eps=%g: distance %.3g > %.3g" % (name, eps, np.linalg.norm(xv - xrf), tolx))
                if F.eq_defect(xv) > tolx or F.min_eig(xv) < -tolx:
                    out.fail(vsite + ":not-physical", "input %s eps=%g" % (name, eps))
                if not flag and np.abs(xv - xres).max() > 1e-9 * scale:
                    out.fail(vsite + ":differs-from-object-level", "input %s eps=%g: %.3g" % (name, eps, np.abs(xv - xres).max()))
                # closures handed to the optimisers
                for cname, mk in () if eps != 1e-10 else (("func_calc_proj_physical", lambda: tmpl.func_calc_proj_physical(flag, mode_proj_order=order, max_iteration=MAXIT)),
                                  ("func_calc_proj_physical_with_var", lambda: tmpl.func_calc_proj_physical_with_var(flag, mode_proj_order=order, max_iteration=MAXIT))):
                    ok, fn = A.call(mk)
                    if ok:
                        ok, fr = A.call(fn, v0.copy())
                    out.ops += 1
                    out.count("closure_runs")
                    csite = "%s:%s:%s:flag=%s" % (cname, cfg, order, flag)
                    if not ok:
                        out.fail(csite + ":raises", "input %s eps=%g: %s" % (name, eps, A.fmt_exc(fn if not callable(fn) else fr)))
                        continue
                    xf = F.stacked_from_var(np.asarray(fr, float), flag)
                    if float(np.linalg.norm(xf - xrf)) > tolx:
                        out.fail(csite + ":not-nearest", "input %s eps=%g: distance %.3g > %.3g" % (name, eps, np.linalg.norm(xf - xrf), tolx))
        # order independence at this eps
        for route in ("obj", "varFalse", "varTrue"):
            a, b = results.get((eps, "eq_ineq", route)), results.get((eps, "ineq_eq", route))
            if a is not None and b is not None:
                out.count("order_pairs")
                if float(np.linalg.norm(a - b)) > 2 * tolx:
                    out.fail("calc_proj_physical:%s:order-dependence:%s" % (cfg, route), "input %s eps=%g: results of the two orders differ by %.3g > %.3g" % (
                        name, eps, np.linalg.norm(a - b), 2 * tolx))
    # iteration limit: must run exactly max_iteration sweeps and return the last x
    if not is_phys:
        obj = F.make(x0, mode_proj_order="eq_ineq", eps_proj_physical=1e-300)
        import contextlib
        import io
        with contextlib.redirect_stdout(io.StringIO()):
            ok, val = A.call(obj.calc_proj_physical, max_iteration=3, is_iteration_history=True)
        out.ops += 1
        if not ok:
            out.fail("calc_proj_physical:%s:maxiter:raises" % cfg, A.fmt_exc(val))
        else:
            res, hist = val
            ev = hist["error_value"]
            if np.abs(F.stacked(res) - F.stacked(hist["x"][-1])).max() == 0 and (len(ev) == 3 or (len(ev) == 2 and ev[-1] == 0.0)):
                if len(ev) == 3:
                    out.count("maxiter_said_so")
            else:
                out.fail("calc_proj_physical:%s:maxiter" % cfg, "max_iteration=3 produced %d sweeps" % len(hist["error_value"]))
    out.nontrivial = not is_phys
    out.outcome = icls + (":ok" if not out.fails else ":fail")
    out.digest = A.digest(*digs) if digs else ""
    return out


def ex_clarabel(p, seed):
    """independent semidefinite-programming solve of the same nearest-point problem"""
    import cvxpy as cp
    out = Out()
    kind, sysname, m, name = p["kind"], p["sys"], p["m"], p["input"]
    F = frame(kind, sysname, m)
    cfg = "%s:%s:m=%s" % (kind, sysname, m)
    x0 = all_inputs(F, cfg, seed)[name]
    scale = max(1.0, float(np.abs(x0).max()))
    x = cp.Variable(F.n)
    cons = [F.C @ x == F.b]
    M = F.Bm if F.kind in ("state", "povm") else F.T
    nb = F.nblocks()
    per = F.n // nb
    bd = F.block_dim()
    Mre = M.real
    Mim = M.imag
    for k in range(nb):
        Hre = cp.reshape(x[k * per:(k + 1) * per] @ Mre, (bd, bd), order="C")
        Him = cp.reshape(x[k * per:(k + 1) * per] @ Mim, (bd, bd), order="C")
        cons.append(cp.bmat([[Hre, -Him], [Him, Hre]]) >> 0)
    prob = cp.Problem(cp.Minimize(cp.sum_squares(x - x0)), cons)
    prob.solve(solver=cp.CLARABEL, tol_gap_abs=1e-12, tol_gap_rel=1e-12, tol_feas=1e-12)
    if prob.status not in ("optimal", "optimal_inaccurate") or x.value is None:
        raise HarnessError("Clarabel failed on %s %s: %s" % (cfg, name, prob.status))
    xs = np.asarray(x.value, float)
    for order in ORDERS:
        obj = F.make(x0, mode_proj_order=order, eps_proj_physical=1e-14)
        ok, res = A.call(obj.calc_proj_physical, max_iteration=MAXIT)
        out.ops += 1
        out.traces += 1
        if not ok:
            out.fail("calc_proj_physical:%s:%s:raises" % (cfg, order), A.fmt_exc(res))
            continue
        err = float(np.linalg.norm(F.stacked(res) - xs))
        out.count("clarabel_compared")
        if err > 2e-4 * scale:
            out.fail("calc_proj_physical:%s:%s:differs-from-sdp-solve" % (cfg, order), "input %s: distance to the Clarabel solution %.3g" % (name, err))
    out.outcome = "ok" if not out.fails else "fail"
    return out
