#!/bin/bash
# usage: keep_seed.sh SRC_DIR VARIANT(a|b) ID(e.g. C04-b) PROPERTY "needs" "caught_by"
# verifies a seeded change in a scratch worktree (demo passes clean / fails patched, pinned suite still 113 passed) and stores it
set -u
SRC="$1"; V="$2"; ID="$3"; PROP="$4"; NEEDS="$5"; CAUGHT="$6"
WT=/tmp/keepseed.$$
git -C /repo worktree add -q "$WT" HEAD || exit 2
trap 'git -C /repo worktree remove --force "$WT"' EXIT
/venv/bin/python "$SRC/demo_$V.py" "$WT" > /tmp/keepseed.$$.clean.log 2>&1; c0=$?
git -C "$WT" apply "$SRC/patch_$V.diff" || { echo "patch does not apply"; exit 2; }
/venv/bin/python "$SRC/demo_$V.py" "$WT" > /tmp/keepseed.$$.mut.log 2>&1; c1=$?
T=$(cd "$WT" && /venv/bin/python -m pytest -q -p no:cacheprovider --timeout=900 --continue-on-collection-errors 2>&1 | tail -1)
echo "$ID: demo clean exit=$c0, patched exit=$c1, suite: $T"
if [ "$c0" != 0 ] || [ "$c1" = 0 ] || ! echo "$T" | grep -q "113 passed"; then echo "NOT CONFIRMED"; tail -5 /tmp/keepseed.$$.clean.log /tmp/keepseed.$$.mut.log; rm -f /tmp/keepseed.$$.*; exit 1; fi
D=/verif/seeded/$ID; mkdir -p "$D"
cp "$SRC/patch_$V.diff" "$D/patch.diff"; cp "$SRC/demo_$V.py" "$D/demo.py"
FAILMSG=$(tail -3 /tmp/keepseed.$$.mut.log | tr '\n' ' ' | cut -c1-400)
/venv/bin/python - "$D/meta.json" "$ID" "$PROP" "$NEEDS" "$CAUGHT" "$T" "$FAILMSG" "$(git -C /repo rev-parse --short HEAD)" <<'PY'
import json,sys
p,i,prop,needs,caught,t,fm,base=sys.argv[1:9]
json.dump({"id":i,"breaks_property":prop,"needs_to_manifest":needs,"base_commit":base,
 "confirmed":{"demo_on_clean_tree":"exit 0","demo_with_patch":"exit 1: "+fm,"pinned_suite_with_patch":t,
              "how":"tools/keep_seed.sh: scratch git worktree of /repo, `python demo.py <worktree>` before and after `git apply patch.diff`, then the baseline pytest command"},
 "detected_by":caught},open(p,"w"),indent=1)
PY
rm -f /tmp/keepseed.$$.*
echo "kept in $D"
