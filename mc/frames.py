"""One frame for all four object types (DESIGN section 3): stacked real vector x  <->  tuple of Hermitian
blocks H(x) (isometric for orthonormal Hermitian bases), affine equality set {Cx=b}, cone {all blocks PSD}.
Reference projections P_A, P_B, the variable parametrisations, and constructors of quara objects from x.
Only reads basis matrices from the library as data.
"""
import math

import numpy as np

from mc import refmodel as R

_CACHE = {}


class Frame:
    def __init__(self, kind, c_sys, m=None):
        self.kind = kind
        self.c_sys = c_sys
        self.B = R.basis_mats(c_sys)
        self.d = self.B[0].shape[0]
        d = self.d
        self.D = d * d
        self.m = m if kind in ("povm", "mprocess") else 1
        if kind == "state":
            self.n = self.D
        elif kind == "povm":
            self.n = self.m * self.D
        elif kind == "gate":
            self.n = self.D * self.D
        elif kind == "mprocess":
            self.n = self.m * self.D * self.D
        else:
            raise ValueError(kind)
        # matrix with rows = flattened basis matrices: block = (v @ Bm).reshape(d,d)
        self.Bm = np.array([b.ravel() for b in self.B])
        if kind in ("gate", "mprocess"):
            # Choi = sum_ab hs[a,b] B_a (x) conj(B_b)
            T = np.zeros((self.D * self.D, self.D * self.D), dtype=np.complex128)
            k = 0
            for a in range(self.D):
                for bb in range(self.D):
                    T[k] = np.kron(self.B[a], self.B[bb].conj()).ravel()
                    k += 1
            self.T = T
        # equality constraint
        D = self.D
        if kind == "state":
            C = np.zeros((1, self.n))
            C[0, 0] = 1
            b = np.array([1 / math.sqrt(d)])
        elif kind == "povm":
            C = np.hstack([np.eye(D)] * self.m)
            b = np.zeros(D)
            b[0] = math.sqrt(d)
        elif kind == "gate":
            C = np.zeros((D, self.n))
            C[:, :D] = np.eye(D)
            b = np.zeros(D)
            b[0] = 1
        else:
            C = np.zeros((D, self.n))
            for x in range(self.m):
                C[:, x * D * D:x * D * D + D] = np.eye(D)
            b = np.zeros(D)
            b[0] = 1
        self.C, self.b = C, b
        self.Cpinv = np.linalg.pinv(C)

    # ---- blocks
    def nblocks(self):
        return self.m

    def block_dim(self):
        return self.d if self.kind in ("state", "povm") else self.D

    def to_blocks(self, x):
        x = np.asarray(x, dtype=float)
        d, D = self.d, self.D
        if self.kind == "state":
            return [(x @ self.Bm).reshape(d, d)]
        if self.kind == "povm":
            return [(x[k * D:(k + 1) * D] @ self.Bm).reshape(d, d) for k in range(self.m)]
        if self.kind == "gate":
            return [(x @ self.T).reshape(D, D)]
        return [(x[k * D * D:(k + 1) * D * D] @ self.T).reshape(D, D) for k in range(self.m)]

    def from_blocks(self, blocks):
        """adjoint of to_blocks (= inverse on Hermitian blocks); returns real vector, asserts realness"""
        parts = []
        M = self.Bm if self.kind in ("state", "povm") else self.T
        for H in blocks:
            c = M.conj() @ np.asarray(H).ravel()
            if np.abs(c.imag).max() > 1e-9 * (1 + np.abs(c).max()):
                raise AssertionError("harness: non-Hermitian block given to from_blocks")
            parts.append(c.real)
        return np.concatenate(parts)

    def isometry_defect(self):
        M = self.Bm if self.kind in ("state", "povm") else self.T
        G = M.conj() @ M.T
        return float(np.abs(G - np.eye(G.shape[0])).max())

    # ---- reference projections
    def PA(self, x):
        x = np.asarray(x, dtype=float)
        return x - self.Cpinv @ (self.C @ x - self.b)

    def PB(self, x):
        return self.from_blocks([R.proj_psd(H) for H in self.to_blocks(x)])

    def eq_defect(self, x):
        return float(np.abs(self.C @ np.asarray(x, float) - self.b).max())

    def min_eig(self, x):
        return min(R.min_eig(H) for H in self.to_blocks(x))

    def certificate(self, x0, xs):
        return R.nearest_point_certificate(np.asarray(x0, float), np.asarray(xs, float), self.to_blocks,
                                           self.from_blocks, self.C, self.b)

    # ---- reference variable parametrisation
    def dropped_indices(self):
        D = self.D
        if self.kind == "state":
            return np.array([0])
        if self.kind == "povm":
            return np.arange((self.m - 1) * D, self.m * D)
        if self.kind == "gate":
            return np.arange(0, D)
        s = (self.m - 1) * D * D
        return np.arange(s, s + D)

    def var_from_stacked(self, x, flag):
        x = np.asarray(x, float)
        if not flag:
            return x.copy()
        return np.delete(x, self.dropped_indices())

    def stacked_from_var(self, v, flag):
        v = np.asarray(v, float)
        if not flag:
            return v.copy()
        idx = self.dropped_indices()
        keep = np.setdiff1d(np.arange(self.n), idx)
        x = np.zeros(self.n)
        x[keep] = v
        # implied part: the unique values making Cx = b
        r = self.b - self.C @ x
        x[idx] = r
        return x

    def num_var(self, flag):
        return self.n - (len(self.dropped_indices()) if flag else 0)

    # ---- quara objects
    def make(self, x, **kw):
        from quara.objects.state import State
        from quara.objects.povm import Povm
        from quara.objects.gate import Gate
        from quara.objects.mprocess import MProcess
        x = np.array(x, dtype=np.float64)
        kw.setdefault("is_physicality_required", False)
        layout = kw.pop("layout", "C")
        D = self.D

        def lay(a):
            """the same values in another memory layout: 'F' Fortran order, 'strided' a non-contiguous view of a larger buffer"""
            a = np.array(a, dtype=np.float64)
            if layout == "C":
                return a.copy()
            if layout == "F":
                return np.asfortranarray(a) if a.ndim == 2 else a[::-1].copy()[::-1]
            if layout == "strided":
                big = np.full(tuple(2 * n for n in a.shape), 7.5)
                big[tuple(slice(None, None, 2) for _ in a.shape)] = a
                return big[tuple(slice(None, None, 2) for _ in a.shape)]
            raise ValueError(layout)
        if self.kind == "state":
            return State(self.c_sys, lay(x), **kw)
        if self.kind == "povm":
            return Povm(self.c_sys, [lay(x[k * D:(k + 1) * D]) for k in range(self.m)], **kw)
        if self.kind == "gate":
            return Gate(self.c_sys, lay(x.reshape(D, D)), **kw)
        return MProcess(self.c_sys, [lay(x[k * D * D:(k + 1) * D * D].reshape(D, D)) for k in range(self.m)], **kw)

    def cls(self):
        from quara.objects.state import State
        from quara.objects.povm import Povm
        from quara.objects.gate import Gate
        from quara.objects.mprocess import MProcess
        return {"state": State, "povm": Povm, "gate": Gate, "mprocess": MProcess}[self.kind]

    @staticmethod
    def stacked(obj):
        return np.array(obj.to_stacked_vector(), dtype=float).ravel().copy()


def frame(kind, systag, m=None, names=None):
    from mc import alphabet as A
    key = (kind, systag, m, tuple(names) if names else None)
    if key not in _CACHE:
        _CACHE[key] = Frame(kind, A.make_system(systag, names), m)
    return _CACHE[key]
