"""C01 Physicality verdicts match the mathematical definitions at the given tolerance.

E1 (product enumerator): type x system/basis x alphabet object x one-constraint break x violation ladder x
atol grid x (atol passed explicitly | through Settings.set_atol).  For every element the denoted operators are
rebuilt from the very parameters handed to quara (mc/props/_c01_ref.py, textbook definitions) and the verdicts
`is_eq_constraint_satisfied`, `is_ineq_constraint_satisfied`, the named sub-verdicts, `is_physical` and the
constructor with `is_physicality_required=True` are asserted outside the (atol/10, 10 atol) band.  Band-free
checks: monotonicity in atol, `is_physical` = conjunction of the library's own sub-verdicts.  Further families:
origin / zero objects of every configuration, and `matrix_util.is_hermitian / is_positive_semidefinite` on the
Hermitian alphabet.
"""
import numpy as np

from mc import alphabet as A, refmodel as R
from mc.core import Out, inner
from mc.props import _c01_ref as F

ID = "C01"
RULE = ("one element = (type, system/basis, alphabet object, break kind incl. broken element / column, ladder rung, "
        "atol, atol mode); the verdicts of the real object are compared with the reference verdict derived from "
        "trace / eigenvalues / Choi matrix of the denoted operators; an element is non-trivial when at least one "
        "verdict is asserted (violation size outside the (atol/10, 10 atol) band); distinct = distinct tuples")
ASSUMPTIONS = [
    "verdicts are only asserted outside the band (atol/10, 10*atol) of the violation size; where several norms are "
    "reasonable (max-entry / operator / Frobenius norm of the identity-sum and trace-functional defect, Choi matrix "
    "normalised to trace d or 1) a verdict is asserted only when all of them agree",
    "inputs are the shared alphabet objects (seed rotates the generic representatives) with exactly one constraint "
    "broken per ladder rung plus a few both-broken variants; arbitrary real parameter vectors are not enumerated",
    "only Hermitian matrix bases (real parameters denote Hermitian operators); MProcess only on the normalised "
    "identity-first bases it accepts; for the unnormalised / identity-not-first bases the origin object is only "
    "counted, not asserted (generate_origin_obj is not a basis-generic branch)",
    "the reference formulas of _c01_ref are cross-checked against mc.refmodel's slow definitions for d <= 3",
]
BOUNDS = {
    "quick": "Q1,Q3,Q1u,Q1h,Q1x (Pauli basis with X first): 17-rung ladder 1e-14..1 x 9 atol values 1e-13..1e-2; Q3g,Q3h,Q3x (Gell-Mann with lambda_1 first),Q2,Q6: 8 rungs x 4 atol values; "
             "Povm m=2..4, MProcess m=2,3; first and last element / first, second, last first-row column broken; "
             "mixed (atol_eq, atol_ineq) pairs over 3 values + None",
    "thorough": "all systems: half-decade ladder 1e-14..1 (31 rungs) x half-decade atol grid (23 values); every "
                "element / every first-row column broken; mixed atol pairs over 5 values + None",
}
EXHAUSTIVE = {"quick": True, "thorough": True}
CASE_TIMEOUT = 3600

TYPES = ("State", "Povm", "Gate", "MProcess")
ALL_TAGS = ("Q1", "Q1u", "Q1h", "Q1x", "Q3", "Q3g", "Q3h", "Q3x", "Q2", "Q6")
DEFAULT_ATOL = 1e-13

GRIDS = {
    "full": [1e-13, 1e-12, 1e-10, 1e-8, 1e-6, 1e-5, 1e-4, 1e-3, 1e-2],
    "reduced": [1e-13, 1e-9, 1e-5, 1e-2],
    "dense": [float("1e%d" % e) * f for e in range(-13, -2) for f in (1.0, 3.0)] + [1e-2],
}
LADDERS = {
    "full": [1e-14, 1e-13, 1e-12, 1e-11, 1e-10, 1e-9, 1e-8, 1e-7, 1e-6, 5e-6, 1e-5, 1e-4, 1e-3, 1e-2, 1e-1, 0.5, 1.0],
    "reduced": [1e-14, 1e-12, 1e-9, 1e-7, 5e-6, 1e-4, 1e-2, 1.0],
    "dense": sorted([float("1e%d" % e) * f for e in range(-14, 0) for f in (1.0, 3.0)] + [5e-6, 0.5, 1.0]),
}
PAIR_IDX = {"full": (0, 4, 8), "reduced": (0, 2, 3), "dense": (0, 6, 12, 17, 22)}
DEEP = {"full": False, "reduced": False, "dense": True}

METHODS = {
    "State": [("is_eq_constraint_satisfied", "eq"), ("is_trace_one", "eq"),
              ("is_ineq_constraint_satisfied", "ineq"), ("is_positive_semidefinite", "ineq")],
    "Povm": [("is_eq_constraint_satisfied", "eq"), ("is_identity_sum", "eq"),
             ("is_ineq_constraint_satisfied", "ineq"), ("is_positive_semidefinite", "ineq")],
    "Gate": [("is_eq_constraint_satisfied", "eq"), ("is_tp", "eq"), ("gate.is_tp", "eq"),
             ("is_ineq_constraint_satisfied", "ineq"), ("is_cp", "ineq"), ("gate.is_cp", "ineq")],
    "MProcess": [("is_eq_constraint_satisfied", "eq"), ("is_sum_tp", "eq"),
                 ("is_ineq_constraint_satisfied", "ineq"), ("is_cp", "ineq")],
}


def tags_of(typ):
    return F.NORMALISED if typ == "MProcess" else ALL_TAGS


def ms_of(typ):
    return (2, 3, 4) if typ == "Povm" else (2, 3)


def spec_of(tier, tag):
    if tier == "thorough":
        return "dense"
    return "full" if tag in ("Q1", "Q3", "Q1u", "Q1h", "Q1x") else "reduced"


# ---------------------------------------------------------------- families

def families(tier, seed):
    fams = []
    for typ in TYPES:
        plist = []
        for tag in tags_of(typ):
            d = A.dim_of(tag)
            for name in F.alphabet_of(typ, d, seed, ms_of(typ)):
                plist.append({"tag": tag, "obj": name, "spec": spec_of(tier, tag)})
        fams.append((typ.lower(), plist))
    fams.append(("origin_zero", [{"type": typ, "tag": tag} for typ in TYPES for tag in tags_of(typ)]))
    mu = []
    for d in ((2, 3) if tier == "quick" else (2, 3, 4, 6)):
        for eb in ("id", "fourier", "generic"):
            mu.append({"d": d, "eigenbasis": eb, "spec": "full" if tier == "quick" else "dense"})
    fams.append(("matrix_util", mu))
    fams.append(("history", [{"kind": k, "tag": t} for k in ("state", "povm", "gate", "mprocess") for t in ("Q1", "Q3")]))
    fams.append(("tiny_outcome", [{"tag": t} for t in ("Q1", "Q3")]))
    return fams


def execute(family, params, seed):
    if family == "origin_zero":
        return ex_origin_zero(params, seed)
    if family == "matrix_util":
        return ex_matrix_util(params, seed)
    if family == "history":
        from mc.props import _c01_history as H
        return H.ex_history(params, seed)
    if family == "tiny_outcome":
        from mc.props import _c01_history as H
        return H.ex_tiny(params, seed)
    typ = {"state": "State", "povm": "Povm", "gate": "Gate", "mprocess": "MProcess"}[family]
    return ex_verdicts(typ, params, seed)


def guards(summary):
    g = []
    info = summary["info"]
    need = []
    for typ in TYPES:
        for cons in ("eq", "ineq", "physical"):
            for exp in ("True", "False"):
                for mode in ("explicit", "global"):
                    need.append("%s:%s:%s:%s" % (typ, cons, exp, mode))
        need += ["%s:ctor_accept" % typ, "%s:ctor_reject" % typ, "%s:eq_false_below_1e-5" % typ,
                 "%s:ineq_false_below_1e-5" % typ, "%s:eq_true_with_defect" % typ, "%s:ineq_true_with_defect" % typ,
                 "%s:flip_in_atol" % typ, "%s:boundary_true_at_min_atol" % typ, "%s:mixed_pair_disagree" % typ,
                 "%s:origin_physical" % typ, "%s:zero_checked" % typ, "%s:inband" % typ]
    need += ["Gate:branch_trace:eq:True", "Gate:branch_trace:eq:False", "Gate:branch_first_row:eq:True",
             "Gate:branch_first_row:eq:False", "Povm:unequal_element_broken_last", "Povm:offdiag_eq_false",
             "MProcess:broken_last_outcome", "origin_from_nonphysical",
             "mu:herm:True", "mu:herm:False", "mu:psd:True", "mu:psd:False", "mu:psd_nonhermitian_false",
             "mu:psd_true_with_negative_eig"]
    for k in need:
        if info.get(k, 0) < 1:
            g.append("never observed: %s" % k)
    if info.get("atol_not_restored", 0):
        g.append("Settings atol was left changed by the harness")
    return g


# ---------------------------------------------------------------- library side

def build(typ, rs, raw, required, **kw):
    if typ == "State":
        from quara.objects.state import State
        return State(rs.c_sys, np.array(raw, dtype=np.float64), is_physicality_required=required, **kw)
    if typ == "Povm":
        from quara.objects.povm import Povm
        return Povm(rs.c_sys, [np.array(v, dtype=np.float64) for v in raw], is_physicality_required=required, **kw)
    if typ == "Gate":
        from quara.objects.gate import Gate
        return Gate(rs.c_sys, np.array(raw, dtype=np.float64), is_physicality_required=required, **kw)
    from quara.objects.mprocess import MProcess
    return MProcess(rs.c_sys, [np.array(h, dtype=np.float64) for h in raw], is_physicality_required=required, **kw)


def verdict_fn(q, rs, meth):
    if meth == "gate.is_tp":
        from quara.objects import gate as gate_mod
        return lambda *a: gate_mod.is_tp(rs.c_sys, q.hs, *a)
    if meth == "gate.is_cp":
        from quara.objects import gate as gate_mod
        return lambda *a: gate_mod.is_cp(rs.c_sys, q.hs, *a)
    return getattr(q, meth)


class COut(Out):
    """keeps at most CAP failure records per signature and case; further repeats are only counted"""
    CAP = 3

    def __init__(self):
        super().__init__()
        self._seen = {}

    def fail(self, sig, msg):
        k = self._seen.get(sig, 0)
        self._seen[sig] = k + 1
        if k < self.CAP:
            super().fail(sig, msg)
        else:
            self.count("suppressed_repeats_of_failing_signatures")


def callsite(typ, meth):
    """'State.is_trace_one'; the module-level functions of quara.objects.gate are written 'gate.is_tp(c_sys,hs)'"""
    return "%s(c_sys,hs)" % meth if meth.startswith("gate.") else "%s.%s" % (typ, meth)


def magclass(v):
    return "le2e-5" if v <= 2e-5 else "gt2e-5"


class Ctx:
    """everything the judge needs to describe one input"""
    __slots__ = ("out", "typ", "rs", "kind", "dl", "meas", "obj", "bits")

    def describe(self):
        return "%s %s/%s kind=%s delta=%g eq-defect in [%.3g, %.3g], ineq-violation in [%.3g, %.3g]" % (
            self.typ, self.rs.tag, self.obj, self.kind, self.dl, self.meas["eq"][0], self.meas["eq"][1],
            self.meas["ineq"][0], self.meas["ineq"][1])


def exp_physical(meas, a_eq, a_ineq):
    e1 = F.expected(meas["eq"], a_eq)
    e2 = F.expected(meas["ineq"], a_ineq)
    if e1 is False or e2 is False:
        return False, "+".join(c for c, e in (("eq", e1), ("ineq", e2)) if e is False)
    if e1 is True and e2 is True:
        return True, ""
    return None, ""


def judge(cx, site, exp, broken, mode, atol_txt, ok, got):
    """compare one verdict with the reference expectation (None = inside the band, not asserted)"""
    out = cx.out
    out.ops += 1
    bc = cx.rs.bclass
    if not ok:
        out.fail("%s:raises:%s:atol=%s:basis=%s" % (callsite(cx.typ, site), type(got).__name__, mode, bc),
                 "%s with %s: %s" % (cx.describe(), atol_txt, A.fmt_exc(got)))
        cx.bits.append(3)
        return None
    if not isinstance(got, (bool, np.bool_)):
        out.fail("%s:returns-non-bool:atol=%s:basis=%s" % (callsite(cx.typ, site), mode, bc),
                 "%s with %s returned %r" % (cx.describe(), atol_txt, got))
        cx.bits.append(3)
        return None
    got = bool(got)
    cx.bits.append(1 if got else 0)
    if exp is None:
        return got
    out.traces += 1
    if got != exp:
        if exp is False:
            size = max(cx.meas[c][0] for c in broken.split("+"))
            out.fail("%s:false-accept:%s-defect:%s:atol=%s:basis=%s" % (callsite(cx.typ, site), broken, magclass(size), mode, bc),
                     "%s: verdict True with %s although the %s violation is >= 10*atol" % (cx.describe(), atol_txt, broken))
        else:
            what = "physical-object" if cx.kind == "none" else "defect-below-atol/10"
            out.fail("%s:false-reject:%s:atol=%s:basis=%s" % (callsite(cx.typ, site), what, mode, bc),
                     "%s: verdict False with %s although every violation is <= atol/10" % (cx.describe(), atol_txt))
    return got


def judge_ctor(cx, exp, broken, atol, ok, val):
    out = cx.out
    out.ops += 1
    bc = cx.rs.bclass
    cx.bits.append(1 if ok else 0)
    if not ok and not isinstance(val, ValueError):
        out.fail("%s.__init__:wrong-exception:%s:basis=%s" % (cx.typ, type(val).__name__, bc),
                 "%s, global atol %g: %s" % (cx.describe(), atol, A.fmt_exc(val)))
        return
    if exp is None:
        return
    out.traces += 1
    if exp is True:
        if ok:
            out.count("%s:ctor_accept" % cx.typ)
        else:
            what = "physical-object" if cx.kind == "none" else "defect-below-atol/10"
            out.fail("%s.__init__:rejected-physical:%s:basis=%s" % (cx.typ, what, bc),
                     "%s, global atol %g: %s" % (cx.describe(), atol, A.fmt_exc(val)))
    else:
        if ok:
            size = max(cx.meas[c][0] for c in broken.split("+"))
            out.fail("%s.__init__:accepted-nonphysical:%s-defect:%s:basis=%s" % (cx.typ, broken, magclass(size), bc),
                     "%s, global atol %g: constructor with is_physicality_required=True succeeded" % (cx.describe(), atol))
        else:
            out.count("%s:ctor_reject" % cx.typ)


def monotone(cx, site, mode, row):
    """row: verdicts over the ascending atol grid; once True it must stay True"""
    seen_true = False
    vals = [v for v in row if v is not None]
    for v in vals:
        if v:
            seen_true = True
        elif seen_true:
            cx.out.fail("%s:not-monotone-in-atol:atol=%s:basis=%s" % (callsite(cx.typ, site), mode, cx.rs.bclass),
                        "%s: verdicts over the ascending atol grid %r" % (cx.describe(), row))
            return
    if vals and (not vals[0]) and vals[-1]:
        cx.out.count("%s:flip_in_atol" % cx.typ)


def check_input(out, typ, rs, obj, kind, dl, raw, spec, bits):
    from quara.settings import Settings
    grid = GRIDS[spec]
    cx = Ctx()
    cx.out, cx.typ, cx.rs, cx.kind, cx.dl, cx.obj, cx.bits = out, typ, rs, kind, dl, obj, bits
    cx.meas = meas = F.MEASURE[typ](rs, raw)
    if meas["herm"] > 1e-14:
        raise AssertionError("harness: input %s/%s/%s is not Hermitian (%g)" % (typ, rs.tag, kind, meas["herm"]))
    ok, q = A.call(build, typ, rs, raw, False)
    out.ops += 1
    if not ok:
        out.fail("%s.__init__:raises-without-physicality-required:%s:basis=%s" % (typ, type(q).__name__, rs.bclass),
                 "%s: %s" % (cx.describe(), A.fmt_exc(q)))
        return
    exp_tab = {c: [F.expected(meas[c], a) for a in grid] for c in ("eq", "ineq")}
    n_assert = 0
    # bookkeeping for the vacuity guards
    for c in ("eq", "ineq"):
        for a, e in zip(grid, exp_tab[c]):
            if e is None:
                out.count("%s:inband" % typ)
                continue
            n_assert += 1
            if e is False and meas[c][1] < 1e-5:
                out.count("%s:%s_false_below_1e-5" % (typ, c))
            if e is True and meas[c][0] > 1e-15 and kind != "none":
                out.count("%s:%s_true_with_defect" % (typ, c))
    if kind == "none" and exp_tab["ineq"][0] is True and meas["lam"] <= 1e-12:
        out.count("%s:boundary_true_at_min_atol" % typ)
    if typ == "Gate":
        br = "first_row" if (rs.orthonormal and rs.identity_first) else "trace"
        for e in exp_tab["eq"]:
            if e is not None:
                out.count("Gate:branch_%s:eq:%s" % (br, e))
    if typ == "Povm" and "@" in kind and int(kind.split("@")[1]) == len(raw) - 1 and len(raw) >= 3:
        if any(e is False for e in exp_tab["ineq"]) or any(e is False for e in exp_tab["eq"]):
            out.count("Povm:unequal_element_broken_last")
    if typ == "Povm" and kind.startswith("sum_offdiag") and any(e is False for e in exp_tab["eq"]):
        out.count("Povm:offdiag_eq_false")
    if typ == "MProcess" and "@" in kind and int(kind.split("@")[1]) == len(raw) - 1:
        if any(e is False for e in exp_tab["ineq"]) or any(e is False for e in exp_tab["eq"]):
            out.count("MProcess:broken_last_outcome")

    res = {}
    # ---- atol passed explicitly
    for meth, cons in METHODS[typ]:
        fn = verdict_fn(q, rs, meth)
        row = []
        for a, e in zip(grid, exp_tab[cons]):
            ok, v = A.call(fn, a)
            row.append(judge(cx, meth, e, cons, "explicit", "atol=%g" % a, ok, v))
            if e is not None:
                out.count("%s:%s:%s:explicit" % (typ, cons, e))
        res[meth] = row
        monotone(cx, meth, "explicit", row)
    row = []
    for i, a in enumerate(grid):
        e, broken = exp_physical(meas, a, a)
        ok, v = A.call(q.is_physical, a, a)
        got = judge(cx, "is_physical", e, broken, "explicit", "atol_eq_const=atol_ineq_const=%g" % a, ok, v)
        row.append(got)
        if e is not None:
            out.count("%s:physical:%s:explicit" % (typ, e))
        conj_of = (res["is_eq_constraint_satisfied"][i], res["is_ineq_constraint_satisfied"][i])
        if got is not None and None not in conj_of and got != (conj_of[0] and conj_of[1]):
            out.fail("%s.is_physical:not-conjunction-of-sub-verdicts:basis=%s" % (typ, rs.bclass),
                     "%s atol=%g: is_physical=%r, eq=%r, ineq=%r" % (cx.describe(), a, got, conj_of[0], conj_of[1]))
    monotone(cx, "is_physical", "explicit", row)
    # mixed tolerances (None = global default)
    pv = [grid[i] for i in PAIR_IDX[spec]] + [None]
    for a1 in pv:
        for a2 in pv:
            if a1 == a2 and a1 is not None:
                continue
            e, broken = exp_physical(meas, DEFAULT_ATOL if a1 is None else a1, DEFAULT_ATOL if a2 is None else a2)
            ok, v = A.call(q.is_physical, a1, a2)
            judge(cx, "is_physical", e, broken, "mixed", "atol_eq_const=%r atol_ineq_const=%r" % (a1, a2), ok, v)
            if e is not None and a1 is not None and a2 is not None:
                e_sw, _ = exp_physical(meas, a2, a1)
                if e_sw is not None and e_sw != e:
                    out.count("%s:mixed_pair_disagree" % typ)
    # ---- atol through the global setting
    orig = Settings.get_atol()
    gres = {m: [] for m, _ in METHODS[typ]}
    grow = []
    try:
        for i, a in enumerate(grid):
            Settings.set_atol(float(a))
            for meth, cons in METHODS[typ]:
                e = exp_tab[cons][i]
                ok, v = A.call(verdict_fn(q, rs, meth))
                gres[meth].append(judge(cx, meth, e, cons, "global", "Settings.set_atol(%g)" % a, ok, v))
                if e is not None:
                    out.count("%s:%s:%s:global" % (typ, cons, e))
            e, broken = exp_physical(meas, a, a)
            ok, v = A.call(q.is_physical)
            grow.append(judge(cx, "is_physical", e, broken, "global", "Settings.set_atol(%g)" % a, ok, v))
            if e is not None:
                out.count("%s:physical:%s:global" % (typ, e))
            ok, v = A.call(build, typ, rs, raw, True)
            judge_ctor(cx, e, broken, a, ok, v)
    finally:
        Settings.set_atol(orig)
    for meth, _ in METHODS[typ]:
        monotone(cx, meth, "global", gres[meth])
    monotone(cx, "is_physical", "global", grow)
    if Settings.get_atol() != DEFAULT_ATOL:
        out.count("atol_not_restored")
    return n_assert


def ex_verdicts(typ, p, seed):
    out = COut()
    rs = F.refsys(p["tag"])
    spec = p["spec"]
    ref = F.alphabet_of(typ, rs.d, seed, ms_of(typ))[p["obj"]]
    bits = []
    n = nt = 0
    for kind, dl, raw in F.INPUTS[typ](rs, ref, LADDERS[spec], seed, DEEP[spec]):
        na = check_input(out, typ, rs, p["obj"], kind, dl, raw, spec, bits)
        n += 2 * len(GRIDS[spec])
        nt += 2 * len(GRIDS[spec]) if na else 0
    inner(out, n - 1, max(0, nt - 1))
    out.nontrivial = nt > 0
    out.digest = A.digest(np.array(bits, dtype=np.uint8))
    out.outcome = "ok" if not out.fails else "fail:%d-sigs" % len({f["sig"] for f in out.fails})
    return out


# ---------------------------------------------------------------- origin / zero objects

def raw_of(typ, q):
    if typ == "State":
        return np.array(q.vec, dtype=np.float64)
    if typ == "Povm":
        return [np.array(v, dtype=np.float64) for v in q.vecs]
    if typ == "Gate":
        return np.array(q.hs, dtype=np.float64)
    return [np.array(h, dtype=np.float64) for h in q.hss]


def n_elems(typ, raw):
    return len(raw) if typ in ("Povm", "MProcess") else 1


def ex_origin_zero(p, seed):
    from quara.settings import Settings
    out = COut()
    typ = p["type"]
    rs = F.refsys(p["tag"])
    asserted_origin = rs.tag in F.NORMALISED
    grid = GRIDS["full"]
    bits = []
    n = 0
    alph = F.alphabet_of(typ, rs.d, seed, ms_of(typ))
    for name, ref in alph.items():
        gen = F.INPUTS[typ](rs, ref, [0.25], seed, False)
        variants = []
        for kind, dl, raw in gen:
            variants.append((kind, raw))
        # the physical object and two non-physical ones (one with the equality, one with the inequality broken)
        picks = [variants[0]] + [v for v in variants[1:] if v[0].split("@")[0] in ("trace_scale-", "sum_scale-", "tp_scale-",
                                                                                "eig_push", "choi_push_tp", "choi_push")][:2]
        for kind, raw in picks:
            for flag in (True, False):
                n += 1
                # the parent object is built without the physicality requirement: the alphabet objects are physical
                # up to rounding only, which the verdict families judge with the band
                ok, q = A.call(build, typ, rs, raw, False, on_para_eq_constraint=flag)
                out.ops += 1
                if not ok:
                    out.fail("%s.__init__:raises-without-physicality-required:%s:basis=%s" % (typ, type(q).__name__, rs.bclass),
                             "%s %s/%s kind=%s: %s" % (typ, rs.tag, name, kind, A.fmt_exc(q)))
                    continue
                if kind != "none":
                    out.count("origin_from_nonphysical")
                desc = "%s %s/%s kind=%s on_para_eq_constraint=%r" % (typ, rs.tag, name, kind, flag)
                # ---- zero object
                ok, z = A.call(q.generate_zero_obj)
                out.ops += 1
                out.traces += 1
                if not ok:
                    out.fail("%s.generate_zero_obj:raises:%s:basis=%s" % (typ, type(z).__name__, rs.bclass), "%s: %s" % (desc, A.fmt_exc(z)))
                else:
                    zr = raw_of(typ, z)
                    ops = zr if isinstance(zr, list) else [zr]
                    worst = max(float(np.abs(rs.mat(v)).max()) if typ in ("State", "Povm") else float(np.abs(rs.superop_of_hs(v)).max()) for v in ops)
                    bits.append(1 if worst == 0 else 0)
                    if type(z) is not type(q):
                        out.fail("%s.generate_zero_obj:wrong-type:basis=%s" % (typ, rs.bclass), "%s: %r" % (desc, type(z)))
                    elif n_elems(typ, zr) != n_elems(typ, raw):
                        out.fail("%s.generate_zero_obj:wrong-number-of-elements:basis=%s" % (typ, rs.bclass), "%s: %d for %d" % (desc, n_elems(typ, zr), n_elems(typ, raw)))
                    elif worst != 0.0:
                        out.fail("%s.generate_zero_obj:not-the-zero-operator:basis=%s" % (typ, rs.bclass), "%s: largest entry %g" % (desc, worst))
                    elif z.composite_system is not q.composite_system:
                        out.fail("%s.generate_zero_obj:other-composite-system:basis=%s" % (typ, rs.bclass), desc)
                    else:
                        out.count("%s:zero_checked" % typ)
                # ---- origin object
                ok, o = A.call(q.generate_origin_obj)
                out.ops += 1
                out.traces += 1
                if not ok:
                    out.fail("%s.generate_origin_obj:raises:%s:basis=%s" % (typ, type(o).__name__, rs.bclass), "%s: %s" % (desc, A.fmt_exc(o)))
                    continue
                orw = raw_of(typ, o)
                meas = F.MEASURE[typ](rs, orw)
                by_def = F.expected(meas["eq"], DEFAULT_ATOL) is True and F.expected(meas["ineq"], DEFAULT_ATOL) is True
                bits.append(1 if by_def else 0)
                if not asserted_origin:
                    out.count("origin_%s_on_basis_outside_scope" % ("physical" if by_def else "nonphysical"))
                    continue
                if type(o) is not type(q) or n_elems(typ, orw) != n_elems(typ, raw):
                    out.fail("%s.generate_origin_obj:wrong-type-or-number-of-elements:basis=%s" % (typ, rs.bclass), desc)
                    continue
                if not by_def:
                    out.fail("%s.generate_origin_obj:not-physical-by-definition:basis=%s" % (typ, rs.bclass),
                             "%s: eq defect %r, ineq violation %r" % (desc, meas["eq"], meas["ineq"]))
                    continue
                good = True
                for a in [None] + grid:
                    ok, v = A.call(o.is_physical, a, a)
                    out.ops += 1
                    bits.append(1 if (ok and bool(v)) else 0)
                    if not ok or not bool(v):
                        good = False
                        out.fail("%s.generate_origin_obj:is_physical-false:basis=%s" % (typ, rs.bclass),
                                 "%s: origin.is_physical(%r, %r) -> %r" % (desc, a, a, v))
                        break
                # the origin object can be re-created with physicality required
                ok, v = A.call(build, typ, rs, orw, True)
                out.ops += 1
                if not ok:
                    good = False
                    out.fail("%s.__init__:rejected-physical:origin-object:basis=%s" % (typ, rs.bclass), "%s: %s" % (desc, A.fmt_exc(v)))
                if good:
                    out.count("%s:origin_physical" % typ)
    if Settings.get_atol() != DEFAULT_ATOL:
        out.count("atol_not_restored")
    inner(out, max(0, n - 1))
    out.digest = A.digest(np.array(bits, dtype=np.uint8))
    out.outcome = "ok" if not out.fails else "fail"
    return out


# ---------------------------------------------------------------- matrix_util.is_hermitian / is_positive_semidefinite

def ex_matrix_util(p, seed):
    from quara.settings import Settings
    import quara.utils.matrix_util as mutil
    out = COut()
    d, spec = p["d"], p["spec"]
    grid, ladder = GRIDS[spec], LADDERS[spec]
    U = A.eigenbases(d, seed)[p["eigenbasis"]]
    bits = []
    n = 0
    N1 = np.zeros((d, d), dtype=np.complex128)
    N1[0, d - 1] = 1.0                       # real, not symmetric
    N2 = np.zeros((d, d), dtype=np.complex128)
    N2[0, d - 1] = N2[d - 1, 0] = 1j          # symmetric, imaginary: not Hermitian
    inputs = []
    for sname, sp in A.spectra(d).items():
        H = R.hermitian_from(sp, U)
        inputs.append((sname, "none", 0.0, H))
        w = sorted(sp)
        for dl in ladder:
            # smallest eigenvalue replaced by -delta / +delta (the rest clipped to be non-negative)
            base = [max(x, 0.0) for x in w[1:]]
            inputs.append((sname, "min_eig=-delta", dl, R.hermitian_from([-dl] + base, U)))
            inputs.append((sname, "min_eig=+delta", dl, R.hermitian_from([dl] + base, U)))
            inputs.append((sname, "nonherm_real", dl, H + dl * N1))
            inputs.append((sname, "nonherm_imag", dl, H + dl * N2))
    for sname, kind, dl, M in inputs:
        K = M - M.conj().T
        hlo = float(np.abs(K).max())
        hint = (hlo, max(hlo, float(np.linalg.norm(K, 2)), float(np.linalg.norm(K))))
        lam = float(np.linalg.eigvalsh((M + M.conj().T) / 2).min())
        v = max(0.0, -lam)
        desc = "d=%d eigenbasis=%s spectrum=%s kind=%s delta=%g (hermiticity defect %.3g, min eig of hermitian part %.3g)" % (
            d, p["eigenbasis"], sname, kind, dl, hlo, lam)
        orig = Settings.get_atol()
        try:
            for mode in ("explicit", "global"):
                rows = {"herm": [], "psd": []}
                for a in grid:
                    n += 1
                    if mode == "global":
                        Settings.set_atol(float(a))
                        args = ()
                    else:
                        args = (a,)
                    eh = F.expected(hint, a)
                    ep = F.expected((v, v), a)
                    # a matrix that is not Hermitian is not positive semidefinite; a Hermitian one is judged by its spectrum
                    if eh is False:
                        e_psd = False
                    elif eh is True:
                        e_psd = ep      # the spectra of M's triangles and of its Hermitian part differ by <= atol/10
                    else:
                        e_psd = None
                    for site, fn, e in (("is_hermitian", mutil.is_hermitian, eh), ("is_positive_semidefinite", mutil.is_positive_semidefinite, e_psd)):
                        ok, got = A.call(fn, M, *args)
                        out.ops += 1
                        key = "herm" if site == "is_hermitian" else "psd"
                        if not ok or not isinstance(got, (bool, np.bool_)):
                            out.fail("matrix_util.%s:raises-or-non-bool:atol=%s" % (site, mode), "%s atol=%g: %r" % (desc, a, got))
                            rows[key].append(None)
                            bits.append(3)
                            continue
                        got = bool(got)
                        bits.append(1 if got else 0)
                        rows[key].append(got)
                        if e is None:
                            continue
                        out.traces += 1
                        out.count("mu:%s:%s" % (key, e))
                        if key == "psd" and e is False and eh is False:
                            out.count("mu:psd_nonhermitian_false")
                        if key == "psd" and e is True and lam < 0:
                            out.count("mu:psd_true_with_negative_eig")
                        if got != e:
                            if e is False:
                                cause = "non-hermitian" if (key == "herm" or eh is False) else "negative-eigenvalue"
                                size = hlo if cause == "non-hermitian" else v
                                out.fail("matrix_util.%s:false-accept:%s:%s:atol=%s" % (site, cause, magclass(size), mode),
                                         "%s: True at atol=%g" % (desc, a))
                            else:
                                out.fail("matrix_util.%s:false-reject:%s:atol=%s" % (site, "exact" if kind == "none" else "defect-below-atol/10", mode),
                                         "%s: False at atol=%g" % (desc, a))
                for key, row in rows.items():
                    seen = False
                    for x in row:
                        if x:
                            seen = True
                        elif x is False and seen:
                            out.fail("matrix_util.%s:not-monotone-in-atol:atol=%s" % ("is_hermitian" if key == "herm" else "is_positive_semidefinite", mode),
                                     "%s: %r over the ascending grid" % (desc, row))
                            break
        finally:
            Settings.set_atol(orig)
    if Settings.get_atol() != DEFAULT_ATOL:
        out.count("atol_not_restored")
    inner(out, max(0, n - 1))
    out.digest = A.digest(np.array(bits, dtype=np.uint8))
    out.outcome = "ok" if not out.fails else "fail"
    return out
