"""C02 extra families (added after round-2 seeded changes):

basis_sequence  several composite systems of the SAME shape but with DIFFERENT orthonormal Hermitian identity-first bases are
                built and used one after the other (every order): the sparse conversion paths of each system must use that
                system's basis (no state shared between systems).
layout          the matrix-input conversions get the same Hermitian matrix in several memory layouts (C order, Fortran
                order, transposed view of the transposed copy, strided view): the result must not depend on the layout.
"""
import itertools

import numpy as np

from mc import alphabet as A, refmodel as R
from mc.core import Out, inner
from mc.props._c02_ref import Ref
from mc.props._c02_common import check, check_list


def _bases(d, seed):
    """three different orthonormal Hermitian bases of d x d matrices with B_0 = I/sqrt(d)"""
    from quara.objects import matrix_basis as mb
    stock = [R.dense(b) for b in (mb.get_normalized_pauli_basis() if d == 2 else mb.get_normalized_gell_mann_basis())]
    n = d * d
    perm = [stock[0]] + stock[2:] + [stock[1]]
    a = R.angles(seed, (n - 1) * (n - 1), salt=5)
    G = np.array([np.cos(3 * a[i] + 0.7 * i) for i in range((n - 1) * (n - 1))]).reshape(n - 1, n - 1)
    Q, _ = np.linalg.qr(G)
    rot = [stock[0]] + [sum(Q[i, j] * stock[j + 1] for j in range(n - 1)) for i in range(n - 1)]
    return {"stock": stock, "permuted": perm, "rotated": rot}


def _system(basis_mats, name):
    from quara.objects.matrix_basis import MatrixBasis
    from quara.objects.elemental_system import ElementalSystem
    from quara.objects.composite_system import CompositeSystem
    return CompositeSystem([ElementalSystem(name, MatrixBasis([np.array(b) for b in basis_mats]))])


def ex_basis_sequence(p, seed):
    from quara.objects import state as qs, povm as qp, gate as qg
    from quara.objects.state import State
    from quara.objects.povm import Povm
    from quara.objects.gate import Gate
    out = Out()
    d = p["d"]
    bases = _bases(d, seed)
    rho = A.states_ref(d, seed)["mixed_generic"]
    Ms = A.povm_generic(d, 3, seed, salt=4)
    ks = A.gates_ref(d, seed)["kraus_generic_r2"]
    n = 0
    for order in itertools.permutations(sorted(bases)):
        for pos, bn in enumerate(order):
            n += 1
            c = _system(bases[bn], 0)
            ref = Ref(R.basis_mats(c))
            cfg = "d=%d:basis=%s:position=%d" % (d, bn, pos)
            det = "systems built and used in the order %r" % (order,)
            vec = ref.coef(rho).real
            st = State(c, np.ascontiguousarray(vec), is_physicality_required=False)
            check(out, "State.to_density_matrix_with_sparsity", "formula", cfg, A.call(st.to_density_matrix_with_sparsity), rho, det)
            check(out, "to_vec_from_density_matrix_with_sparsity", "formula", cfg, A.call(qs.to_vec_from_density_matrix_with_sparsity, c, rho), vec, det)
            check(out, "to_var_from_density_matrix", "formula", cfg, A.call(qs.to_var_from_density_matrix, c, rho, False), vec, det)
            vecs = [ref.coef(M).real for M in Ms]
            pv = Povm(c, [np.ascontiguousarray(v) for v in vecs], is_physicality_required=False)
            check_list(out, "Povm.matrices_with_sparsity", "formula", cfg, A.call(pv.matrices_with_sparsity), Ms, det)
            check_list(out, "to_vecs_from_matrices_with_sparsity", "formula", cfg, A.call(qp.to_vecs_from_matrices_with_sparsity, c, Ms), vecs, det)
            hs = R.hs_from_kraus(ks, list(ref.B)).real
            g = Gate(c, np.ascontiguousarray(hs), is_physicality_required=False)
            choi = ref.choi(hs)
            check(out, "Gate.to_choi_matrix_with_sparsity", "formula", cfg, A.call(g.to_choi_matrix_with_sparsity), choi, det)
            check(out, "to_hs_from_choi_with_sparsity", "formula", cfg, A.call(qg.to_hs_from_choi_with_sparsity, c, choi), hs, det)
            check(out, "Gate.to_choi_matrix_with_dict", "formula", cfg, A.call(g.to_choi_matrix_with_dict), choi, det)
            out.count("basis_sequence_steps")
            if pos > 0:
                out.count("basis_sequence_after_other_basis")
    inner(out, n - 1)
    out.outcome = "ok" if not out.fails else "fail"
    return out


def _layouts(M):
    M = np.ascontiguousarray(M)
    big = np.zeros((2 * M.shape[0], 2 * M.shape[1]), dtype=M.dtype)
    big[::2, ::2] = M
    return {"c": M, "fortran": np.asfortranarray(M), "transposed-view": np.ascontiguousarray(M.T).T, "strided": big[::2, ::2]}


def ex_layout(p, seed):
    from quara.objects import state as qs, povm as qp, gate as qg
    out = Out()
    tag = p["sys"]
    c = A.make_system(tag)
    ref = Ref(R.basis_mats(c))
    d = c.dim
    U = R.generic_unitary(d, seed, salt=2)
    rho = R.hermitian_from([0.5 ** (k + 1) for k in range(d - 1)] + [0.5 ** (d - 1)], U)       # genuinely complex
    vec = ref.coef(rho).real
    hs = R.hs_from_kraus(A.gates_ref(d, seed)["unitary_generic"], list(ref.B)).real
    choi = ref.choi(hs)
    for ln, X in _layouts(rho).items():
        cfg = "%s:layout=%s" % (tag, ln)
        det = "flags C=%s F=%s" % (X.flags["C_CONTIGUOUS"], X.flags["F_CONTIGUOUS"])
        check(out, "to_vec_from_density_matrix_with_sparsity", "formula", cfg, A.call(qs.to_vec_from_density_matrix_with_sparsity, c, X), vec, det)
        check(out, "to_var_from_density_matrix", "formula", cfg, A.call(qs.to_var_from_density_matrix, c, X, True), vec[1:], det)
        check(out, "to_vec_from_matrix_with_sparsity", "formula", cfg, A.call(qp.to_vec_from_matrix_with_sparsity, c, X), vec, det)
        out.count("layout_inputs")
        if not X.flags["C_CONTIGUOUS"]:
            out.count("layout_non_c_contiguous")
    for ln, X in _layouts(choi).items():
        cfg = "%s:layout=%s" % (tag, ln)
        det = "flags C=%s F=%s" % (X.flags["C_CONTIGUOUS"], X.flags["F_CONTIGUOUS"])
        check(out, "to_hs_from_choi", "formula", cfg, A.call(qg.to_hs_from_choi, c, X), hs, det)
        check(out, "to_hs_from_choi_with_dict", "formula", cfg, A.call(qg.to_hs_from_choi_with_dict, c, X), hs, det)
        check(out, "to_hs_from_choi_with_sparsity", "formula", cfg, A.call(qg.to_hs_from_choi_with_sparsity, c, X), hs, det)
        check(out, "to_var_from_choi", "formula", cfg, A.call(qg.to_var_from_choi, c, X, False), hs.ravel(), det)
        out.count("layout_inputs")
    out.outcome = "ok" if not out.fails else "fail"
    return out
