"""Runner shared by all property checks: bounded-exhaustive enumeration of
(family, params) cases over a process pool, known-finding triage, replay
files, evidence files.

A property module (mc/props/cNN.py) provides

    ID, RULE, ASSUMPTIONS
    families(tier, seed) -> list[(family_name, list_of_params)]   params are JSON-able
    execute(family, params, seed) -> Out
    guards(summary) -> list[str]            vacuity complaints (harness error if any)

Nothing is sampled: the families() lists are walked completely.
"""
import hashlib
import json
import multiprocessing as mp
import os
import signal
import subprocess
import sys
import time
import traceback
import fnmatch

VERIF = os.path.dirname(os.path.dirname(os.path.abspath(__file__)))
# evidence and replay files of a run against a scratch copy of the library (QUARA_REPO set by tools/try_seed.sh) go to VERIF_OUT,
# so that /verif/evidence always describes a run against /repo itself
OUTDIR = os.environ.get("VERIF_OUT") or VERIF
EVIDENCE_SCHEMA = "/root/.vp/EVIDENCE.schema.json"


class HarnessError(Exception):
    pass


class Out:
    """Result of executing one case."""

    __slots__ = ("outcome", "nontrivial", "fails", "ops", "traces", "states",
                 "transitions", "digest", "info")

    def __init__(self):
        self.outcome = ""       # short label of what was observed (distinct-outcome count)
        self.nontrivial = True  # by the module's RULE
        self.fails = []         # list of {"sig":..., "msg":...}
        self.ops = 0            # implementation operations executed under an oracle
        self.traces = 0         # reference-model predictions replayed on the implementation
        self.states = 0         # extra explicit states visited inside the case (BFS families)
        self.transitions = 0    # extra explicit transitions inside the case
        self.digest = ""        # hash of the observed values (determinism check)
        self.info = {}          # counters merged into the evidence (summed)

    def fail(self, sig, msg):
        self.fails.append({"sig": str(sig), "msg": str(msg)[:2000]})

    def count(self, key, n=1):
        self.info[key] = self.info.get(key, 0) + n

    def pack(self):
        return (self.outcome, self.nontrivial, self.fails, self.ops, self.traces,
                self.states, self.transitions, self.digest, self.info)


def canon(obj):
    return json.dumps(obj, sort_keys=True, separators=(",", ":"), default=str)


def chash(obj):
    return hashlib.sha1(canon(obj).encode()).hexdigest()[:16]


class _Timeout(Exception):
    pass


def _alarm(signum, frame):
    raise _Timeout()


_MOD = None
_SEED = 0


def _run_one(item):
    fam, params, tmo = item
    signal.signal(signal.SIGALRM, _alarm)
    signal.alarm(int(tmo))
    t0 = time.time()
    try:
        out = _MOD.execute(fam, params, _SEED)
        signal.alarm(0)
        return ("ok", out.pack(), time.time() - t0)
    except _Timeout:
        o = Out()
        o.outcome = "timeout"
        o.fail("timeout:%s" % fam, "case did not finish within %ss: %s" % (tmo, canon(params)[:300]))
        return ("ok", o.pack(), time.time() - t0)
    except BaseException:
        signal.alarm(0)
        return ("err", traceback.format_exc(), time.time() - t0)


def _run_chunk(chunk):
    return [_run_one(it) for it in chunk]


def load_known(prop):
    path = os.path.join(VERIF, "known_findings.json")
    if not os.path.exists(path):
        return []
    data = json.load(open(path))
    return [f for f in data.get("findings", []) if f.get("property") == prop]


def match_known(known, fam, sig):
    for k in known:
        if "family" in k and k["family"] != fam:
            continue
        if fnmatch.fnmatchcase(sig, k["sig"]):
            return k
    return None


def run_check(mod, tier, seed, nproc=None):
    global _MOD, _SEED
    _MOD, _SEED = mod, seed
    t0 = time.time()
    prop = mod.ID
    fams = mod.families(tier, seed)
    default_tmo = getattr(mod, "CASE_TIMEOUT", 600)
    items, fam_counts = [], {}
    for fam, plist in fams:
        plist = list(plist)
        fam_counts[fam] = len(plist)
        tmo = getattr(mod, "TIMEOUTS", {}).get(fam, default_tmo)
        for p in plist:
            items.append((fam, p, tmo))
    if not items:
        raise HarnessError("no cases enumerated")
    nproc = nproc or int(os.environ.get("VERIF_NPROC", "16"))
    nproc = max(1, min(nproc, len(items)))
    # deterministic sharding: contiguous small chunks, results re-assembled in order
    csize = max(1, min(64, len(items) // (nproc * 8) or 1))
    if getattr(mod, "CHUNK", None):
        csize = mod.CHUNK
    chunks = [items[i:i + csize] for i in range(0, len(items), csize)]
    results = []
    if nproc == 1:
        for ch in chunks:
            results.extend(_run_chunk(ch))
    else:
        ctx = mp.get_context("fork")
        with ctx.Pool(nproc) as pool:
            for part in pool.imap(_run_chunk, chunks):
                results.extend(part)
    assert len(results) == len(items)

    known = load_known(prop)
    seen, outcomes = set(), {}
    nontriv = set()
    ops = traces = xstates = xtrans = 0
    info = {}
    violations, known_hits, errors = [], {}, []
    fam_time = {}
    for (fam, params, _), (status, payload, dt) in zip(items, results):
        fam_time[fam] = fam_time.get(fam, 0.0) + dt
        if status == "err":
            errors.append((fam, params, payload))
            continue
        outcome, nt, fails, o, tr, st, trn, dig, inf = payload
        h = chash([fam, params])
        seen.add(h)
        if nt:
            nontriv.add(h)
        outcomes[fam + ":" + outcome] = outcomes.get(fam + ":" + outcome, 0) + 1
        ops += o
        traces += tr
        xstates += st
        xtrans += trn
        for k, v in inf.items():
            info[k] = info.get(k, 0) + v
        for f in fails:
            k = match_known(known, fam, f["sig"])
            if k is not None:
                e = known_hits.setdefault(k["sig"], {"k": k, "n": 0})
                e["n"] += 1
            else:
                violations.append((fam, params, f))
    if errors:
        fam, params, tb = errors[0]
        sys.stderr.write("HARNESS ERROR in %s family=%s params=%s\n%s\n" % (prop, fam, canon(params)[:500], tb))
        raise HarnessError("%d case(s) raised inside the harness" % len(errors))

    # determinism: the first and the last case are re-executed in this process
    for idx in sorted({0, len(items) - 1}):
        fam, params, _ = items[idx]
        st, payload, _ = _run_one(items[idx])
        if st != "ok" or payload[0] != results[idx][1][0] or payload[7] != results[idx][1][7] \
                or [f["sig"] for f in payload[2]] != [f["sig"] for f in results[idx][1][2]]:
            if violations:
                # the library's answer depends on what the executing process did before (itself a symptom of hidden
                # state); the violations found are reported, the re-execution mismatch is only noted
                print("NOTE: re-execution of case %d (%s) in the parent process gave a different outcome" % (idx, fam))
            else:
                raise HarnessError("non-deterministic re-execution of case %d (%s)" % (idx, fam))

    summary = {
        "evaluations": len(items) + info.get("_inner", 0), "distinct": len(seen) + info.get("_inner", 0),
        "distinct_nontrivial": len(nontriv) + info.get("_inner_nontrivial", 0),
        "outcomes": outcomes, "ops": ops, "traces": traces, "states": len(seen) + xstates + info.get("_inner", 0),
        "transitions": ops + xtrans, "cases": len(items), "families": fam_counts, "info": info,
        "known_hits": {k: v["n"] for k, v in known_hits.items()},
        "n_violations": len(violations),
    }
    # vacuity guards are only meaningful when no violation/known finding already distorts the run
    complaints = list(mod.guards(summary)) if hasattr(mod, "guards") else []

    # report
    for sig, e in sorted(known_hits.items()):
        print("KNOWN-FINDING: property=%s %s [%d case(s), sig=%s]" % (prop, e["k"]["what"], e["n"], sig))
    rdir = os.path.join(OUTDIR, "replays", prop)
    if os.path.isdir(rdir):
        for fn in os.listdir(rdir):
            if fn.endswith(".json"):
                os.unlink(os.path.join(rdir, fn))
    per_sig = {}
    vlines = []
    for fam, params, f in violations:
        n = per_sig.get(f["sig"], 0)
        per_sig[f["sig"]] = n + 1
        if n >= 2:
            continue
        os.makedirs(rdir, exist_ok=True)
        rec = {"property": prop, "family": fam, "params": params, "seed": seed, "sig": f["sig"], "msg": f["msg"]}
        path = os.path.join(rdir, "%s.json" % chash([fam, params, f["sig"]]))
        with open(path, "w") as fh:
            json.dump(rec, fh, indent=1, sort_keys=True, default=str)
        vlines.append((path, f))
    for path, f in vlines[:40]:
        print("VIOLATION property=%s replay=%s" % (prop, path))
        print("  sig=%s\n  %s" % (f["sig"], f["msg"].replace("\n", "\n  ")[:1200]))
    if violations:
        print("%d violating case-failures, %d distinct signatures" % (len(violations), len(per_sig)))
        for s, n in sorted(per_sig.items())[:60]:
            print("   %6d  %s" % (n, s))

    wall = time.time() - t0
    samples = []
    for idx in sorted({0, len(items) // 3, (2 * len(items)) // 3, len(items) - 1}):
        fam, params, _ = items[idx]
        samples.append({"family": fam, "params": params, "outcome": results[idx][1][0]})
    cov = {
        "states": summary["states"],
        "transitions": max(1, summary["transitions"]),
        "traces_validated_against_impl": traces,
        "samples": samples,
        "evaluations": summary["evaluations"],
        "distinct_nontrivial": summary["distinct_nontrivial"],
        "rule": mod.RULE,
        "exhaustive": bool(getattr(mod, "EXHAUSTIVE", {}).get(tier, True)),
        "distinct_outcomes": len(outcomes),
        "outcome_histogram": dict(sorted(outcomes.items())[:200]),
        "cases_per_family": fam_counts,
        "cpu_s_per_family": {k: round(v, 2) for k, v in fam_time.items()},
        "counters": info,
        "bounds": getattr(mod, "BOUNDS", {}).get(tier, ""),
        "known_findings_hit": summary["known_hits"],
        "workers": nproc,
    }
    ev = {
        "property_id": prop, "tier": tier, "seed": int(seed), "level": "model_checking",
        "coverage": cov, "assumptions": list(getattr(mod, "ASSUMPTIONS", [])),
        "wall_s": round(wall, 3), "violations": len(violations),
    }
    os.makedirs(os.path.join(OUTDIR, "evidence"), exist_ok=True)
    epath = os.path.join(OUTDIR, "evidence", "%s.json" % prop)
    with open(epath, "w") as fh:
        json.dump(ev, fh, indent=1, sort_keys=True, default=str)
    validate_evidence(epath)
    print("%s tier=%s seed=%d cases=%d evaluations=%d distinct=%d nontrivial=%d outcomes=%d ops=%d traces=%d states=%d wall=%.1fs violations=%d known=%d"
          % (prop, tier, seed, len(items), summary["evaluations"], summary["distinct"], summary["distinct_nontrivial"], len(outcomes), ops, traces,
             summary["states"], wall, len(violations), sum(summary["known_hits"].values())))
    if violations:
        return 1
    if complaints:
        for c in complaints:
            sys.stderr.write("VACUITY GUARD (%s): %s\n" % (prop, c))
        raise HarnessError("vacuous exploration")
    return 0


def validate_evidence(path):
    code = ("import json,sys,jsonschema;"
            "jsonschema.validate(json.load(open(sys.argv[1])),json.load(open(sys.argv[2])))")
    if not os.path.exists(EVIDENCE_SCHEMA):
        return
    env = {k: v for k, v in os.environ.items() if not k.startswith("PYTHON")}
    r = subprocess.run(["python3-vt", "-c", code, path, EVIDENCE_SCHEMA], capture_output=True, text=True, env=env)
    if r.returncode != 0:
        raise HarnessError("evidence file does not validate: " + r.stderr[-800:])


def run_replay(mod, path):
    rec = json.load(open(path))
    out = mod.execute(rec["family"], rec["params"], rec.get("seed", 0))
    if not out.fails:
        print("replay %s: no failure (property holds on this case now)" % path)
        return 0
    for f in out.fails:
        print("replay failure sig=%s\n  %s" % (f["sig"], f["msg"]))
    print("VIOLATION property=%s replay=%s" % (mod.ID, path))
    return 1


def inner(out, n, nontrivial=None):
    """account for n distinct elements enumerated inside one case"""
    out.count("_inner", n)
    out.count("_inner_nontrivial", n if nontrivial is None else nontrivial)
