#!/usr/bin/env python3
"""prints the markdown table of kept seeded changes from /verif/seeded/*/meta.json"""
import json, glob, os
rows = []
for f in sorted(glob.glob(os.path.join(os.path.dirname(__file__), "..", "seeded", "*", "meta.json"))):
    m = json.load(open(f))
    rows.append("| %s | %s | %s | %s |" % (m["id"], m["breaks_property"], m["needs_to_manifest"].replace("|", "/"), m["detected_by"].replace("|", "/")))
print("| seed | property | what it needs to manifest | detected by |\n|---|---|---|---|")
print("\n".join(rows))
