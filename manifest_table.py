NOT_YET = {}
TABLE = {
 "C20": dict(
  text="Every schedule list of the bounded language (26-item alphabet incl. malformed items, length <= 3 on 24 object-list configurations and length 4 on two; thorough one longer) is constructed on the real Experiment and compared with an independent predicate; setter histories are explored by BFS over the real setters; the four tomography classes are enumerated against their shape predicate; accepted POVM-terminated schedules are executed against the reference Born rule. Exhaustive within the stated bounds, which is the right level for a decision procedure over a combinatorial language.",
  ref="DESIGN.md section 4 C20", note="items outside the alphabet, object lists longer than 2, schedules longer than the bound are not explored; the reference predicate is my reading of the property sentence",
  technique="bounded-exhaustive enumeration of the schedule language + explicit-state BFS over setter histories on the real code, against a reference predicate"),
}
