"""C13 Results depend only on arguments: no hidden state, no operand mutation.

E2 explicit-state exploration, three machines:
  A  object / cache machine: pool of physical + non-physical objects of all four types on one composite system;
     state = which of the 9 lazily built tables of the system exist; every one of the 2^9 cache states is entered and
     from each the whole operation menu is executed on a deep copy of the pool; every transition is checked against the
     result table of a fresh pool (differential oracle) and against byte snapshots of every operand/observable.
  B  estimator machine: histories of calc_estimate calls re-using loss / algorithm objects over tomographies, datasets,
     weighting options, constraint options; invariant: estimate == fresh-objects estimate for the same arguments.
  C  immutability: write attempts into matrix bases / read-only vectors, copies independent of their originals.
"""
import copy
import itertools
import warnings

import numpy as np

from mc import alphabet as A, refmodel as R
from mc.core import Out, inner, HarnessError

ID = "C13"
RULE = ("machine A: all 2^9 cache states of a composite system x the full operation menu (queries, conversions, projections, "
        "compose, tensor, arithmetic, copies, cache deletions, tolerance changes) executed on deep copies of an object pool; "
        "machine B: all histories of estimator calls up to the depth bound, deduplicated on what each loss/algorithm object "
        "last processed; non-trivial = the transition starts from a non-initial state; distinct = distinct (state, operation)")
ASSUMPTIONS = ["canonical state of machine A = set of built cache tables: if the property holds no operation changes anything else "
               "observable, and the first transition that does is itself reported",
               "mutation through accessors that the menu does not call is not seen; the menu is the coverage statement",
               "MProcess objects in sampling mode are stateful by design (own generator) and are not part of the pool"]
BOUNDS = {"quick": "machine A on 1 qubit (512 cache states x menu) and qutrit (64-state sub-lattice); machine B depth 3",
          "thorough": "machine A on 1 qubit, qutrit (512 states) and 2 qubits (64-state sub-lattice); machine B depth 4"}
CASE_TIMEOUT = 3000

CACHES = ["_basis_basisconjugate", "_dict_from_hs_to_choi", "_dict_from_choi_to_hs", "_basis_T_sparse", "_basisconjugate_sparse",
          "_basisconjugate_basis_sparse", "_basis_basisconjugate_T_sparse", "_basis_basisconjugate_T_sparse_from_1",
          "_basishermitian_basis_T_from_1"]
BUILDERS = {  # attribute -> how to build it through the public interface
    "_basis_basisconjugate": lambda c: c.basis_basisconjugate((0, 0)),
    "_dict_from_hs_to_choi": lambda c: c.dict_from_hs_to_choi,
    "_dict_from_choi_to_hs": lambda c: c.dict_from_choi_to_hs,
    "_basis_T_sparse": lambda c: c.basis_T_sparse,
    "_basisconjugate_sparse": lambda c: c.basisconjugate_sparse,
    "_basisconjugate_basis_sparse": lambda c: c.basisconjugate_basis_sparse,
    "_basis_basisconjugate_T_sparse": lambda c: c.basis_basisconjugate_T_sparse,
    "_basis_basisconjugate_T_sparse_from_1": lambda c: c.basis_basisconjugate_T_sparse_from_1,
    "_basishermitian_basis_T_from_1": lambda c: c.basishermitian_basis_T_from_1,
}
DELETERS = {a: "delete" + a for a in CACHES if a != "_basis_basisconjugate"}


def flags(c_sys):
    return tuple(int(getattr(c_sys, a) is not None) for a in CACHES)


# ---------------------------------------------------------------- pool

def build_pool(systag, seed):
    from quara.settings import Settings
    c = A.make_system(systag)
    d = c.dim
    st = A.states_ref(d, seed)
    pv = A.povms_ref(d, seed, ms=(2, 3))
    gt = A.gates_ref(d, seed)
    ins = A.instruments_ref(d, seed, ms=(2, 3))
    pool = {"c": c}
    pool["s"] = A.q_state(c, st["mixed_generic"])
    pool["s2"] = A.q_state(c, st["pure_generic"])
    pool["p"] = A.q_povm(c, pv["generic_m3"])
    pool["g"] = A.q_gate(c, gt["kraus_generic_r2"])
    pool["g2"] = A.q_gate(c, gt["unitary_generic"])
    pool["m"] = A.q_mprocess(c, ins["feedback_m2"])
    pool["m3"] = A.q_mprocess(c, ins["multikraus_m3"])
    # non-physical twins
    U = R.generic_unitary(d, seed, salt=9)
    bad = R.hermitian_from([1.25] + [0.0] * (d - 2) + [-0.5], U)
    pool["su"] = A.q_state(c, bad, is_physicality_required=False)
    Mb = [M + (0.3 if k == 0 else -0.1) * bad for k, M in enumerate(pv["generic_m3"])]
    pool["pu"] = A.q_povm(c, Mb, is_physicality_required=False)
    from quara.objects.gate import Gate
    from quara.objects.mprocess import MProcess
    hs = pool["g"].hs.copy()
    hs[0, 1] += 0.2
    hs[1, 1] -= 0.7
    hs[d, 1] += 0.9
    pool["gu"] = Gate(c, hs, is_physicality_required=False)
    hss = [h.copy() for h in pool["m"].hss]
    hss[0][0, 2] += 0.3
    hss[1][1, 1] -= 0.8
    pool["mu"] = MProcess(c, hss, is_physicality_required=False)
    # a second, independent subsystem for tensor products
    nm = 7
    c2 = A.make_system("Q1", names=[nm])
    pool["c2"] = c2
    pool["t_s"] = A.q_state(c2, A.states_ref(2, seed)["pure_generic"])
    pool["t_p"] = A.q_povm(c2, A.povms_ref(2, seed, ms=(2,))["generic_m2"])
    pool["t_g"] = A.q_gate(c2, A.gates_ref(2, seed)["ampdamp"])
    pool["t_m"] = A.q_mprocess(c2, A.instruments_ref(2, seed, ms=(2,))["luders_m2"])
    return pool


OBJ_KEYS = ["s", "s2", "p", "g", "g2", "m", "m3", "su", "pu", "gu", "mu", "t_s", "t_p", "t_g", "t_m"]


def obs_obj(o):
    parts = [np.ascontiguousarray(o.to_stacked_vector()).tobytes()]
    parts.append(repr((o.is_physicality_required, o.is_estimation_object, o.on_para_eq_constraint, o.on_algo_eq_constraint,
                       o.on_algo_ineq_constraint, o.mode_proj_order, o.eps_proj_physical, o.eps_truncate_imaginary_part)).encode())
    if hasattr(o, "nums_local_outcomes"):
        parts.append(repr(list(o.nums_local_outcomes)).encode())
    if hasattr(o, "shape") and hasattr(o, "hss"):
        parts.append(repr((tuple(o.shape), o.mode_sampling, o.eps_zero)).encode())
    return b"|".join(parts)


def obs_sys(c):
    h = []
    for b in c.basis():
        h.append(np.ascontiguousarray(R.dense(b)).tobytes())
    h.append(repr((c.dim, c.num_e_sys, [e.name for e in c.elemental_systems], c.is_orthonormal_hermitian_0thprop_identity,
                   c.is_basis_hermitian)).encode())
    return b"|".join(h)


def observables(pool):
    from quara.settings import Settings
    out = {k: obs_obj(pool[k]) for k in OBJ_KEYS}
    out["c"] = obs_sys(pool["c"])
    out["c2"] = obs_sys(pool["c2"])
    out["atol"] = repr(Settings.get_atol()).encode()
    return out


def flat(res):
    """canonical bytes of an operation result"""
    from quara.objects.qoperation import QOperation
    if res is None:
        return b"None"
    if isinstance(res, (bool, int, float, complex, str, np.floating, np.integer, np.bool_)):
        return repr(res).encode()
    if isinstance(res, np.ndarray):
        return str(res.dtype).encode() + repr(res.shape).encode() + np.ascontiguousarray(res).tobytes()
    if hasattr(res, "toarray"):
        return flat(np.asarray(res.toarray()))
    if isinstance(res, (list, tuple)):
        return b"[" + b";".join(flat(x) for x in res) + b"]"
    if isinstance(res, dict):
        return b"{" + b";".join(flat(k) + b":" + flat(v) for k, v in sorted(res.items(), key=lambda kv: repr(kv[0]))) + b"}"
    if hasattr(res, "states") and hasattr(res, "prob_dist"):      # StateEnsemble
        return b"SE" + flat([s.vec for s in res.states]) + flat(res.prob_dist)
    if hasattr(res, "ps") and hasattr(res, "shape"):               # MultinomialDistribution
        return b"MD" + flat(np.asarray(res.ps)) + repr(tuple(res.shape)).encode()
    if isinstance(res, QOperation):
        return type(res).__name__.encode() + obs_obj(res) + repr([e.name for e in res.composite_system.elemental_systems]).encode()
    if isinstance(res, Exception):
        return ("EXC:" + type(res).__name__).encode()
    raise HarnessError("flat: unsupported result type %r" % type(res))


def menu(systag):
    """ordered list of (name, fn(pool)) - fn returns the result; every library call is the operation under test"""
    from quara.objects import gate as qg, state as qs, povm as qp, mprocess as qm
    from quara.objects.operators import compose_qoperations as comp, tensor_product as tens
    from quara.objects.state import State
    from quara.objects.povm import Povm
    from quara.objects.gate import Gate
    from quara.objects.mprocess import MProcess
    from quara.settings import Settings
    ops = []

    def op(name):
        def deco(fn):
            ops.append((name, fn))
            return fn
        return deco

    # --- queries
    for k in ("s", "su", "p", "pu", "g", "gu", "m", "mu"):
        ops.append(("is_physical:" + k, lambda P, k=k: (P[k].is_physical(), P[k].is_eq_constraint_satisfied(), P[k].is_ineq_constraint_satisfied())))
        ops.append(("to_var:" + k, lambda P, k=k: (P[k].to_var(), P[k].to_stacked_vector())))
        ops.append(("zero_origin:" + k, lambda P, k=k: (P[k].generate_zero_obj(), P[k].generate_origin_obj())))
    ops.append(("state.eigen", lambda P: (P["su"].calc_eigenvalues(), P["s"].is_trace_one(), P["s"].is_hermitian(), P["su"].is_positive_semidefinite())))
    ops.append(("povm.eigen", lambda P: (P["pu"].calc_eigenvalues(), P["p"].is_identity_sum(), P["pu"].is_positive_semidefinite(), P["p"].is_hermitian())))
    ops.append(("gate.verdicts", lambda P: (P["g"].is_tp(), P["gu"].is_cp(), P["m"].is_sum_tp(), P["mu"].is_cp())))
    # --- conversions
    ops.append(("state.density", lambda P: (P["s"].to_density_matrix(), P["su"].to_density_matrix_with_sparsity())))
    ops.append(("state.from_dm", lambda P: qs.to_vec_from_density_matrix_with_sparsity(P["c"], P["s2"].to_density_matrix())))
    ops.append(("state.var_dm", lambda P: (qs.to_density_matrix_from_var(P["c"], P["s"].to_var(), True), qs.to_var_from_density_matrix(P["c"], P["s"].to_density_matrix(), True))))
    ops.append(("povm.matrices", lambda P: (P["p"].matrices(), P["pu"].matrices_with_sparsity(), P["p"].matrix(1))))
    ops.append(("povm.from_matrices", lambda P: (qp.to_vecs_from_matrices_with_sparsity(P["c"], P["p"].matrices()), qp.to_matrices_from_var(P["c"], P["p"].to_var(), True), qp.to_var_from_matrices(P["c"], P["p"].matrices(), True))))
    ops.append(("gate.choi", lambda P: P["g"].to_choi_matrix()))
    ops.append(("gate.choi_dict", lambda P: P["gu"].to_choi_matrix_with_dict()))
    ops.append(("gate.choi_sparse", lambda P: P["g2"].to_choi_matrix_with_sparsity()))
    ops.append(("gate.hs_from_choi", lambda P: qg.to_hs_from_choi(P["c"], P["g"].to_choi_matrix_with_sparsity())))
    ops.append(("gate.hs_from_choi_dict", lambda P: qg.to_hs_from_choi_with_dict(P["c"], P["g"].to_choi_matrix_with_sparsity())))
    ops.append(("gate.hs_from_choi_sparse", lambda P: qg.to_hs_from_choi_with_sparsity(P["c"], P["g"].to_choi_matrix_with_sparsity())))
    ops.append(("gate.kraus", lambda P: (P["g"].to_kraus_matrices(), P["g2"].to_process_matrix())))
    ops.append(("gate.bases", lambda P: (P["g"].convert_basis(P["c"].comp_basis()), P["g"].convert_to_comp_basis(), P["g"].convert_to_comp_basis("column_major"))))
    # the two orderings of the computational basis requested separately (either may be the first request a system sees)
    ops.append(("comp_basis:column_major", lambda P: ([R.dense(b) for b in P["c"].comp_basis(mode="column_major")], P["gu"].convert_to_comp_basis("column_major"))))
    ops.append(("comp_basis:row_major", lambda P: ([R.dense(b) for b in P["c"].comp_basis()], P["gu"].convert_to_comp_basis(), P["s"].convert_basis(P["c"].comp_basis()))))
    ops.append(("gate.choi_var", lambda P: qg.to_choi_from_var(P["c"], P["g"].to_var(), True)))
    ops.append(("mprocess.choi", lambda P: (P["m"].to_choi_matrix(0), P["m3"].to_choi_matrix_with_dict(2), P["mu"].to_choi_matrix_with_sparsity(1))))
    ops.append(("mprocess.kraus_povm", lambda P: (P["m"].to_kraus_matrices(1), P["m3"].to_povm(), P["m"].to_process_matrix(0), P["m"].convert_to_comp_basis())))
    ops.append(("state.convert_basis", lambda P: (P["s"].convert_basis(P["c"].comp_basis()), P["p"].convert_basis(P["c"].comp_basis()))))
    # --- projections
    for k in ("su", "pu", "gu", "mu", "s", "g"):
        ops.append(("proj_eq:" + k, lambda P, k=k: P[k].calc_proj_eq_constraint()))
        ops.append(("proj_ineq:" + k, lambda P, k=k: P[k].calc_proj_ineq_constraint()))
    for k, cls in (("su", State), ("pu", Povm), ("gu", Gate), ("mu", MProcess)):
        ops.append(("proj_with_var:" + k, lambda P, k=k, cls=cls: (
            cls.calc_proj_eq_constraint_with_var(P["c"], P[k].to_stacked_vector(), on_para_eq_constraint=False),
            cls.calc_proj_ineq_constraint_with_var(P["c"], P[k].to_stacked_vector(), on_para_eq_constraint=False))))
        ops.append(("proj_physical:" + k, lambda P, k=k: P[k].calc_proj_physical(max_iteration=2000)))
        ops.append(("proj_physical_with_var:" + k, lambda P, k=k: P[k].calc_proj_physical_with_var(P[k].to_var(), on_para_eq_constraint=P[k].on_para_eq_constraint, max_iteration=2000)))
        ops.append(("func_proj:" + k, lambda P, k=k: (P[k].func_calc_proj_eq_constraint()(P[k].to_var()), P[k].func_calc_proj_ineq_constraint_with_var()(P[k].to_var()))))
        ops.append(("gradient:" + k, lambda P, k=k: P[k].calc_gradient(1)))
        ops.append(("generate_from_var:" + k, lambda P, k=k: P[k].generate_from_var(P[k].to_var())))
    # --- deriving a projection function for ANOTHER order of the constraint projections must leave the operand as it is
    for k in ("su", "pu", "gu", "mu"):
        ops.append(("func_proj_physical_other_order:" + k, lambda P, k=k: P[k].func_calc_proj_physical_with_var(
            mode_proj_order="ineq_eq" if P[k].mode_proj_order == "eq_ineq" else "eq_ineq")(P[k].to_var())))
    # --- sampling with explicit integer seeds (0 is a seed like any other): a function of the seed only
    def sample(P):
        from quara.objects.multinomial_distribution import MultinomialDistribution
        md = MultinomialDistribution(np.array([0.2, 0.3, 0.5]))
        return [md.execute_random_sampling(20, 2, sd) for sd in (0, 5, 0)]
    ops.append(("sampling:int-seeds", sample))
    # --- compose / tensor
    ops.append(("compose:g.s", lambda P: comp(P["g"], P["s"])))
    ops.append(("compose:p.s", lambda P: comp(P["p"], P["s2"])))
    ops.append(("compose:p.g", lambda P: comp(P["p"], P["g2"])))
    ops.append(("compose:g.g", lambda P: comp(P["g"], P["g2"])))
    ops.append(("compose:m.s", lambda P: comp(P["m"], P["s"])))
    ops.append(("compose:p.m", lambda P: comp(P["p"], P["m3"])))
    ops.append(("compose:m.g", lambda P: (comp(P["m"], P["g"]), comp(P["g2"], P["m3"]))))
    ops.append(("compose:chain", lambda P: comp(P["p"], P["g"], P["m"], P["g2"], P["s"])))
    ops.append(("tensor:state", lambda P: tens(P["s"], P["t_s"])))
    ops.append(("tensor:povm", lambda P: tens(P["t_p"], P["p"])))
    if systag == "Q1":
        ops.append(("tensor:gate", lambda P: tens(P["g"], P["t_g"])))
        ops.append(("tensor:mprocess", lambda P: tens(P["t_m"], P["m"])))
    # --- arithmetic
    ops.append(("arith:state", lambda P: (P["su"] + P["su"], P["su"] - P["su"], P["su"] * 2.5, 0.5 * P["su"], P["su"] / 4)))
    ops.append(("arith:povm", lambda P: (P["pu"] + P["pu"], P["pu"] * 3.0, P["pu"] / 2)))
    ops.append(("arith:gate", lambda P: (P["gu"] + P["gu"], P["gu"] - P["gu"], P["gu"] * 0.25)))
    ops.append(("arith:mprocess", lambda P: (P["mu"] + P["mu"], P["mu"] * 2.0)))

    # --- copies followed by writes into the copy / into returned arrays
    def copy_write(P, k):
        cp = P[k].copy()
        v = cp.to_stacked_vector()
        try:
            v[...] = 12345.0
        except ValueError:
            pass
        for attr in ("vec", "hs"):
            if hasattr(cp, attr) and not callable(getattr(cp, attr)):
                try:
                    getattr(cp, attr)[...] = -777.0
                except ValueError:
                    pass
        if hasattr(cp, "hss"):
            try:
                cp.hss[0][...] = 3.0
            except ValueError:
                pass
        if hasattr(cp, "vecs"):
            try:
                cp.vecs[0][...] = 3.0
            except ValueError:
                pass
        return P[k].to_stacked_vector()
    for k in ("s", "p", "g", "m"):
        ops.append(("copy_then_write:" + k, lambda P, k=k: copy_write(P, k)))

    def write_returned(P):
        out = []
        for fn in (lambda: P["s"].to_density_matrix(), lambda: P["g"].to_choi_matrix_with_sparsity(), lambda: P["p"].matrices()[0],
                   lambda: P["s"].to_var(), lambda: P["g"].to_var(), lambda: P["m"].to_var(), lambda: P["p"].to_var(),
                   lambda: P["g"].to_kraus_matrices()[0], lambda: P["m"].to_choi_matrix(0)):
            a = fn()
            try:
                a[...] = 99.0
            except (ValueError, TypeError):
                pass
            out.append(fn())
        return out
    ops.append(("write_into_returned_arrays", write_returned))
    # --- cache deletions
    for a, mname in DELETERS.items():
        ops.append((mname, lambda P, mname=mname: getattr(P["c"], mname)()))
    for a in CACHES:
        ops.append(("build" + a, lambda P, a=a: type(BUILDERS[a](P["c"])).__name__))

    # --- global tolerance changed, used, restored
    def with_atol(P, t):
        old = Settings.get_atol()
        Settings.set_atol(t)
        try:
            r = (P["su"].is_physical(), P["g"].is_physical(), P["pu"].is_eq_constraint_satisfied(), P["mu"].calc_proj_physical(max_iteration=500))
        finally:
            Settings.set_atol(old)
        return r
    ops.append(("atol:1e-6", lambda P: with_atol(P, 1e-6)))
    ops.append(("atol:1e-2", lambda P: with_atol(P, 1e-2)))
    return ops


_TABLE = {}


def fresh_table(systag, seed):
    key = (systag, seed)
    if key in _TABLE:
        return _TABLE[key]
    tab = {}
    base = build_pool(systag, seed)
    for name, fn in menu(systag):
        P = copy.deepcopy(base)
        with warnings.catch_warnings():
            warnings.simplefilter("ignore")
            ok, r = A.call(fn, P)
        tab[name] = flat(r if ok else r)
        if not ok:
            tab[name] = ("EXC:%s" % A.fmt_exc(r)).encode()
    _TABLE[key] = (base, tab)
    return _TABLE[key]


def enter_state(pool, target):
    """canonical path to a cache state: build every table group that is needed, then delete what must be absent"""
    c = pool["c"]
    for a, want in zip(CACHES, target):
        if want:
            BUILDERS[a](c)
    for a, want in zip(CACHES, target):
        if not want and getattr(c, a) is not None:
            if a in DELETERS:
                getattr(c, DELETERS[a])()
            else:
                return False
    return flags(c) == tuple(target)


def all_states(sub=None):
    out = []
    for bits in itertools.product((0, 1), repeat=len(CACHES)):
        out.append(bits)
    if sub:
        # sub-lattice: only vary the caches listed in sub, the others unset
        out = [b for b in out if all(v == 0 for a, v in zip(CACHES, b) if a not in sub)]
    return out


SUBLATTICE = ["_dict_from_hs_to_choi", "_dict_from_choi_to_hs", "_basis_T_sparse", "_basisconjugate_sparse", "_basisconjugate_basis_sparse",
              "_basis_basisconjugate_T_sparse"]


def families(tier, seed):
    fams = []
    casesA = []
    plan = [("Q1", None), ("Q3", SUBLATTICE)] if tier == "quick" else [("Q1", None), ("Q3", None), ("Q2", SUBLATTICE)]
    for systag, sub in plan:
        sts = all_states(sub)
        chunk = 8 if systag == "Q1" else 2 if systag == "Q3" else 1
        for i in range(0, len(sts), chunk):
            casesA.append({"sys": systag, "states": [list(s) for s in sts[i:i + chunk]]})
    fams.append(("cache_machine", casesA))
    fams.append(("immutability", [{"sys": s} for s in ("Q1", "Q3", "Q2")]))
    fams.append(("array_operands", [{}]))
    depth = 3 if tier == "quick" else 4
    from mc.props import _c13_estimator as E
    fams.append(("estimator_machine", [{"first": i, "depth": depth} for i in range(len(E.menu()))]))
    return fams


def guards(summary):
    g = []
    info = summary["info"]
    for k in ("cache_states_entered", "transitions_from_noninitial", "deletes_applied", "estimator_transitions", "estimator_states",
              "basis_write_attempts", "cache_state_changed_by_op", "mutator_calls"):
        if info.get(k, 0) < 1:
            g.append("never seen: " + k)
    if info.get("cache_states_entered", 0) < 512:
        g.append("fewer than 2^9 cache states entered: %d" % info.get("cache_states_entered", 0))
    return g


def execute(family, p, seed):
    if family == "cache_machine":
        return ex_cache(p, seed)
    if family == "cache_reachability":
        return ex_reach(p, seed)
    if family == "immutability":
        return ex_immut(p, seed)
    if family == "array_operands":
        return ex_operands(p, seed)
    from mc.props import _c13_estimator as E
    return E.execute(p, seed)


def ex_cache(p, seed):
    from quara.settings import Settings
    out = Out()
    systag = p["sys"]
    base, tab = fresh_table(systag, seed)
    ops = menu(systag)
    atol0 = Settings.get_atol()
    for target in p["states"]:
        target = tuple(target)
        S = copy.deepcopy(base)
        if not enter_state(S, target):
            raise HarnessError("cannot enter cache state %r" % (target,))
        out.count("cache_states_entered")
        obs0 = observables(S)
        # Operations run one after another on the SAME pool as long as the pool is provably back in the state
        # (same cache flags, byte-identical observables); otherwise a pristine copy of the state is taken.  This only
        # lengthens the histories behind each transition.
        P = copy.deepcopy(S)
        heavy = sum(target) in (0, 1, len(CACHES)) or target[1:4] == (1, 0, 1)
        for name, fn in ops:
            if name in ("tensor:gate", "tensor:mprocess") and not heavy:
                continue        # 2-qubit superoperator products (0.4 s each) only from 43 of the 512 states
            with warnings.catch_warnings():
                warnings.simplefilter("ignore")
                ok, r = A.call(fn, P)
            out.transitions += 1
            out.ops += 1
            if any(target):
                out.count("transitions_from_noninitial")
            got = flat(r) if ok else ("EXC:%s" % A.fmt_exc(r)).encode()
            dirty = False
            if got != tab[name]:
                out.fail("cache_machine:result-depends-on-history:%s:%s" % (systag, name.split(":")[0]),
                         "operation %s in cache state %r gives a different result than on a fresh pool%s" % (
                             name, dict(zip(CACHES, target)), "" if ok else " (raised %s)" % A.fmt_exc(r)))
                dirty = True
            obs1 = observables(P)
            for k in obs0:
                if obs0[k] != obs1[k]:
                    dirty = True
                    out.fail("cache_machine:operand-changed:%s:%s:%s" % (systag, name.split(":")[0], k),
                             "operation %s changed the observable value of pool member %s (cache state %r)" % (name, k, target))
            if Settings.get_atol() != atol0:
                Settings.set_atol(atol0)
                out.fail("cache_machine:atol-not-restored:%s" % name, "global tolerance left changed")
            if name.startswith("delete_"):
                out.count("deletes_applied")
                a = name[len("delete"):]
                if getattr(P["c"], a) is not None:
                    out.fail("cache_machine:delete-ineffective:%s" % name, "table still present")
            if flags(P["c"]) != target:
                out.count("cache_state_changed_by_op")
                # go back to the state: delete what the operation built; if that is impossible take the pristine copy
                if not enter_state(P, target):
                    dirty = True
            if dirty:
                P = copy.deepcopy(S)
    inner(out, out.transitions - 1)
    out.states = len(p["states"])
    out.outcome = "ok" if not out.fails else "fail"
    return out


def ex_reach(p, seed):
    """plain BFS from the initial pool over the cache-changing operations: the reachable set must be all 2^9 flag sets"""
    out = Out()
    base, _ = fresh_table(p["sys"], seed)
    c0 = copy.deepcopy(base["c"])
    seen = {flags(c0): c0}
    frontier = [c0]
    acts = [("b", a) for a in CACHES] + [("d", a) for a in DELETERS]
    while frontier:
        nxt = []
        for c in frontier:
            for kind, a in acts:
                cc = copy.deepcopy(c)
                if kind == "b":
                    BUILDERS[a](cc)
                else:
                    getattr(cc, DELETERS[a])()
                out.transitions += 1
                f = flags(cc)
                if f not in seen:
                    seen[f] = cc
                    nxt.append(cc)
        frontier = nxt
    out.states = len(seen)
    out.count("reachable_cache_states", len(seen))
    out.outcome = "reachable=%d" % len(seen)
    return out


def ex_immut(p, seed):
    """matrix bases cannot be modified; copies are independent"""
    from quara.objects import matrix_basis as mb
    out = Out()
    systag = p["sys"]
    c = A.make_system(systag)
    ref = [R.dense(b).copy() for b in c.basis()]

    def unchanged():
        return all(np.array_equal(R.dense(b), r) for b, r in zip(c.basis(), ref))

    attempts = [
        ("sparse-element-setitem-existing", lambda: c.basis()[1].__setitem__((int(np.nonzero(ref[1])[0][0]), int(np.nonzero(ref[1])[1][0])), 5.0)),
        ("sparse-element-setitem-new", lambda: c.basis()[1].__setitem__((int(np.argwhere(ref[1] == 0)[0][0]), int(np.argwhere(ref[1] == 0)[0][1])), 5.0)),
        ("sparse-element-data-write", lambda: c.basis()[1].data.__setitem__(0, 9.0)),
        ("basis-item-assignment", lambda: c.basis().__setitem__(1, c.basis()[0])),
        ("basis-tuple-element-setitem", lambda: c.basis().basis[1].__setitem__((0, 0), 7.0)),
        ("get_basis-element-data-write", lambda: c.get_basis(1).data.__setitem__(0, 4.0)),
    ]
    for name, fn in attempts:
        with warnings.catch_warnings():
            warnings.simplefilter("ignore")
            ok, r = A.call(fn)
        out.ops += 1
        out.count("basis_write_attempts")
        if not unchanged():
            out.fail("matrix_basis:modifiable:composite-system-basis:%s" % name, "%s: the write %s went through and changed the basis of the composite system" % (systag, name))
            c = A.make_system(systag)
    # dense named bases and their vectorised forms
    d = c.dim
    dense_bases = {"comp_basis": c.comp_basis(), "comp_basis_col": c.comp_basis("column_major")}
    if systag == "Q1":
        dense_bases.update({"pauli": mb.get_pauli_basis(), "normalized_pauli": mb.get_normalized_pauli_basis(), "hermitian": mb.get_hermitian_basis(2),
                            "vectorized": mb.get_normalized_pauli_basis().to_vect()})
    if systag == "Q3":
        dense_bases.update({"gell_mann": mb.get_normalized_gell_mann_basis(), "ggm": mb.get_normalized_generalized_gell_mann_basis(1, 3),
                            "vectorized": mb.get_gell_mann_basis().to_vect()})
    for bname, bs in dense_bases.items():
        before = [np.array(R.dense(x)).copy() for x in bs]
        for wname, fn in (("element-setitem", lambda: bs[1].__setitem__((0,) * np.asarray(R.dense(bs[1])).ndim, 5.0)),
                          ("item-assignment", lambda: bs.__setitem__(1, bs[0])),
                          ("basis-attr-element", lambda: bs.basis[0].__setitem__((0,) * np.asarray(R.dense(bs.basis[0])).ndim, 3.0))):
            with warnings.catch_warnings():
                warnings.simplefilter("ignore")
                ok, r = A.call(fn)
            out.ops += 1
            out.count("basis_write_attempts")
            after = [np.array(R.dense(x)) for x in bs]
            if not all(np.array_equal(a, b) for a, b in zip(before, after)):
                out.fail("matrix_basis:modifiable:%s:%s" % (bname, wname), "%s basis %s changed by %s" % (systag, bname, wname))
                break
    # the in-place mutators of an object (set_zero, set_mode_proj_order) must not change values obtained or derived earlier
    if systag in ("Q1", "Q3"):
        pool = build_pool(systag, seed)
        for k in ("s", "p", "g", "m", "su", "gu"):
            for flag in (True, False):
                base_obj = pool[k]
                ok, obj = A.call(base_obj.generate_from_var, base_obj.to_var(), is_physicality_required=False) if flag == base_obj.on_para_eq_constraint else \
                    A.call(lambda: type(base_obj)(base_obj.composite_system, base_obj._copy() if k not in ("m",) else base_obj._copy()[0],
                                                   is_physicality_required=False, on_para_eq_constraint=flag))
                if not ok:
                    raise HarnessError("cannot build pool variant %s flag=%s: %s" % (k, flag, A.fmt_exc(obj)))
                handed = {"stacked": obj.to_stacked_vector(), "var": obj.to_var()}
                var_in = np.array(obj.to_var(), dtype=np.float64).copy()
                derived = {"copy": obj.copy(), "from_var": obj.generate_from_var(var_in), "proj_eq": obj.calc_proj_eq_constraint()}
                snap_h = {n: np.array(a, dtype=np.float64).copy() for n, a in handed.items()}
                snap_v = var_in.copy()
                snap_d = {n: np.array(o.to_stacked_vector(), dtype=np.float64).copy() for n, o in derived.items()}
                for mut, fn in (("set_zero", lambda o: o.set_zero()), ("set_mode_proj_order", lambda o: o.set_mode_proj_order("ineq_eq"))):
                    target = obj if mut == "set_mode_proj_order" else obj
                    okm, r = A.call(fn, target)
                    out.ops += 1
                    out.count("mutator_calls")
                    if not okm:
                        out.fail("mutator:%s:raises:%s" % (mut, k), A.fmt_exc(r))
                        continue
                    for n, a in handed.items():
                        if not np.array_equal(np.asarray(a, dtype=np.float64), snap_h[n]):
                            out.fail("mutator:%s:changes-array-handed-out-earlier:%s:%s:flag=%s" % (mut, n, type(obj).__name__, flag),
                                     "%s.%s() changed the array returned earlier by to_%s()" % (type(obj).__name__, mut, "stacked_vector" if n == "stacked" else "var"))
                    if not np.array_equal(var_in, snap_v):
                        out.fail("mutator:%s:changes-callers-var:%s:flag=%s" % (mut, type(obj).__name__, flag), "var array given to generate_from_var earlier was changed")
                    for n, o in derived.items():
                        if not np.array_equal(np.asarray(o.to_stacked_vector(), dtype=np.float64), snap_d[n]):
                            out.fail("mutator:%s:changes-derived-object:%s:%s:flag=%s" % (mut, n, type(obj).__name__, flag),
                                     "object derived earlier by %s changed when the source was mutated" % n)
                # and the other direction: mutating a DERIVED object must not reach back into the source / the caller's var
                src_snap = np.array(pool[k].to_stacked_vector(), dtype=np.float64).copy()
                var2 = np.array(pool[k].to_var(), dtype=np.float64).copy()
                keep2 = var2.copy()
                okd, d2 = A.call(pool[k].generate_from_var, var2, is_physicality_required=False)
                if okd:
                    d2.set_zero()
                    out.ops += 1
                    if not np.array_equal(var2, keep2):
                        out.fail("mutator:set_zero:changes-callers-var-of-generate_from_var:%s" % type(obj).__name__,
                                 "set_zero() on an object generated from var zeroed the caller's var array")
                    if not np.array_equal(np.asarray(pool[k].to_stacked_vector(), dtype=np.float64), src_snap):
                        out.fail("mutator:set_zero:changes-source-object:%s" % type(obj).__name__, "set_zero() on a derived object changed its source")
    # objects of equal value behave equally, however they were made: the zero / origin objects an object hands out against the same
    # values given to the constructor (elements sharing one array inside the object show up here)
    if systag in ("Q1", "Q3"):
        pool = build_pool(systag, seed)
        for k in ("s", "p", "g", "m", "m3"):
            base_obj = pool[k]
            for maker in ("generate_zero_obj", "generate_origin_obj"):
                okz, z = A.call(getattr(base_obj, maker))
                if not okz:
                    continue
                if hasattr(z, "hss"):
                    cont, extra = [np.array(h, dtype=np.float64) for h in z.hss], {"shape": tuple(z.shape)}
                elif hasattr(z, "vecs"):
                    cont, extra = [np.array(v, dtype=np.float64) for v in z.vecs], {}
                else:
                    cont, extra = np.array(z.hs if hasattr(z, "hs") else z.vec, dtype=np.float64), {}
                okc, twin = A.call(lambda: type(base_obj)(base_obj.composite_system, cont, is_physicality_required=False,
                                                         on_para_eq_constraint=base_obj.on_para_eq_constraint, **extra))
                if not okc:
                    raise HarnessError("cannot rebuild %s of %s through the constructor: %s" % (maker, k, A.fmt_exc(twin)))
                for meth in ("calc_proj_eq_constraint", "calc_proj_ineq_constraint", "to_var"):
                    ok1, r1 = A.call(getattr(z, meth))
                    ok2, r2 = A.call(getattr(twin, meth))
                    out.ops += 2
                    out.count("equal_value_twins_compared")
                    def val(ok, r):
                        if not ok:
                            return "EXC:" + type(r).__name__
                        return np.array(r.to_stacked_vector() if hasattr(r, "to_stacked_vector") else r, dtype=np.float64).ravel()
                    f1, f2 = val(ok1, r1), val(ok2, r2)
                    differ = (f1 != f2) if isinstance(f1, str) or isinstance(f2, str) else (f1.shape != f2.shape or np.abs(f1 - f2).max() > 1e-12)
                    if differ:
                        out.fail("equal-values-behave-differently:%s:%s:%s" % (type(base_obj).__name__, maker, meth),
                                 "%s: %s() of the object from %s() differs from the same call on an object with the same values built by the constructor" % (
                                     systag, meth, maker))
    # the source list handed to MatrixBasis is not aliased
    src = [np.array(R.dense(x)) for x in c.comp_basis()]
    mbs = mb.MatrixBasis(src)
    src[1][0, 0] = 42.0
    if R.dense(mbs[1])[0, 0] == 42.0:
        out.fail("matrix_basis:aliases-constructor-argument", "MatrixBasis shares memory with the list it was built from")
    out.outcome = "ok" if not out.fails else "fail"
    return out


# ================================================================== array-level operations: operands untouched, results repeatable

def _dist_alphabet():
    """probability vectors: interior, with exact zeros, with entries below / at / above the 1e-8 regularisation threshold"""
    out = {}
    for m in (2, 3, 4):
        base = np.array([0.4, 0.3, 0.2, 0.1][:m], dtype=np.float64)
        out["interior:m=%d" % m] = base / base.sum()
        z = np.zeros(m)
        z[0] = 1.0
        out["one-outcome:m=%d" % m] = z
        for eps_name, e in (("below-threshold", 3e-9), ("at-threshold", 1e-8), ("above-threshold", 2e-8)):
            v = base / base.sum()
            v = v.copy()
            v[-1] = e
            v[0] += 1.0 - v.sum()
            out["%s:m=%d" % (eps_name, m)] = v
        if m >= 3:
            v = np.zeros(m)
            v[0], v[1] = 0.75, 0.25
            out["two-zero-free:m=%d" % m] = v
    return out


def ex_operands(p, seed):
    """E1: every array-level routine of utils.matrix_util / math.* in the table x the operand alphabet; operands are
    snapshotted bitwise before and compared after the call; the call is repeated and must return the same value."""
    from quara.utils import matrix_util as mu
    from quara.math import entropy, func_proj, matrix as qmat, norm, probability
    out = Out()
    dists = _dist_alphabet()
    G = R.generic_matrix(3, seed, salt=2)
    Hm = G + G.conj().T
    Rm = np.real(R.generic_matrix(4, seed, salt=5)).copy()
    rows = []       # (name, input class, function, operand builder -> list of arrays (positional), kwargs)

    def add(name, icls, fn, build, **kw):
        rows.append((name, icls, fn, build, kw))

    for dn, q in dists.items():
        m = len(q)
        icls = dn.split(":")[0]
        other = np.roll(dists["interior:m=%d" % m], 1).copy()
        add("replace_prob_dist", icls, mu.replace_prob_dist, lambda q=q: [q.copy()])
        add("replace_prob_dist(eps)", icls, lambda a: mu.replace_prob_dist(a, 1e-6), lambda q=q: [q.copy()])
        add("calc_covariance_mat", icls, lambda a: mu.calc_covariance_mat(a, 50), lambda q=q: [q.copy()])
        add("calc_covariance_mat_total", icls, lambda a, b: mu.calc_covariance_mat_total([(50, a), (20, b)]), lambda q=q, o=other: [q.copy(), o.copy()])
        grad = np.real(R.generic_matrix(4, seed, salt=m)[:m, :3]).copy()
        grad -= grad.mean(axis=0)
        add("calc_fisher_matrix", icls, lambda a, g: mu.calc_fisher_matrix(a, list(g)), lambda q=q, g=grad: [q.copy(), g.copy()])
        add("calc_fisher_matrix_total", icls, lambda a, b, g: mu.calc_fisher_matrix_total([a, b], [list(g), list(g)], [0.3, 0.7]),
            lambda q=q, o=other, g=grad: [q.copy(), o.copy(), g.copy()])
        add("calc_se", icls, lambda a, b: mu.calc_se([a, b], [b, a]), lambda q=q, o=other: [q.copy(), o.copy()])
        add("calc_mse_prob_dists", icls, lambda a, b: mu.calc_mse_prob_dists([[a, b], [b, a]], [[b, b], [a, a]]), lambda q=q, o=other: [q.copy(), o.copy()])
        add("validate_prob_dist", icls, lambda a: probability.validate_prob_dist(a), lambda q=q: [q.copy()])
        add("round_varz_vector", icls, lambda a: entropy.round_varz_vector(a, 1e-10), lambda q=q: [q.copy()])
        add("relative_entropy_vector", icls, lambda a, b: entropy.relative_entropy_vector(a, b), lambda q=q, o=other: [q.copy(), o.copy()])
        add("relative_entropy_vector(swapped)", icls, lambda a, b: entropy.relative_entropy_vector(b, a), lambda q=q, o=other: [q.copy(), o.copy()])
        add("gradient_relative_entropy_2nd_vector", icls, lambda a, b, g: entropy.gradient_relative_entropy_2nd_vector(a, b, g),
            lambda q=q, o=other, g=grad: [q.copy(), o.copy(), g.copy()])
        add("l2_norm", icls, lambda a, b: norm.l2_norm(a, b), lambda q=q, o=other: [q.copy(), o.copy()])
        add("proj_to_nonnegative", icls, lambda a: func_proj.proj_to_nonnegative()(a), lambda q=q: [(q - 0.2).copy()])
        add("proj_to_hyperplane", icls, lambda a, b: func_proj.proj_to_hyperplane(a)(b), lambda q=q, o=other: [q.copy(), o.copy()])
        add("proj_to_self", icls, lambda a: func_proj.proj_to_self()(a), lambda q=q: [q.copy()])
        add("multiply_veca_vecb", icls, lambda a, b: qmat.multiply_veca_vecb(a, b), lambda q=q, o=other: [q.copy(), o.copy()])
    for mn, Mx in (("generic-complex", G), ("hermitian", Hm), ("tiny-imaginary", Hm.real + 1e-16j * G.imag), ("tiny-entries", Hm * 1e-15 + np.eye(3))):
        add("truncate_imaginary_part", mn, lambda a: mu.truncate_imaginary_part(a, 1e-14), lambda Mx=Mx: [Mx.copy()])
        add("truncate_computational_fluctuation", mn, lambda a: mu.truncate_computational_fluctuation(a, 1e-14), lambda Mx=Mx: [Mx.copy()])
        add("truncate_hs", mn, lambda a: mu.truncate_hs(a, 1e-14, is_zero_imaginary_part_required=False), lambda Mx=Mx: [Mx.copy()])
        add("truncate_and_normalize", mn, lambda a: mu.truncate_and_normalize(a, 1e-14), lambda Mx=Mx: [np.abs(Mx.real).copy()])
        add("calc_direct_sum", mn, lambda a, b: mu.calc_direct_sum([a, b]), lambda Mx=Mx: [Mx.copy(), Mx.T.copy()])
        add("calc_conjugate", mn, lambda a, b: mu.calc_conjugate(a, b), lambda Mx=Mx: [Mx.copy(), Mx.conj().copy()])
        add("calc_left_inv", mn, lambda a: mu.calc_left_inv(a), lambda Mx=Mx: [(Mx + 3 * np.eye(3)).copy()])
        add("partial_trace1", mn, lambda a: mu.partial_trace1(a, 2), lambda Mx=Mx: [np.kron(Mx[:2, :2], Mx[:2, :2]).copy()])
        add("is_hermitian", mn, lambda a: mu.is_hermitian(a), lambda Mx=Mx: [Mx.copy()])
        add("is_positive_semidefinite", mn, lambda a: mu.is_positive_semidefinite(a), lambda Mx=Mx: [Mx.copy()])
        add("project_to_traceless_matrix", mn, lambda a: qmat.project_to_traceless_matrix(a), lambda Mx=Mx: [Mx.copy()])
        add("convert_list_by_permutation_matrix", mn, lambda a, b: mu.convert_list_by_permutation_matrix([a, b, a + b], np.eye(3)[[2, 0, 1]]),
            lambda Mx=Mx: [Mx.copy(), Mx.T.copy()])
        add("multiply_veca_vecb_matc", mn, lambda a, b, c: qmat.multiply_veca_vecb_matc(a, b, c), lambda Mx=Mx: [Mx[0].real.copy(), Mx[1].real.copy(), Mx.real.copy()])

    def same(a, b):
        try:
            if isinstance(a, (list, tuple)):
                return len(a) == len(b) and all(same(x, y) for x, y in zip(a, b))
            return np.array_equal(np.asarray(a), np.asarray(b), equal_nan=True)
        except Exception:
            return a == b

    for name, icls, fn, build, kw in rows:
        args = build()
        snaps = [a.copy() for a in args]
        with warnings.catch_warnings():
            warnings.simplefilter("ignore")
            ok, r1 = A.call(fn, *args)
        out.ops += 1
        out.count("operand_calls")
        changed = [i for i, (a, s0) in enumerate(zip(args, snaps)) if a.shape != s0.shape or not np.array_equal(a, s0, equal_nan=True)]
        if changed:
            out.fail("array_operands:operand-modified:%s:%s" % (name, icls), "argument(s) %s changed by the call: %r -> %r" % (
                changed, snaps[changed[0]].tolist(), args[changed[0]].tolist()))
            continue
        if not ok:
            out.count("operand_call_raises")
            continue
        keep = copy.deepcopy(r1)
        with warnings.catch_warnings():
            warnings.simplefilter("ignore")
            ok2, r2 = A.call(fn, *[s0.copy() for s0 in snaps])
        out.ops += 1
        out.traces += 1
        if not ok2 or not same(r2, keep):
            out.fail("array_operands:result-not-repeatable:%s:%s" % (name, icls), "second call with equal arguments: %s" % (A.fmt_exc(r2) if not ok2 else "different value"))
        elif not same(r1, keep):
            out.fail("array_operands:earlier-result-changed-by-later-call:%s:%s" % (name, icls), "the value returned first changed during the second call")
        else:
            out.count("operand_rows_ok")
    out.states = len(rows)
    inner(out, max(len(rows) - 1, 0))
    out.outcome = "ok" if not out.fails else "fail"
    return out
