#!/usr/bin/env python3
"""line-ending preserving exact-text replacement in a /repo source file.
usage: repo_edit.py FILE OLD_FILE NEW_FILE   (OLD/NEW are text files with \n newlines; OLD must occur exactly once)"""
import sys
p, fo, fn = sys.argv[1:4]
s = open(p, newline="").read()
nl = "\r\n" if "\r\n" in s else "\n"
old = open(fo).read().replace("\n", nl)
new = open(fn).read().replace("\n", nl)
assert s.count(old) == 1, "OLD occurs %d times" % s.count(old)
open(p, "w", newline="").write(s.replace(old, new))
print("edited", p, "newline", repr(nl))
