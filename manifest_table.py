NOT_YET = {}
TABLE = {
 "C20": dict(
  text="Every schedule list of the bounded language (26-item alphabet incl. malformed items, length <= 3 on 24 object-list configurations and length 4 on two; thorough one longer) is constructed on the real Experiment and compared with an independent predicate; setter histories are explored by BFS over the real setters; the four tomography classes are enumerated against their shape predicate; accepted POVM-terminated schedules are executed against the reference Born rule. Exhaustive within the stated bounds, which is the right level for a decision procedure over a combinatorial language.",
  ref="DESIGN.md section 4 C20", note="items outside the alphabet, object lists longer than 2, schedules longer than the bound are not explored; the reference predicate is my reading of the property sentence",
  technique="bounded-exhaustive enumeration of the schedule language + explicit-state BFS over setter histories on the real code, against a reference predicate"),
 "C04": dict(
  text="For every type, outcome count 2..5, system (1 qubit, qutrit, 2 qubits, qubit x qutrit) the object-level, variable-level (both parametrisations) and closure forms of both projections are run on every tuple of Hermitian blocks of a structured alphabet (spectrum patterns x eigenbases incl. genuinely complex, scales 1e-3..1e3 and mixed) and compared with reference projections in an isometric frame; nearest-point-ness over ALL feasible competitors is decided by the Moreau certificate / pseudo-inverse identity; idempotence, fixed points and byte snapshots of arguments are checked on every case.",
  ref="DESIGN.md sections 3 and 4 C04", note="inputs outside the block alphabet are not covered (projections are non-linear); numpy eigh / pinv are the trusted base of the reference",
  technique="bounded-exhaustive enumeration of block tuples on the real projections, with optimality certificates complete over competitors"),
}
