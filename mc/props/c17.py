"""C17 Every catalogued object is physical and self-consistent.

E1, complete enumeration of the finite catalogues of quara/objects/*_typical.py (and the legacy named
constructors / named bases): every listed name on every system it is listed for, in every listed object_name form,
with every qubit-id (role) permutation for the asymmetric gates, against textbook tables written in
mc/props/_c17_ref.py (no quara code) and reference physicality verdicts (trace / eigenvalues / Choi matrix).
Names outside a catalogue (misspelt, wrong system, empty) must raise.
"""
import itertools

from mc.props import _c17_gate as GT
from mc.props import _c17_misc as MS
from mc.props import _c17_out as OU
from mc.props import _c17_sp as SP

ID = "C17"
RULE = ("one element = one (catalogue, name, system, id-permutation) tuple checked in all its object_name forms; names come "
        "from the library's get_*_names* functions (enumerated completely, expected counts guarded), systems from the "
        "catalogue a name is listed in; composite measurement-process names are the '_' products of the listed single names "
        "on 2/3 qubits and 2 qutrits; outside names = a fixed set of 15 misspelling operators applied to every listed name "
        "+ the empty string + every listed name on every other system; all elements are non-trivial")
ASSUMPTIONS = [
    "the oracle is the textbook table mc/props/_c17_ref.py (rotation sign exp(-i theta/2 sigma), role order of ids and "
    "outcome order of x/y/z measurements taken from the library's docstrings); the Bell-measurement outcome order is compared "
    "as a set because it is the library's to choose",
    "global phases of pure-state vectors and unitary matrices are not compared (only |<ref|v>| = 1 and channel equality)",
    "state ensembles have no documented meaning beyond 'list of states + distribution': only generation, physicality and "
    "agreement of the element / object / dispatcher forms are checked",
    "hidden dispatcher entries that are not listed by a get_*_names function (POVM 'xxparity', 'zzparity') are not treated as "
    "outside names",
    "2-qutrit gate names: the effective-Lindbladian forms and the mirror are checked on a sub-stride only (9.6 s per name in "
    "the library's basis conversion); see BOUNDS",
]
BOUNDS = {
    "quick": "complete: all state (749) / POVM (112) / ensemble (7) names, gate + effective-Lindbladian names (identity on 6 "
             "systems, 15 1-qubit, 5 2-qubit x both role orders x 2 id sets, 2 3-qubit x 6 role permutations x 2 id sets, 18 "
             "1-qutrit), 13 single + 36 2-qubit + 252 3-qubit + 16 2-qutrit composite measurement-process names, all in every "
             "listed object_name form; 30 named-basis calls, 20 generate_composite_system calls, legacy constructors on 2 bases, "
             "testers, about 16000 outside names. NOT exhaustive stratum: 2-qutrit gate names every 13th of the 39204 (3016 "
             "names, the three gate forms called directly) + every 9th single-base name (22 names) also through both dispatchers and "
             "in the four effective-Lindbladian forms",
    "thorough": "as quick, with ALL 39204 2-qutrit gate names in all three gate forms (dispatcher routes, effective-Lindbladian "
                "forms and mirror on the 198 single-base names and every 97th two-base name = 601 names) and the 343 3-qubit tester states",
}
EXHAUSTIVE = {"quick": False, "thorough": True}
CASE_TIMEOUT = 900
TIMEOUTS = {"gate2qt": 1800, "mprocess": 900}

EXPECTED = {"state": 749, "povm": 112, "gate2qt_total": 39204, "mprocess_single": 13, "ensemble": 3}


def chunks(xs, n):
    return [xs[i:i + n] for i in range(0, len(xs), n)]


def state_catalogue():
    from quara.objects import state_typical as st
    return [("Q1", st.get_state_names_1qubit()), ("D2,2", st.get_state_names_2qubit()), ("D2,2,2", st.get_state_names_3qubit()),
            ("Q3", st.get_state_names_1qutrit()), ("D3,3", st.get_state_names_2qutrit())]


def povm_catalogue():
    from quara.objects import povm_typical as pt
    return [("Q1", pt.get_povm_names_1qubit()), ("D2,2", pt.get_povm_names_2qubit()), ("D2,2,2", pt.get_povm_names_3qubit()),
            ("Q3", pt.get_povm_names_1qutrit()), ("D3,3", pt.get_povm_names_2qutrit())]


def mprocess_catalogue(tier):
    """(tag, name, stratum) ; singles are the listed names, composites their '_' products"""
    from quara.objects import mprocess_typical as mt
    from mc.props import _c17_ref as T
    singles = mt.get_mprocess_names_type1() + mt.get_mprocess_names_type2()
    by_dims = {}
    for s in singles:
        try:
            dims = T.mprocess_single(s)[1]
        except KeyError:
            dims = None
        by_dims.setdefault(dims, []).append(s)
    q1, q2, t1 = by_dims.get((2,), []), by_dims.get((2, 2), []), by_dims.get((3,), [])
    out = []
    for dims, ns in by_dims.items():
        tag = {(2,): "Q1", (2, 2): "D2,2", (3,): "Q3", None: "Q1"}[dims]
        out += [(tag, n, "single") for n in ns]
    out += [("D2,2", a + "_" + b, "pair") for a, b in itertools.product(q1, repeat=2)]
    triples = ["_".join(t) for t in itertools.product(q1, repeat=3)] + [a + "_" + b for a in q2 for b in q1] + [b + "_" + a for a in q2 for b in q1]
    tpairs = [a + "_" + b for a, b in itertools.product(t1, repeat=2)]
    out += [("D2,2,2", n, "triple") for n in triples]
    out += [("D3,3", n, "qutrit-pair") for n in tpairs]
    return out, len(singles)


def gate_cases():
    from quara.objects import gate_typical as gt
    cases = []
    for tag in ("Q1", "D2,2", "D2,2,2", "Q3", "D3,3", "D2,3"):
        cases.append({"name": "identity", "sys": tag})
    for n in gt.get_gate_names_1qubit():
        cases.append({"name": n, "sys": "Q1"})
    cases.append({"name": "hadamard", "sys": "Q1", "sysnames": [5]})
    for n in gt.get_gate_names_2qubit():
        for sn in ([0, 1], [3, 7]):
            for ids in (sn, sn[::-1]):
                cases.append({"name": n, "sys": "D2,2", "sysnames": sn, "ids": list(ids)})
    for n in gt.get_gate_names_1qutrit():
        cases.append({"name": n, "sys": "Q3"})
    for n in gt.get_gate_names_3qubit():
        for sn in ([0, 1, 2], [2, 5, 7]):
            for ids in itertools.permutations(sn):
                cases.append({"name": n, "sys": "D2,2,2", "sysnames": sn, "ids": list(ids)})
    return cases


def action_cases():
    from quara.objects import gate_typical as gt, state_typical as st
    cases = []
    s1, s2, s3, t1 = st.get_state_names_1qubit(), st.get_state_names_2qubit(), st.get_state_names_3qubit(), st.get_state_names_1qutrit()
    for n in gt.get_gate_names_1qubit():
        cases.append({"name": n, "sys": "Q1", "states": s1})
    for n in gt.get_gate_names_2qubit():
        for ids in ([0, 1], [1, 0]):
            cases.append({"name": n, "sys": "D2,2", "ids": ids, "states": s2})
    for n in gt.get_gate_names_3qubit():
        for ids in itertools.permutations([0, 1, 2]):
            cases.append({"name": n, "sys": "D2,2,2", "ids": list(ids), "states": s3})
    for n in gt.get_gate_names_1qutrit():
        cases.append({"name": n, "sys": "Q3", "states": t1})
    return cases


def gate2qt_cases(tier):
    """light cases: unitary_mat + gate_mat + gate forms and both dispatchers; full cases: also the effective-Lindbladian
    forms and the mirror (about 80x more expensive: the library's basis conversion of an 81x81 generator)"""
    from quara.objects import gate_typical as gt
    names = gt.get_gate_names_2qutrit()
    single = gt.get_gate_names_2qutrit_single_base_matrix()
    two = names[len(single):]
    cases = []
    if tier == "quick":
        full = single[::9]
        light = names[::13]
    else:
        full = single + two[::97]
        light = names
    fullset = set(full)
    light = [n for n in light if n not in fullset]
    for ch in chunks(full, 2):
        cases.append({"names": ch, "mat": True, "el": True})
    for ch in chunks(light, 24):
        cases.append({"names": ch, "mat": True, "el": False})
    return cases, len(names)


def outside_cases():
    from quara.objects import gate_typical as gt, mprocess_typical as mt, state_ensemble_typical as se
    cases = []
    for tag, names in state_catalogue():
        for ch in chunks(list(names), 60):
            cases.append({"kind": "state", "sys": tag, "names": ch})
    for tag, names in povm_catalogue():
        for ch in chunks(list(names), 30):
            cases.append({"kind": "povm", "sys": tag, "names": ch})
    small_valid = ["identity"] + gt.get_gate_names_1qubit() + gt.get_gate_names_2qubit() + gt.get_gate_names_3qubit() + gt.get_gate_names_1qutrit()
    for kind in ("gate", "efflind"):
        cases.append({"kind": kind, "sys": "Q1", "names": ["identity"] + gt.get_gate_names_1qubit()})
        cases.append({"kind": kind, "sys": "D2,2", "names": gt.get_gate_names_2qubit(), "ids": [0, 1]})
        cases.append({"kind": kind, "sys": "D2,2,2", "names": gt.get_gate_names_3qubit(), "ids": [0, 1, 2]})
        for ch in chunks(gt.get_gate_names_1qutrit(), 9):
            cases.append({"kind": kind, "sys": "Q3", "names": ch})
    cases.append({"kind": "gate", "sys": "D3,3", "names": ["i01x90", "12zi180", "01x02z90_12yi180"],
                  "extra": ["ii90", "ii180", "i01x90_i01x90", "i01x45", "i01xm90", "01x90_i01x90", "i01x90_12zi180_02yi90"]})
    cases.append({"kind": "efflind", "sys": "D3,3", "names": ["i01x90"], "extra": ["ii90", "i01x90_i01x90", "i01x45"]})
    singles = mt.get_mprocess_names_type1() + mt.get_mprocess_names_type2()
    from mc.props import _c17_ref as T
    for tag, dims in (("Q1", (2,)), ("D2,2", (2, 2)), ("Q3", (3,))):
        ns = [s for s in singles if T.mprocess_single(s)[1] == dims]
        cases.append({"kind": "mprocess", "sys": tag, "names": ns})
    cases.append({"kind": "mprocess", "sys": "D2,2", "names": ["x-type1_z-type2", "z-type1_z-type1"]})
    cases.append({"kind": "ensemble", "sys": "Q1", "names": se.get_state_ensemble_names()})
    cases.append({"kind": "mode", "sys": "Q1", "names": []})
    return cases


def families(tier, seed):
    from quara.objects import gate_typical as gt, mprocess_typical as mt, povm_typical as pt, state_ensemble_typical as se, state_typical as st
    fams = [("selftest", [{}])]
    fams.append(("bases", [{"fn": fn, "kw": kw} for fn, kw in MS.BASES]))
    cs = []
    for mode, nums in (("qubit", (1, 2, 3)), ("qutrit", (1, 2))):
        for num in nums:
            for sparse in (False, True):
                cs.append({"mode": mode, "num": num, "ids": None, "sparse": sparse})
            if num > 1:
                for ids in itertools.permutations([3, 7, 11][:num]):
                    cs.append({"mode": mode, "num": num, "ids": list(ids), "sparse": False})
    fams.append(("csys", cs))
    sizes = {"Q1": 7, "D2,2": 20, "D2,2,2": 25, "Q3": 19, "D3,3": 25}
    fams.append(("state", [{"sys": tag, "names": ch} for tag, names in state_catalogue() for ch in chunks(list(names), sizes[tag])]))
    psz = {"Q1": 3, "D2,2": 5, "D2,2,2": 3, "Q3": 8, "D3,3": 4}
    fams.append(("povm", [{"sys": tag, "names": ch} for tag, names in povm_catalogue() for ch in chunks(list(names), psz[tag])]))
    fams.append(("gate", gate_cases()))
    fams.append(("action", action_cases()))
    mp, _ = mprocess_catalogue(tier)
    allforms = mt.get_mprocess_object_names()
    mcases = []
    for tag, name, stratum in mp:
        mcases.append({"name": name, "sys": tag, "forms": list(allforms), "dispatch_heavy": True})
    fams.append(("mprocess", mcases))
    fams.append(("ensemble", [{"name": n} for n in se.get_state_ensemble_names()]))
    leg = [{"what": "gate1", "basis": b} for b in ("Q1", "Q1h", "Q1r", "Q1x")] + [{"what": "gate2", "basis": "Q1", "names": nm} for nm in ([0, 1], [4, 2])] + \
          [{"what": "state", "basis": b} for b in ("Q1", "Q1h", "Q1r")] + [{"what": "povm", "basis": b} for b in ("Q1", "Q1h", "Q1r")] + \
          [{"what": "param", "basis": "Q1"}]
    fams.append(("legacy", leg))
    fams.append(("tester", [{"kind": k, "sys": t} for k in ("states", "povms") for t in ("Q1", "D2,2", "Q3", "D3,3")] +
                 [{"kind": "povms", "sys": "D2,2,2"}] + ([{"kind": "states", "sys": "D2,2,2"}] if tier != "quick" else [])))
    dep = []
    dep.append({"mode": "state", "sys": "Q1", "names": st.get_state_names_1qubit()})
    dep.append({"mode": "state", "sys": "Q3", "names": st.get_state_names_1qutrit()})
    dep.append({"mode": "povm", "sys": "Q1", "names": pt.get_povm_names_1qubit()})
    dep.append({"mode": "povm", "sys": "Q3", "names": pt.get_povm_names_1qutrit()})
    dep.append({"mode": "gate", "sys": "Q1", "names": gt.get_gate_names_1qubit()})
    dep.append({"mode": "gate", "sys": "Q3", "names": gt.get_gate_names_1qutrit()})
    dep.append({"mode": "mprocess", "sys": "Q1", "names": [n for n in mt.get_mprocess_names_type1() + mt.get_mprocess_names_type2() if n[0] in "xyz" and n[1] == "-"]})
    fams.append(("depolarized", dep))
    fams.append(("outside", outside_cases()))
    g2, _ = gate2qt_cases(tier)
    fams.append(("gate2qt", g2))
    return fams


def execute(family, params, seed):
    return {"selftest": MS.ex_selftest, "bases": MS.ex_bases, "csys": MS.ex_csys, "state": SP.ex_state, "povm": SP.ex_povm,
            "gate": GT.ex_gate, "action": GT.ex_action, "mprocess": SP.ex_mprocess, "ensemble": SP.ex_ensemble,
            "legacy": MS.ex_legacy, "tester": MS.ex_tester, "depolarized": MS.ex_depolarized, "outside": OU.ex_outside,
            "gate2qt": GT.ex_gate2qt}[family](params, seed)


def guards(summary):
    g = []
    info = summary["info"]
    need = {"selftest_ok": 1, "state_generated": EXPECTED["state"], "povm_generated": EXPECTED["povm"], "povm_rank1": 1,
            "povm_not_rank1": 1, "gate_generated": 100, "efflind_generated": 100, "mprocess_generated": 300, "mprocess_pure": 1,
            "mprocess_not_pure": 1, "mprocess_vs_catalogue_povm": 10, "legacy_generated": 40, "csys_generated": 10,
            "basis_flag_true": 10, "basis_flag_false": 5, "ref_verdict_true": 900, "ref_verdict_false": 5,
            "outside_raised": 2000, "outside_names": 500, "action_named_output": 200, "action_curated": 60,
            "gate2qt_names": 3000, "gate2qt_two_base": 2900, "gate2qt_single_base": 30, "tester_objects": 100,
            "depolarized_objects": 50}
    for p in ("01", "10", "012", "021", "102", "120", "201", "210"):
        need["gate_ids_perm_" + p] = 2
    for k, v in need.items():
        if info.get(k, 0) < v:
            g.append("expected at least %d of %s, saw %d" % (v, k, info.get(k, 0)))
    if info.get("ensemble_generated", 0) + info.get("ensemble_not_generated", 0) < EXPECTED["ensemble"]:
        g.append("state ensemble catalogue not enumerated")
    return g
