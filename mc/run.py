"""CLI: python -m mc.run Cxx [--tier quick|thorough] [--replay file]   (use ./check)"""
import argparse
import importlib
import os
import sys


def main():
    ap = argparse.ArgumentParser()
    ap.add_argument("prop")
    ap.add_argument("--tier", default=os.environ.get("VERIF_TIER", "quick"))
    ap.add_argument("--replay")
    ap.add_argument("--nproc", type=int, default=None)
    a = ap.parse_args()
    if a.tier not in ("quick", "thorough"):
        a.tier = "quick"
    seed = int(os.environ.get("VERIF_SEED", "0") or 0)
    from mc import core
    try:
        if a.prop == "selftest":
            from mc import selftest
            return selftest.main()
        mod = importlib.import_module("mc.props.%s" % a.prop.lower())
        if a.replay:
            return core.run_replay(mod, a.replay)
        return core.run_check(mod, a.tier, seed, a.nproc)
    except core.HarnessError as e:
        sys.stderr.write("HARNESS-ERROR %s: %s\n" % (a.prop, e))
        return 2
    except Exception:
        import traceback
        traceback.print_exc()
        sys.stderr.write("HARNESS-ERROR %s: unexpected exception\n" % a.prop)
        return 2


if __name__ == "__main__":
    sys.exit(main())
