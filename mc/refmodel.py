"""Boring reference model: textbook quantum mechanics in dense numpy.

Shares no code and no data layout with quara.  Operators are complex matrices,
channels are Kraus lists / explicit superoperator actions, POVMs are lists of
matrices, joint distributions are tensors indexed in TIME order.  Basis
matrices are read from the library object only as data (dense copies).
"""
import itertools
import math

import numpy as np

# ---------------------------------------------------------------- bases / expansions


def dense(m):
    return np.array(m.toarray() if hasattr(m, "toarray") else m, dtype=np.complex128)


def basis_mats(c_sys_or_basis):
    b = c_sys_or_basis.basis() if hasattr(c_sys_or_basis, "elemental_systems") else c_sys_or_basis
    return [dense(x) for x in b]


def gram(B):
    n = len(B)
    G = np.zeros((n, n), dtype=np.complex128)
    for i in range(n):
        for j in range(n):
            G[i, j] = np.trace(B[i].conj().T @ B[j])
    return G


def coeffs(M, B):
    """expansion coefficients c with M = sum_i c_i B_i (any basis, complex)."""
    rhs = np.array([np.trace(b.conj().T @ M) for b in B])
    G = gram(B)
    if np.allclose(G, np.eye(len(B)), atol=1e-13):
        return rhs
    return np.linalg.solve(G, rhs)


def mat_from_coeffs(c, B):
    out = np.zeros_like(B[0], dtype=np.complex128)
    for ci, b in zip(c, B):
        out = out + ci * b
    return out


def matrix_units(d):
    out = []
    for i in range(d):
        for j in range(d):
            E = np.zeros((d, d), dtype=np.complex128)
            E[i, j] = 1
            out.append(E)
    return out


def hermitian_basis_ref(d):
    """an orthonormal Hermitian basis of d x d matrices built here (identity first)."""
    out = [np.eye(d, dtype=np.complex128) / math.sqrt(d)]
    for i in range(d):
        for j in range(i + 1, d):
            S = np.zeros((d, d), dtype=np.complex128)
            S[i, j] = S[j, i] = 1 / math.sqrt(2)
            out.append(S)
            A = np.zeros((d, d), dtype=np.complex128)
            A[i, j] = -1j / math.sqrt(2)
            A[j, i] = 1j / math.sqrt(2)
            out.append(A)
    for k in range(1, d):
        D = np.zeros((d, d), dtype=np.complex128)
        for i in range(k):
            D[i, i] = 1
        D[k, k] = -k
        out.append(D / math.sqrt(k * (k + 1)))
    return out


# ---------------------------------------------------------------- channels


def kraus_apply(kraus, X):
    out = np.zeros_like(X, dtype=np.complex128)
    for K in kraus:
        out = out + K @ X @ K.conj().T
    return out


def hs_from_action(action, B):
    """HS matrix (w.r.t. basis B) of the linear map `action` on matrices:
    action(B_b) = sum_a hs[a,b] B_a."""
    n = len(B)
    hs = np.zeros((n, n), dtype=np.complex128)
    for b in range(n):
        hs[:, b] = coeffs(action(B[b]), B)
    return hs


def hs_from_kraus(kraus, B):
    return hs_from_action(lambda X: kraus_apply(kraus, X), B)


def action_from_hs(hs, B):
    def act(X):
        c = coeffs(X, B)
        return mat_from_coeffs(hs @ c, B)
    return act


def choi_from_action(action, d):
    """Choi matrix in the convention sum_ij action(E_ij) (x) E_ij  (= (G (x) id)|I>><<I|)."""
    C = np.zeros((d * d, d * d), dtype=np.complex128)
    for i in range(d):
        for j in range(d):
            E = np.zeros((d, d), dtype=np.complex128)
            E[i, j] = 1
            C = C + np.kron(action(E), E)
    return C


def action_from_choi(C, d):
    """inverse of choi_from_action: G(X) = Tr_2[ C (I (x) X^T) ]."""
    def act(X):
        M = C @ np.kron(np.eye(d), X.T)
        M = M.reshape(d, d, d, d)
        return np.einsum("ikjk->ij", M)
    return act


def is_psd(M, atol):
    H = (M + M.conj().T) / 2
    return bool(np.linalg.eigvalsh(H).min() >= -atol)


def min_eig(M):
    H = (M + M.conj().T) / 2
    return float(np.linalg.eigvalsh(H).min())


def herm_defect(M):
    return float(np.abs(M - M.conj().T).max())


def tp_defect(action, d):
    """max |Tr action(E_ij) - delta_ij|"""
    worst = 0.0
    for i in range(d):
        for j in range(d):
            E = np.zeros((d, d), dtype=np.complex128)
            E[i, j] = 1
            worst = max(worst, abs(np.trace(action(E)) - (1.0 if i == j else 0.0)))
    return worst


def kraus_from_choi(C, d, tol=1e-12):
    w, V = np.linalg.eigh((C + C.conj().T) / 2)
    out = []
    for k in range(len(w)):
        if w[k] > tol:
            out.append(math.sqrt(w[k]) * V[:, k].reshape(d, d))
    return out


# ---------------------------------------------------------------- random-free generic matrices

_ANGLES = [
    [0.7310585786, 1.2039728043, 0.4142135624, 2.2360679775, 0.5772156649, 1.6180339887, 0.9159655942, 1.3247179572],
    [1.0986122887, 0.6931471806, 1.7320508076, 0.3183098862, 2.6457513111, 0.8346268417, 1.2824271291, 0.5671432904],
    [0.9189385332, 1.4142135624, 0.2614972128, 1.9021605831, 0.6601618158, 2.0794415417, 1.1547005384, 0.4342944819],
    [1.3862943611, 0.5235987756, 2.1544346900, 0.7853981634, 1.0471975512, 0.3678794412, 1.7724538509, 0.6366197724],
    [0.6180339887, 1.9129311828, 0.8660254038, 1.2599210499, 0.3926990817, 2.3025850930, 0.7071067812, 1.4426950409],
    [1.5707963268, 0.4054651081, 1.1283791671, 2.4494897428, 0.9003163162, 0.5493061443, 1.8171205928, 0.2915026221],
    [0.8414709848, 1.7917594692, 0.5403023059, 1.0037411255, 2.8284271247, 0.6434105463, 1.3621415937, 0.4812118251],
    [1.2020569032, 0.3010299957, 1.9459101091, 0.7390851332, 1.5574077247, 0.4636476090, 2.0800838231, 0.8813735870],
    [0.4794255386, 1.6094379124, 0.9092974268, 2.1972245773, 0.3465735903, 1.4645918876, 0.7615941560, 1.0986122887],
    [1.8545904360, 0.5880026035, 1.3169578969, 0.2470201287, 0.9640275801, 2.5649493575, 0.6557942026, 1.1752011936],
]


def angles(seed, n, salt=0):
    """deterministic table of well-conditioned irrational angles; seed selects the row"""
    row = _ANGLES[int(seed) % len(_ANGLES)]
    return [row[(i + salt) % len(row)] * (1.0 + 0.37 * ((i + salt) // len(row))) for i in range(n)]


def generic_unitary(d, seed=0, salt=0):
    """a fixed genuinely complex unitary (product of Givens rotations with phases)"""
    U = np.eye(d, dtype=np.complex128)
    a = angles(seed, 2 * d * d, salt)
    k = 0
    for i in range(d):
        for j in range(i + 1, d):
            th, ph = a[k], a[k + 1]
            k += 2
            G = np.eye(d, dtype=np.complex128)
            G[i, i] = math.cos(th)
            G[j, j] = math.cos(th)
            G[i, j] = -np.exp(1j * ph) * math.sin(th)
            G[j, i] = np.exp(-1j * ph) * math.sin(th)
            U = U @ G
    D = np.diag(np.exp(1j * np.array(a[k:k + d])))
    return U @ D


def fourier_unitary(d):
    w = np.exp(2j * math.pi / d)
    return np.array([[w ** (i * j) for j in range(d)] for i in range(d)]) / math.sqrt(d)


def generic_matrix(d, seed=0, salt=0, scale=1.0):
    """fixed generic complex (non-normal) d x d matrix"""
    a = angles(seed, 2 * d * d, salt)
    M = np.zeros((d, d), dtype=np.complex128)
    k = 0
    for i in range(d):
        for j in range(d):
            M[i, j] = math.cos(3 * a[k] + i) + 1j * math.sin(2 * a[k + 1] - j)
            k += 2
    return scale * M


def hermitian_from(spectrum, U):
    return (U * np.array(spectrum, dtype=float)) @ U.conj().T


# ---------------------------------------------------------------- projections / certificates


def proj_psd(H):
    H = (H + H.conj().T) / 2
    w, V = np.linalg.eigh(H)
    return (V * np.clip(w, 0, None)) @ V.conj().T


def moreau_certificate(H_in, H_out):
    """residuals of the necessary-and-sufficient conditions for H_out = P_PSD(H_in):
    H_out PSD, R = H_out - H_in PSD, <R, H_out> = 0"""
    R = H_out - H_in
    return {
        "out_min_eig": min_eig(H_out),
        "res_min_eig": min_eig(R),
        "slack": float(abs(np.trace(R.conj().T @ H_out))),
        "herm": max(herm_defect(H_out), 0.0),
    }


def proj_affine(x, C, b):
    """nearest point of {x: Cx = b}"""
    r = C @ x - b
    return x - np.linalg.pinv(C) @ r


def nearest_point_certificate(x0, xs, to_blocks, from_blocks_adj, C, b):
    """KKT certificate that xs is the Euclidean projection of x0 onto
    {x : C x = b} n {x : every block of H(x) PSD}.

    to_blocks(x) -> list of Hermitian blocks (an isometry R^n -> blocks)
    from_blocks_adj(blocks) -> x   (its adjoint = inverse on the range)
    Stationarity: x0 - xs = C^T y - adj(Z),   Z PSD blockwise, <Z, H(xs)> = 0.
    y is obtained by least squares from complementary slackness.
    Returns dict of residuals (all should be ~0 / >= -tol).
    """
    n = len(x0)
    g = np.asarray(x0, float) - np.asarray(xs, float)
    Hs = to_blocks(xs)
    m = C.shape[0]
    # Z(y) = H(C^T y - g); demand Z(y) H(xs) = 0  -> linear in y
    cols = []
    for k in range(m):
        e = np.zeros(m)
        e[k] = 1
        Zk = to_blocks(C.T @ e)
        cols.append(np.concatenate([(Z @ H).ravel() for Z, H in zip(Zk, Hs)]))
    Z0 = to_blocks(-g)
    rhs = -np.concatenate([(Z @ H).ravel() for Z, H in zip(Z0, Hs)])
    if m:
        A = np.array(cols).T
        Ar = np.vstack([A.real, A.imag])
        rr = np.concatenate([rhs.real, rhs.imag])
        # among the solutions of complementary slackness prefer the one making Z most PSD:
        y, *_ = np.linalg.lstsq(Ar, rr, rcond=None)
    else:
        y = np.zeros(0)
    Z = to_blocks(C.T @ y - g)
    return {
        "eq_res": float(np.abs(C @ xs - b).max()) if m else 0.0,
        "primal_min_eig": min(min_eig(H) for H in Hs),
        "dual_min_eig": min(min_eig(z) for z in Z),
        "slack": float(sum(abs(np.trace(z @ H)) for z, H in zip(Z, Hs))),
        "slack_mat": float(max(np.abs(z @ H).max() for z, H in zip(Z, Hs))),
        "y": y,
    }


def dykstra_reference(x0, PA, PB, order, eps, max_iter=100000):
    """Reference Dykstra iteration with the Birgin-Raydan stopping rule, as documented:
    order 'eq_ineq': y = PA(x + p); p = x + p - y; x = PB(y + q); q = y + q - x."""
    P1, P2 = (PA, PB) if order == "eq_ineq" else (PB, PA)
    x = np.array(x0, float)
    p = np.zeros_like(x)
    q = np.zeros_like(x)
    hist = []
    for k in range(max_iter):
        y = P1(x + p)
        p_new = x + p - y
        x_new = P2(y + q)
        q_new = y + q - x_new
        hist.append((p_new, q_new, x_new, y))
        x, p, q = x_new, p_new, q_new
    return hist


# ---------------------------------------------------------------- quantum statistics (time order)


def born(povm, rho):
    return np.array([np.trace(M @ rho).real for M in povm])


def instrument_apply(instr, rho):
    """instr: list over outcomes of Kraus lists.  returns list of unnormalised post states."""
    return [kraus_apply(ks, rho) for ks in instr]


def run_chain(rho, ops):
    """ops: time-ordered list of ('gate', kraus) | ('mprocess', [kraus per outcome]) | ('povm', [M]).
    Returns (joint p tensor over measurement outcomes in time order, dict outcome-tuple -> unnormalised state)."""
    branches = {(): np.array(rho, dtype=np.complex128)}
    shape = []
    for kind, dat in ops:
        new = {}
        if kind == "gate":
            for k, r in branches.items():
                new[k] = kraus_apply(dat, r)
        elif kind == "mprocess":
            shape.append(len(dat))
            for k, r in branches.items():
                for x, ks in enumerate(dat):
                    new[k + (x,)] = kraus_apply(ks, r)
        elif kind == "povm":
            shape.append(len(dat))
            for k, r in branches.items():
                for x, M in enumerate(dat):
                    # a POVM ends the quantum evolution: keep the weight in a 1x1 "state"
                    new[k + (x,)] = np.array([[np.trace(M @ r)]])
        else:
            raise ValueError(kind)
        branches = new
    p = np.zeros(tuple(shape) if shape else ())
    for k, r in branches.items():
        if shape:
            p[k] = np.trace(r).real
    return p, branches


def heisenberg_povm(povm, ops_before):
    """POVM elements pulled back through time-ordered ops (gates / mprocesses) applied BEFORE it.
    Returns list indexed (x_1..x_k, x_povm) row-major in time order."""
    # adjoint action of a Kraus list
    def adj(ks, M):
        out = np.zeros_like(M, dtype=np.complex128)
        for K in ks:
            out = out + K.conj().T @ M @ K
        return out
    elems = {(x,): np.array(M, dtype=np.complex128) for x, M in enumerate(povm)}
    for kind, dat in reversed(ops_before):
        new = {}
        if kind == "gate":
            for k, M in elems.items():
                new[k] = adj(dat, M)
        else:
            for x, ks in enumerate(dat):
                for k, M in elems.items():
                    new[(x,) + k] = adj(ks, M)
        elems = new
    keys = sorted(elems)
    return keys, [elems[k] for k in keys]


# ---------------------------------------------------------------- GKSL


def gksl_action(H, jumps):
    """rho -> -i[H,rho] + sum_k (c rho c^+ - 1/2 {c^+ c, rho})"""
    def act(X):
        out = -1j * (H @ X - X @ H)
        for c in jumps:
            cc = c.conj().T @ c
            out = out + c @ X @ c.conj().T - 0.5 * (cc @ X + X @ cc)
        return out
    return act


def gksl_action_hk(H, K, B):
    """GKSL with dissipator matrix K over the traceless basis elements B[1:]:
    D(rho) = sum_{ab} K_ab (B_a rho B_b^+ - 1/2 {B_b^+ B_a, rho})"""
    n = len(B) - 1

    def act(X):
        out = -1j * (H @ X - X @ H)
        for a in range(n):
            for b in range(n):
                if K[a, b] == 0:
                    continue
                Ba, Bb = B[a + 1], B[b + 1]
                BB = Bb.conj().T @ Ba
                out = out + K[a, b] * (Ba @ X @ Bb.conj().T - 0.5 * (BB @ X + X @ BB))
        return out
    return act


def expm_herm_free(A):
    """matrix exponential via scaling and squaring + Taylor (independent of scipy)"""
    A = np.array(A, dtype=np.complex128)
    nrm = np.linalg.norm(A, 1)
    s = max(0, int(math.ceil(math.log2(nrm))) + 4) if nrm > 0 else 0
    A = A / (2 ** s)
    out = np.eye(A.shape[0], dtype=np.complex128)
    term = np.eye(A.shape[0], dtype=np.complex128)
    for k in range(1, 30):
        term = term @ A / k
        out = out + term
    for _ in range(s):
        out = out @ out
    return out


# ---------------------------------------------------------------- multinomial enumeration


def compositions(n, m):
    """all count vectors of length m summing to n (lexicographic)"""
    if m == 1:
        yield (n,)
        return
    for k in range(n + 1):
        for rest in compositions(n - k, m - 1):
            yield (k,) + rest


def multinomial_pmf(counts, p):
    n = sum(counts)
    coef = math.factorial(n)
    for c in counts:
        coef //= math.factorial(c)
    val = float(coef)
    for c, pi in zip(counts, p):
        if c:
            val *= pi ** c
    return val


def row_major_index(multi, shape):
    idx = 0
    for m, s in zip(multi, shape):
        idx = idx * s + m
    return idx


def row_major_multi(idx, shape):
    out = []
    for s in reversed(shape):
        out.append(idx % s)
        idx //= s
    return tuple(reversed(out))


# ---------------------------------------------------------------- self tests (no quara involved)


def selftest():
    """identities that validate the reference model without the library"""
    msgs = []
    for d in (2, 3):
        B = hermitian_basis_ref(d)
        G = gram(B)
        if not np.allclose(G, np.eye(d * d), atol=1e-13):
            msgs.append("hermitian_basis_ref not orthonormal d=%d" % d)
        U = generic_unitary(d, 0)
        if not np.allclose(U @ U.conj().T, np.eye(d), atol=1e-13):
            msgs.append("generic_unitary not unitary")
        # unitary channel: Choi PSD rank one, TP
        act = lambda X: kraus_apply([U], X)
        C = choi_from_action(act, d)
        if min_eig(C) < -1e-12 or abs(np.trace(C) - d) > 1e-12:
            msgs.append("choi of unitary wrong")
        if tp_defect(act, d) > 1e-12:
            msgs.append("tp_defect of unitary wrong")
        X = generic_matrix(d, 1)
        if not np.allclose(action_from_choi(C, d)(X), act(X), atol=1e-12):
            msgs.append("action_from_choi inverse wrong")
        ks = kraus_from_choi(C, d)
        if not np.allclose(kraus_apply(ks, X), act(X), atol=1e-10):
            msgs.append("kraus_from_choi wrong")
        hs = hs_from_kraus([U], B)
        if not np.allclose(action_from_hs(hs, B)(X), act(X), atol=1e-12):
            msgs.append("hs roundtrip wrong")
        H = hermitian_from([1.0, -0.5] + [0.25] * (d - 2), U)
        P = proj_psd(H)
        c = moreau_certificate(H, P)
        if c["out_min_eig"] < -1e-13 or c["res_min_eig"] < -1e-13 or c["slack"] > 1e-13:
            msgs.append("proj_psd certificate fails")
        # gksl trace preservation + expm
        Hm = hermitian_from([0.3, -0.2] + [0.1] * (d - 2), U)
        L = gksl_action(Hm, [generic_matrix(d, 2)])
        if abs(np.trace(L(X))) > 1e-12 * (1 + np.abs(X).sum()) * 10:
            msgs.append("gksl not trace annihilating")
    tot = sum(multinomial_pmf(c, [0.2, 0.3, 0.5]) for c in compositions(5, 3))
    if abs(tot - 1) > 1e-14:
        msgs.append("multinomial pmf does not sum to 1")
    A = np.array([[0.0, 1.0], [-1.0, 0.0]])
    E = expm_herm_free(A)
    if not np.allclose(E, [[math.cos(1), math.sin(1)], [-math.sin(1), math.cos(1)]], atol=1e-13):
        msgs.append("expm wrong")
    for shape in ((2, 3), (3, 1, 2)):
        n = int(np.prod(shape))
        for i in range(n):
            if row_major_index(row_major_multi(i, shape), shape) != i:
                msgs.append("row major maps wrong")
    return msgs
