#!/bin/bash
# usage: regress_seeds.sh [seed ids...]   - runs, for every kept seeded change, the quick check of the property it breaks against a
# scratch worktree with the change applied; prints one line per seed; exit 1 if some seed is no longer detected
cd /verif
IDS="${@:-$(ls seeded | grep -E '^C[0-9]+-')}"
rc=0
for ID in $IDS; do
  P=${ID%%-*}
  r=$(tools/try_seed.sh /verif/seeded/$ID/patch.diff $P 2>&1 | grep "^== ")
  case "$r" in *"exit=1"*) echo "$ID DETECTED $r";; *) echo "$ID MISSED $r"; rc=1;; esac
done
exit $rc
