"""C15 Monte-Carlo simulations are reproducible with independent repetitions.

E3: the real simulation flow runs under the virtual joblib of mc/vsched.py; all worker schedules (batching, worker
assignment, execution order at every Parallel call of every nesting level) with at most `bound` deviations from the
default are executed and compared, bit for bit, with the serial run.  Plus: single-setting entry point over seed modes,
re-estimation from stored data, noise models (E1), the built-in physicality check over a violation ladder (E1), and a
conformance trace of the virtual joblib against the real joblib/loky.
"""
import contextlib
import io
import itertools
import math
import os
import shutil
import tempfile

import numpy as np

from mc import alphabet as A, refmodel as R, vsched
from mc.core import Out, inner, HarnessError

ID = "C15"
RULE = ("flow: every schedule of the virtual joblib with <= bound deviations (batch cuts, worker grouping, execution order at "
        "each of the Parallel calls of the four nesting levels) for each parallel_mode configuration; non-trivial = at least "
        "one Parallel call ran with n_jobs > 1; distinct = distinct (scenario, configuration, choice vector)")
ASSUMPTIONS = ["joblib semantics are those modelled in mc/vsched.py (sequential path in-process on the caller's objects; otherwise "
               "consecutive batches pickled once, per-worker process-global state, results in task order); loky's batching heuristic is "
               "over-approximated by any consecutive partition",
               "OS-level nondeterminism inside a task (BLAS threads) is pinned to 1 thread, not explored",
               "a conformance run under the real joblib/loky with 2 workers per level must reproduce the virtual serial bytes"]
BOUNDS = {"quick": "state tomography scenario with 3 estimator cases, n_sample=2, n_rep=2, num_data=[10,100]; 16 parallel_mode configurations; deviation bound 1",
          "thorough": "adds povm / gate / mprocess scenarios with n_rep=3 at deviation bound 1; deviation bound 2 (sharded by first deviation) for the "
                      "state scenario on the five configurations with 2 workers at one level / at all levels (a full bound-2 sweep of all "
                      "scenarios did not finish in 3 hours on 16 cores and was cut back)"}
CASE_TIMEOUT = 3000

LEVELS = ("per_sample_unit", "per_data_generation", "per_estimator_unit", "per_estimator_execution")


def configs():
    out = [None]
    for lv in LEVELS:
        for n in (2, 3, 4):
            out.append({lv: n})
    out.append({lv: 2 for lv in LEVELS})
    out.append({lv: 4 for lv in LEVELS})
    out.append(dict(zip(LEVELS, (4, 1, 2, 3))))
    return out


def make_setting(kind, n_rep=2, seed_data=777, seed_qop=888):
    from quara.simulation.standard_qtomography_simulation import EstimatorTestSetting, NoiseSetting
    from quara.protocol.qtomography.standard.linear_estimator import LinearEstimator
    from quara.protocol.qtomography.standard.projected_linear_estimator import ProjectedLinearEstimator
    from quara.protocol.qtomography.standard.loss_minimization_estimator import LossMinimizationEstimator
    from quara.loss_function.standard_qtomography_based_weighted_probability_based_squared_error import (
        StandardQTomographyBasedWeightedProbabilityBasedSquaredError as SE,
        StandardQTomographyBasedWeightedProbabilityBasedSquaredErrorOption as SEO)
    from quara.minimization_algorithm.projected_gradient_descent_backtracking import (
        ProjectedGradientDescentBacktracking as PGDB, ProjectedGradientDescentBacktrackingOption as PO)
    c = A.make_system("Q1")
    npara = {"lindbladian_base": "identity", "strength_h_part": 0.1, "strength_k_part": 0.1}

    def ns(mode, name):
        return NoiseSetting(qoperation_base=(mode, name), method="random_effective_lindbladian", para=dict(npara))
    states = [ns("state", n) for n in ("x0", "y0", "z0", "z1")]
    povms = [ns("povm", n) for n in ("x", "y", "z")]
    if kind == "state":
        true, testers = ns("state", "z0"), povms
    elif kind == "povm":
        true, testers = ns("povm", "z"), states
    elif kind == "gate":
        true, testers = ns("gate", "hadamard"), states + povms
    elif kind == "mprocess":
        true, testers = ns("mprocess", "z-type1"), states + povms
    else:
        raise ValueError(kind)
    po = PO(mode_stopping_criterion_gradient_descent="sum_absolute_difference_variable",
            num_history_stopping_criterion_gradient_descent=1, eps=1e-8, max_iteration_optimization=200)
    return EstimatorTestSetting(
        true_object=true, tester_objects=testers, seed_qoperation=seed_qop, seed_data=seed_data, n_sample=2, n_rep=n_rep,
        num_data=[10, 100], schedules="all", case_names=["wlsq", "lin", "plin"],
        # the loss-minimisation case comes FIRST and uses data-dependent (inverse covariance) weights: whatever it does to the
        # shared empirical distributions is seen by the cases after it in a serial run and not in a parallel one
        estimators=[LossMinimizationEstimator(), LinearEstimator(), ProjectedLinearEstimator(mode_proj_order="eq_ineq")],
        eps_proj_physical_list=[1e-5] * 3, eps_truncate_imaginary_part_list=[1e-3] * 3,     # deliberately unequal
        algo_list=[(PGDB(), po), (None, None), (None, None)],
        # data-dependent weights for the state / POVM scenarios; identity weights for the gate / measurement-process scenarios of the
        # thorough tier (one covariance-weighted measurement-process flow takes two minutes)
        loss_list=[(SE(), SEO(os.environ.get("C15_LSQ_MODE", "inverse_sample_covariance" if kind in ("state", "povm") else "identity"))),
                   (None, None), (None, None)],
        parametrizations=[True, True, True], c_sys=c)


def observe(results):
    """bitwise fingerprint of everything the property lists, per SimulationResult, in result order"""
    h = []
    for r in results:
        ss = r.simulation_setting
        h.append("T" + A.digest(ss.true_object.to_stacked_vector(), *[t.to_stacked_vector() for t in ss.tester_objects]))
        h.append("D" + A.digest(*[np.asarray(d[1], dtype=float) for rep in r.empi_dists_sequences for seq in rep for d in seq],
                                np.array([d[0] for rep in r.empi_dists_sequences for seq in rep for d in seq], dtype=float)))
        h.append("E" + A.digest(*[np.asarray(v, dtype=float) for er in r.estimation_results for v in er.estimated_var_sequence]))
        h.append("I" + repr(sorted(r.result_index.items())))
    return h


def frequency_defects(results):
    """stored empirical distributions are relative frequencies k/N of N draws; returns (number checked, number with a zero count, defects)"""
    n, nz, bad = 0, 0, []
    for r in results:
        for rep in r.empi_dists_sequences:
            for seq in rep:
                for (N, q) in seq:
                    q = np.asarray(q, dtype=float)
                    k = q * N
                    n += 1
                    nz += int((q == 0).any())
                    if np.abs(k - np.round(k)).max() > 1e-9 * N or abs(k.sum() - N) > 1e-9 * N or q.min() < 0:
                        bad.append((N, q.tolist()))
    return n, nz, bad


EXEC_CHECK = dict(consistency=False, mse_of_estimators=False, mse_of_empi_dists=False, physicality_violation=True)


def run_flow(kind, n_rep, pm, prefix, real=False, keep=None, holder=None):
    from quara.settings import Settings
    from quara.simulation import standard_qtomography_simulation as sim
    from quara.simulation import standard_qtomography_simulation_flow as flow
    import joblib as real_joblib
    ch = vsched.Chooser(prefix)
    vj = vsched.VirtualJoblib(ch, settings_cls=Settings)
    if holder is not None:
        holder["ch"], holder["vj"] = ch, vj
    d = tempfile.mkdtemp(prefix="quara-c15-")
    g0 = np.random.get_state()
    np.random.seed(20260927)
    try:
        if not real:
            flow.joblib = vj
            sim.joblib = vj
        with contextlib.redirect_stdout(io.StringIO()), contextlib.redirect_stderr(io.StringIO()):
            res = flow.execute_simulation_test_settings([make_setting(kind, n_rep)], d, pdf_mode="none", exec_sim_check=EXEC_CHECK,
                                                        parallel_mode=pm)
        gs = A.digest(np.random.get_state()[1], np.array([np.random.get_state()[2]]))
        if keep is not None:
            keep.extend(res)
    finally:
        flow.joblib = real_joblib
        sim.joblib = real_joblib
        np.random.set_state(g0)
        shutil.rmtree(d, ignore_errors=True)
    return ch, observe(res) + ["G" + gs], vj


def families(tier, seed):
    fams = []
    kinds = ["state"] if tier == "quick" else ["state", "povm", "gate", "mprocess"]
    n_rep = 2 if tier == "quick" else 3
    cases = []
    for kind in kinds:
        for ci, pm in enumerate(configs()):
            # thorough: two deviations for state tomography with 2 workers at one level (and at all levels), one deviation elsewhere
            bound = 2 if (tier != "quick" and kind == "state" and pm is not None and set(pm.values()) == {2}) else 1
            if tier == "quick" or pm is None or bound == 1:
                cases.append({"kind": kind, "n_rep": n_rep, "config": ci, "bound": bound, "first": None})
            else:
                # shard the bound-2 exploration by the first deviation (choice points known from the default run)
                ch, _, _ = run_flow(kind, n_rep, pm, ())
                cases.append({"kind": kind, "n_rep": n_rep, "config": ci, "bound": bound, "first": "default-only"})
                for i, (label, n, c) in enumerate(ch.points):
                    for alt in range(1, n):
                        cases.append({"kind": kind, "n_rep": n_rep, "config": ci, "bound": bound, "first": [0] * i + [alt]})
    fams.append(("flow_schedules", cases))
    fams.append(("flow_real_joblib", [{"kind": "state", "n_rep": 2}]))
    fams.append(("re_estimate", [{"kind": k, "n_rep": 2} for k in kinds]))
    ss = []
    for tomo in ("qst", "povmt", "qpt", "qmpt"):
        for est in ("linear", "projected_linear", "loss_minimization"):
            if tier == "quick" and tomo in ("qpt", "qmpt") and est == "loss_minimization":
                continue
            for seedmode in ("int", "generator", "none"):
                ss.append({"tomo": tomo, "est": est, "seedmode": seedmode, "n_rep": 3})
    fams.append(("single_setting", ss))
    fams.append(("noise_depolarized", [{"type": t, "sys": s} for t in ("state", "povm", "gate", "mprocess") for s in (("Q1",) if tier == "quick" else ("Q1", "Q2"))]))
    fams.append(("noise_random_lindbladian", [{"type": t, "strength": st} for t in ("state", "povm", "gate", "mprocess") for st in (1e-3, 1e-2, 1e-1, 1.0)]))
    fams.append(("physicality_check", [{"est": e, "para": p} for e in ("linear", "projected_linear", "lm_both", "lm_eq", "lm_ineq", "lm_none") for p in (True, False)]))
    return fams


def guards(summary):
    g = []
    info = summary["info"]
    for k in ("schedules_executed", "schedules_with_deviation", "parallel_calls_seen", "repetition_pairs_compared", "re_estimates_compared",
              "depolarized_checked", "depolarized_nonunital_bases", "depolarized_repeated_generate", "stored_empi_dists_with_zero_count", "lindbladian_generated", "physicality_verdict_true", "physicality_verdict_false", "real_joblib_compared"):
        if info.get(k, 0) < 1:
            g.append("never seen: " + k)
    return g


def execute(family, p, seed):
    return {"flow_schedules": ex_flow, "flow_real_joblib": ex_real, "re_estimate": ex_reest, "single_setting": ex_single,
            "noise_depolarized": ex_depol, "noise_random_lindbladian": ex_lind, "physicality_check": ex_phys}[family](p, seed)


# ---------------------------------------------------------------- flow under the virtual joblib

def ex_flow(p, seed):
    out = Out()
    kind, n_rep = p["kind"], p["n_rep"]
    pm = configs()[p["config"]]
    _, base, _ = run_flow(kind, n_rep, None, ())
    _, base2, _ = run_flow(kind, n_rep, None, ())
    out.ops += 2
    cfgname = "serial" if pm is None else ",".join("%s=%d" % (k.replace("per_", ""), v) for k, v in sorted(pm.items()))
    if base != base2:
        out.fail("flow:not-repeatable:serial", "two serial executions of the same settings differ: %r" % diff_fields(base, base2))
    if pm is None:
        keep = []
        run_flow(kind, n_rep, None, (), keep=keep)
        nchk, nzero, bad = frequency_defects(keep)
        out.count("stored_empi_dists_checked", nchk)
        out.count("stored_empi_dists_with_zero_count", nzero)
        if bad:
            out.fail("flow:stored-empirical-distribution-not-relative-frequencies:%s" % kind,
                     "%d of %d stored distributions are not k/N, e.g. N=%d q=%r" % (len(bad), nchk, bad[0][0], bad[0][1]))
    if pm is None:
        out.count("schedules_executed", 2)
        out.outcome = "serial"
        out.nontrivial = False
        out.digest = A.digest(np.frombuffer("".join(base).encode(), dtype=np.uint8))
        return out
    nexec = [0]

    class _Raised(Exception):
        pass

    def run(prefix):
        holder = {}
        try:
            ch, obs, vj = run_flow(kind, n_rep, pm, prefix, holder=holder)
        except vsched.ScheduleDivergence:
            raise
        except Exception as e:  # the library flow raised under this schedule (it did not serially)
            ch, vj = holder.get("ch"), holder.get("vj")
            if ch is None:
                raise
            obs = ["X" + A.fmt_exc(e)]
        return ch, (obs, vj)

    def on(prefix, ch, obs_vj):
        obs, vj = obs_vj
        nexec[0] += 1
        out.ops += 1
        out.traces += 1
        out.count("schedules_executed")
        out.count("parallel_calls_seen", sum(1 for e in vj.log if e[0] == "parallel"))
        if any(c != 0 for (_, _, c) in ch.points):
            out.count("schedules_with_deviation")
        if obs and obs[0].startswith("X"):
            dev = [(lab, c) for (lab, n, c) in ch.points if c != 0]
            out.fail("flow:raises-under-parallel-schedule", "parallel_mode %s, deviations %r: %s" % (cfgname, dev, obs[0][1:]))
        elif obs != base:
            fields = diff_fields(base, obs)
            dev = [(lab, c) for (lab, n, c) in ch.points if c != 0]
            kinds_ = sorted(set(lab.split("@")[0] for lab, _ in dev)) or ["default-parallel"]
            out.fail("flow:schedule-dependent:%s:%s" % ("+".join(sorted(set(f[0] for f in fields))), "+".join(kinds_)),
                     "parallel_mode %s, schedule deviations %r (choice vector %r): differs from the serial run in %r" % (
                         cfgname, dev, [c for (_, _, c) in ch.points], fields[:6]))
    first = p.get("first")
    if first == "default-only":
        ch, ov = run(())
        on((), ch, ov)
        # same schedule twice
        ch2, ov2 = run(())
        if ov2[0] != ov[0]:
            out.fail("flow:not-repeatable:parallel-default", "same schedule, different bytes (%s)" % cfgname)
        complete = True
    elif first is None:
        cnt, complete = vsched.explore(run, p["bound"], on)
    else:
        # explore the subtree below one first deviation, remaining budget bound-1
        start = tuple(first)

        def run_sub(prefix):
            return run(start + tuple(prefix[len(start):]) if len(prefix) >= len(start) else start)
        cnt, complete = explore_from(run, start, p["bound"], on)
    inner(out, max(0, nexec[0] - 1))
    out.outcome = "%s:execs=%d" % ("ok" if not out.fails else "fail", nexec[0])
    out.info["exploration_complete"] = 1 if complete else 0
    return out


def explore_from(run, start, bound, on):
    """deviation-bounded exploration of the subtree whose first deviation is `start`"""
    count = 0
    stack = [tuple(start)]
    while stack:
        prefix = stack.pop()
        ch, obs = run(prefix)
        count += 1
        on(prefix, ch, obs)
        pts = ch.points
        used = sum(1 for (_, _, c) in pts if c != 0)
        if used >= bound:
            continue
        for i in range(len(prefix), len(pts)):
            for alt in range(1, pts[i][1]):
                stack.append(tuple(x[2] for x in pts[:i]) + (alt,))
    return count, True


def diff_fields(a, b):
    out = []
    for i, (x, y) in enumerate(zip(a, b)):
        if x != y:
            out.append((x[0], i // 4))
    if len(a) != len(b):
        out.append(("L", -1))
    names = {"T": "true/tester objects", "D": "empirical distributions", "E": "estimates", "I": "result index", "G": "global RandomState", "L": "length"}
    return [(names[k], i) for k, i in out]


def ex_real(p, seed):
    """conformance: the same flow under the real joblib (loky, 2 workers at every level) reproduces the virtual serial bytes"""
    out = Out()
    _, base, _ = run_flow(p["kind"], p["n_rep"], None, ())
    pm = {lv: 2 for lv in LEVELS}
    _, real, _ = run_flow(p["kind"], p["n_rep"], pm, (), real=True)
    out.ops += 2
    out.traces += 1
    out.count("real_joblib_compared")
    # the global RandomState of the parent after a real parallel run is not part of the comparison (workers are processes)
    if real[:-1] != base[:-1]:
        out.fail("flow:real-joblib-differs-from-serial", "real joblib n_jobs=2 at all levels: %r" % diff_fields(base[:-1], real[:-1]))
    out.outcome = "ok" if not out.fails else "fail"
    return out


def ex_reest(p, seed):
    from quara.simulation import standard_qtomography_simulation as sim
    out = Out()
    keep = []
    run_flow(p["kind"], p["n_rep"], None, (), keep=keep)
    ts = make_setting(p["kind"], p["n_rep"])
    for r in keep:
        with contextlib.redirect_stdout(io.StringIO()):
            ok, ests = A.call(sim.re_estimate_sequence, ts, r)
        out.ops += 1
        name = r.simulation_setting.name
        if not ok:
            out.fail("re_estimate:raises:%s:%s" % (p["kind"], name), A.fmt_exc(ests))
            continue
        for rep, (a, b) in enumerate(zip(ests, r.estimation_results)):
            out.count("re_estimates_compared")
            out.traces += 1
            va = [np.asarray(v, float) for v in a.estimated_var_sequence]
            vb = [np.asarray(v, float) for v in b.estimated_var_sequence]
            if len(va) != len(vb) or any(x.shape != y.shape or np.abs(x - y).max() > 0 for x, y in zip(va, vb)):
                err = max(np.abs(x - y).max() for x, y in zip(va, vb)) if len(va) == len(vb) else float("nan")
                out.fail("re_estimate:differs-from-stored:%s:%s" % (p["kind"], name), "repetition %d of result %r: max difference %.3g" % (rep, r.result_index, err))
    out.outcome = "ok" if not out.fails else "fail"
    return out


# ---------------------------------------------------------------- single-setting entry point

def single_objects(tomo, seed):
    from quara.protocol.qtomography.standard.standard_qst import StandardQst
    from quara.protocol.qtomography.standard.standard_povmt import StandardPovmt
    from quara.protocol.qtomography.standard.standard_qpt import StandardQpt
    from quara.protocol.qtomography.standard.standard_qmpt import StandardQmpt
    c = A.make_system("Q1")
    U = R.generic_unitary(2, seed, salt=4)
    F = R.fourier_unitary(2)
    rhos = []
    for V in (np.eye(2), U, F):
        for k in range(2):
            psi = V[:, k]
            rhos.append(np.outer(psi, psi.conj()))
    states = [A.q_state(c, r) for r in rhos[:5]]
    povms = [A.q_povm(c, A.povm_generic(2, 2, seed, salt=s)) for s in (2, 5, 9)]
    if tomo == "qst":
        return StandardQst(povms, on_para_eq_constraint=True, schedules="all"), A.q_state(c, A.states_ref(2, seed)["mixed_generic"]), povms
    if tomo == "povmt":
        return StandardPovmt(states, 3, on_para_eq_constraint=True, schedules="all"), A.q_povm(c, A.povm_generic(2, 3, seed, salt=13)), states
    if tomo == "qpt":
        return StandardQpt(states, povms, on_para_eq_constraint=True, schedules="all"), A.q_gate(c, A.gates_ref(2, seed)["ampdamp"]), states + povms
    return (StandardQmpt(states, povms, 2, on_para_eq_constraint=True, schedules="all"),
            A.q_mprocess(c, A.instruments_ref(2, seed, ms=(2,))["feedback_m2"]), states + povms)


def ex_single(p, seed):
    from quara.simulation import standard_qtomography_simulation as sim
    from quara.protocol.qtomography.standard.linear_estimator import LinearEstimator
    from quara.protocol.qtomography.standard.projected_linear_estimator import ProjectedLinearEstimator
    from quara.protocol.qtomography.standard.loss_minimization_estimator import LossMinimizationEstimator
    from quara.loss_function.standard_qtomography_based_weighted_probability_based_squared_error import (
        StandardQTomographyBasedWeightedProbabilityBasedSquaredError as SE,
        StandardQTomographyBasedWeightedProbabilityBasedSquaredErrorOption as SEO)
    from quara.minimization_algorithm.projected_gradient_descent_backtracking import (
        ProjectedGradientDescentBacktracking as PGDB, ProjectedGradientDescentBacktrackingOption as PO)
    out = Out()
    tomo, est, mode, n_rep = p["tomo"], p["est"], p["seedmode"], p["n_rep"]
    g0 = np.random.get_state()

    def setting():
        qt, true, testers = single_objects(tomo, seed)
        kw = {}
        if est == "linear":
            e = LinearEstimator()
        elif est == "projected_linear":
            e = ProjectedLinearEstimator(mode_proj_order="eq_ineq")
        else:
            e = LossMinimizationEstimator()
            kw = dict(loss=SE(), loss_option=SEO("identity"), algo=PGDB(),
                      algo_option=PO(mode_stopping_criterion_gradient_descent="sum_absolute_difference_variable",
                                     num_history_stopping_criterion_gradient_descent=1, eps=1e-8, max_iteration_optimization=200))
        ss = sim.StandardQTomographySimulationSetting(name="s", true_object=true, tester_objects=testers, estimator=e, seed_data=4242,
                                                      n_rep=n_rep, num_data=[50, 5000], schedules="all", eps_proj_physical=1e-6,
                                                      eps_truncate_imaginary_part=1e-6, **kw)
        return qt, ss

    def run(seed_arg, preseed=None):
        qt, ss = setting()
        if preseed is not None:
            np.random.seed(preseed)
        with contextlib.redirect_stdout(io.StringIO()), contextlib.redirect_stderr(io.StringIO()):
            res = sim.execute_simulation(qt, ss, seed_or_generator=seed_arg)
        emp = [[np.asarray(d[1], float) for seq in rep for d in seq] for rep in res.empi_dists_sequences]
        est_ = [[np.asarray(v, float) for v in er.estimated_var_sequence] for er in res.estimation_results]
        return emp, est_

    def same(a, b):
        return len(a) == len(b) and all(len(x) == len(y) and all(np.array_equal(u, v) for u, v in zip(x, y)) for x, y in zip(a, b))
    site = "execute_simulation:%s:%s:seed=%s" % (tomo, est, mode)
    try:
        if mode == "int":
            np.random.seed(1)
            ok, r1 = A.call(run, 4242)
            gs1 = np.random.get_state()[1].copy()
            np.random.seed(2)
            np.random.random(7)
            ok2, r2 = A.call(run, 4242)
        elif mode == "generator":
            gen = np.random.Generator(np.random.MT19937(4242))
            ok, r1 = A.call(run, gen)
            ok2, r2 = A.call(run, np.random.Generator(np.random.MT19937(4242)))
        else:
            ok, r1 = A.call(run, None, 99)     # seed_or_generator None -> the setting's seed_data (int)
            ok2, r2 = A.call(run, None, 12345)
        out.ops += 2
        if not ok or not ok2:
            out.fail("%s:raises" % site, A.fmt_exc(r1 if not ok else r2))
            out.outcome = "raises"
            return out
        if not (same(r1[0], r2[0]) and same(r1[1], r2[1])):
            out.fail("%s:not-reproducible" % site, "two runs with the same settings and seed give different empirical distributions / estimates")
        if mode == "int":
            np.random.seed(1)
            if not np.array_equal(np.random.get_state()[1], np.random.RandomState(1).get_state()[1]) or not np.array_equal(gs1, np.random.RandomState(1).get_state()[1]):
                out.fail("%s:global-state-touched" % site, "a run with an explicit integer seed advanced or re-seeded the global RandomState")
        # repetitions must be independent draws: with 5000 shots per schedule two repetitions coincide with probability < 1e-20
        emp = r1[0]
        for i, j in itertools.combinations(range(len(emp)), 2):
            out.count("repetition_pairs_compared")
            if all(np.array_equal(u, v) for u, v in zip(emp[i], emp[j])):
                out.fail("%s:repetitions-identical" % site, "repetitions %d and %d of one run have bit-identical empirical distributions (n up to 5000): the random stream was re-created per repetition" % (i, j))
                break
        if mode == "generator":
            # a shared generator advances: a second run on the same generator object differs from the first
            ok3, r3 = A.call(run, gen)
            out.ops += 1
            if ok3 and same(r3[0], r1[0]):
                out.fail("%s:shared-generator-does-not-advance" % site, "second run on the same generator reproduced the first")
    finally:
        np.random.set_state(g0)
    out.outcome = "ok" if not out.fails else "fail"
    return out


# ---------------------------------------------------------------- noise models

BASES = {"state": [("state", n) for n in ("x0", "y1", "z0", "a")],
         "povm": [("povm", n) for n in ("x", "y", "z")],
         "gate": [("gate", n) for n in ("identity", "x", "hadamard", "phase", "piover8")],
         "mprocess": [("mprocess", n) for n in ("x-type1", "z-type1", "z-type2")]}
BASES2 = {"state": [("state", "z0_z0"), ("state", "bell_psi_plus")], "povm": [("povm", "z_z"), ("povm", "bell")],
          "gate": [("gate", "cx"), ("gate", "swap")], "mprocess": [("mprocess", "z-type1_x-type1")]}


def ref_of_obj(obj):
    """reference description: state -> rho ; povm -> [M]; gate -> action ; mprocess -> [action]"""
    from quara.objects.state import State
    from quara.objects.povm import Povm
    from quara.objects.gate import Gate
    c = obj.composite_system
    if isinstance(obj, State):
        return A.rho_of(obj)
    if isinstance(obj, Povm):
        return A.mats_of(obj)
    if isinstance(obj, Gate):
        return A.action_of_hs(c, obj.hs)
    return [A.action_of_hs(c, hs) for hs in obj.hss]


def physical_ref(obj, tol=1e-9):
    from quara.objects.state import State
    from quara.objects.povm import Povm
    from quara.objects.gate import Gate
    d = obj.composite_system.dim
    r = ref_of_obj(obj)
    if isinstance(obj, State):
        return abs(np.trace(r) - 1) < tol and R.min_eig(r) > -tol and R.herm_defect(r) < tol
    if isinstance(obj, Povm):
        return np.abs(sum(r) - np.eye(d)).max() < tol and min(R.min_eig(M) for M in r) > -tol
    if isinstance(obj, Gate):
        return R.tp_defect(r, d) < tol and R.min_eig(R.choi_from_action(r, d)) > -tol
    tot = lambda X: sum(a(X) for a in r)
    return R.tp_defect(tot, d) < tol and min(R.min_eig(R.choi_from_action(a, d)) for a in r) > -tol


def ex_depol(p, seed):
    from quara.simulation.depolarized_qoperation_generation_setting import DepolarizedQOperationGenerationSetting as DS
    out = Out()
    typ, systag = p["type"], p["sys"]
    c = A.make_system(systag)
    d = c.dim
    bases = list(BASES[typ] if systag == "Q1" else BASES2[typ])
    # base objects handed over as objects: generic ones (mixed state, non-projective POVM, NON-UNITAL channel / instrument)
    if typ == "state":
        generic = [A.q_state(c, A.states_ref(d, seed)["mixed_generic"])]
    elif typ == "povm":
        generic = [A.q_povm(c, A.povm_generic(d, 3, seed, salt=4))]
    elif typ == "gate":
        g = A.gates_ref(d, seed)
        generic = [A.q_gate(c, g["ampdamp"]), A.q_gate(c, g["kraus_generic_r2"])]
    else:
        ins = A.instruments_ref(d, seed, ms=(2,))
        generic = [A.q_mprocess(c, ins["feedback_m2"]), A.q_mprocess(c, ins["multikraus_m2"])]
    nonunital = 0
    for gobj in generic:
        bases.append(gobj)
        if typ in ("gate", "mprocess"):
            acts = [ref_of_obj(gobj)] if typ == "gate" else ref_of_obj(gobj)
            tot = sum(a(np.eye(d) / d) for a in acts)
            if np.abs(tot - np.eye(d) / d).max() > 1e-3:
                nonunital += 1
    if typ in ("gate", "mprocess"):
        out.count("depolarized_nonunital_bases", nonunital)
    X = R.generic_matrix(d, seed, salt=3)

    def idkw(b):
        # named 2-qubit gates need the ids of the subsystems they act on
        return {"ids": [0, 1]} if (systag == "Q2" and typ == "gate" and isinstance(b, tuple)) else {}
    for base in bases:
        for pr in (0.0, 1e-3, 0.5, 1.0):
            ok, obj = A.call(lambda: DS(c, base, pr, **idkw(base)).generate())
            out.ops += 1
            # the same setting object generates again (the flow does so once per sample): same object every time, base untouched
            ok_s, setting = A.call(DS, c, base, pr, **idkw(base))
            if ok and ok_s:
                base_snap = np.array(setting.qoperation_base.to_stacked_vector(), dtype=float).copy()
                caller_snap = None if isinstance(base, tuple) else np.array(base.to_stacked_vector(), dtype=float).copy()
                first = None
                for rep in range(3):
                    okr, o = A.call(setting.generate)
                    out.ops += 1
                    sv = np.array(o.to_stacked_vector(), dtype=float) if okr else None
                    if not okr:
                        out.fail("depolarized:%s:%s:repeated-generate:raises" % (typ, systag), "%r p=%g use %d: %s" % (base, pr, rep + 1, A.fmt_exc(o)))
                        break
                    if first is None:
                        first = sv.copy()
                        if np.abs(first - np.array(obj.to_stacked_vector(), dtype=float)).max() > 1e-12:
                            out.fail("depolarized:%s:%s:repeated-generate:first-use-differs-from-fresh-setting" % (typ, systag), "%r p=%g" % (base, pr))
                    elif np.abs(sv - first).max() > 1e-12:
                        out.fail("depolarized:%s:%s:repeated-generate:use-%d-differs-from-first" % (typ, systag, rep + 1),
                                 "%r p=%g: max difference %.3g between the objects generated by one setting" % (base, pr, np.abs(sv - first).max()))
                        break
                out.count("depolarized_repeated_generate")
                if np.abs(np.array(setting.qoperation_base.to_stacked_vector(), dtype=float) - base_snap).max() > 0:
                    out.fail("depolarized:%s:%s:generate-modifies-its-base-object" % (typ, systag), "%r p=%g" % (base, pr))
                if caller_snap is not None and np.abs(np.array(base.to_stacked_vector(), dtype=float) - caller_snap).max() > 0:
                    out.fail("depolarized:%s:%s:generate-modifies-the-callers-object" % (typ, systag), "p=%g" % pr)
            site = "depolarized:%s:%s:%s" % (typ, systag, "named-base" if isinstance(base, tuple) else "generic-base-object")
            if not ok:
                out.fail(site + ":raises", "%r p=%g: %s" % (base, pr, A.fmt_exc(obj)))
                continue
            ideal = DS(c, base, 0.0, **idkw(base)).qoperation_base
            out.count("depolarized_checked")
            out.traces += 1
            if not physical_ref(obj):
                out.fail(site + ":not-physical", "%r p=%g" % (base, pr))
            I = np.eye(d) / d
            if typ == "state":
                want = (1 - pr) * A.rho_of(ideal) + pr * I
                bad = np.abs(A.rho_of(obj) - want).max() > 1e-9
            elif typ == "povm":
                bad = any(np.abs(Mo - ((1 - pr) * Mi + pr * np.trace(Mi) * I)).max() > 1e-9 for Mo, Mi in zip(A.mats_of(obj), A.mats_of(ideal)))
            elif typ == "gate":
                ai, ao = ref_of_obj(ideal), ref_of_obj(obj)
                bad = np.abs(ao(X) - ((1 - pr) * ai(X) + pr * np.trace(ai(X)) * I)).max() > 1e-9
            else:
                bad = any(np.abs(ao(X) - ((1 - pr) * ai(X) + pr * np.trace(ai(X)) * I)).max() > 1e-9 for ao, ai in zip(ref_of_obj(obj), ref_of_obj(ideal)))
            if bad:
                out.fail(site + ":not-the-p-mixture", "%r p=%g: result is not (1-p) ideal + p maximally mixed" % (base, pr))
    for pr in (-0.1, 1.5):
        ok, obj = A.call(lambda: DS(c, bases[0], pr))
        if ok:
            out.fail("depolarized:rate-out-of-range-accepted", "p=%g" % pr)
    inner(out, len(bases) * 4 - 1)
    out.outcome = "ok" if not out.fails else "fail"
    return out


def ex_lind(p, seed):
    from quara.simulation.random_effective_lindbladian_generation_setting import RandomEffectiveLindbladianGenerationSetting as RS
    out = Out()
    typ, strength = p["type"], p["strength"]
    c = A.make_system("Q1")
    g0 = np.random.get_state()
    try:
        for base in BASES[typ]:
            for lb in ("identity",):
                for s in (0, 1, 7, 123456):
                    def gen(seed_arg):
                        st = RS(c, base, lb, strength, strength)
                        r = st.generate(seed_arg)
                        return r[0] if type(r) == tuple else r
                    np.random.seed(5)
                    ok, o1 = A.call(gen, s)
                    np.random.seed(6)
                    np.random.random(3)
                    ok2, o2 = A.call(gen, s)
                    out.ops += 2
                    site = "random_lindbladian:%s" % typ
                    if not ok or not ok2:
                        out.fail(site + ":raises", "%r strength=%g seed=%d: %s" % (base, strength, s, A.fmt_exc(o1 if not ok else o2)))
                        continue
                    out.count("lindbladian_generated")
                    if not physical_ref(o1, tol=1e-8):
                        out.fail(site + ":not-physical", "%r strength=%g seed=%d" % (base, strength, s))
                    if not np.array_equal(o1.to_stacked_vector(), o2.to_stacked_vector()):
                        out.fail(site + ":not-deterministic-in-seed", "%r strength=%g seed=%d" % (base, strength, s))
                ok, o3 = A.call(gen, 1)
                ok4, o4 = A.call(gen, 2)
                if ok and ok4 and np.array_equal(o3.to_stacked_vector(), o4.to_stacked_vector()):
                    out.fail("random_lindbladian:%s:seed-ignored" % typ, "%r: seeds 1 and 2 give the same object" % (base,))
    finally:
        np.random.set_state(g0)
    out.outcome = "ok" if not out.fails else "fail"
    return out


# ---------------------------------------------------------------- built-in physicality check

def ex_phys(p, seed):
    from quara.simulation import standard_qtomography_simulation as sim
    from quara.simulation.standard_qtomography_simulation_check import StandardQTomographySimulationCheck
    from quara.protocol.qtomography.standard.standard_qtomography_estimator import StandardQTomographyEstimationResult
    from quara.protocol.qtomography.standard.linear_estimator import LinearEstimator
    from quara.protocol.qtomography.standard.projected_linear_estimator import ProjectedLinearEstimator
    from quara.protocol.qtomography.standard.loss_minimization_estimator import LossMinimizationEstimator
    from quara.minimization_algorithm.projected_gradient_descent_backtracking import ProjectedGradientDescentBacktrackingOption as PO
    from quara.protocol.qtomography.standard.standard_qst import StandardQst
    from mc.frames import frame
    out = Out()
    est, para = p["est"], p["para"]
    c = A.make_system("Q1")
    F = frame("state", "Q1")
    povms = [A.q_povm(c, A.povm_generic(2, 2, seed, salt=s)) for s in (2, 5, 9)]
    qt = StandardQst(povms, on_para_eq_constraint=para, schedules="all")
    tmpl = qt._template_qoperation
    kw = {}
    if est == "linear":
        e = LinearEstimator()
        enforce_eq, enforce_ineq = para, False
    elif est == "projected_linear":
        e = ProjectedLinearEstimator(mode_proj_order="eq_ineq")
        enforce_eq, enforce_ineq = True, True
    else:
        e = LossMinimizationEstimator()
        eq = est in ("lm_both", "lm_eq")
        ineq = est in ("lm_both", "lm_ineq")
        kw = dict(algo_option=PO(on_algo_eq_constraint=eq, on_algo_ineq_constraint=ineq))
        enforce_eq, enforce_ineq = eq, ineq
    eq_thr = 1e-13 if para else 1e-5
    ineq_thr = 1e-5
    good = F.from_blocks([A.states_ref(2, seed)["mixed_generic"]])
    pure = A.states_ref(2, seed)["pure_generic"]
    w, V = np.linalg.eigh(pure)
    ladder = []
    for delta in (0.0, 1e-7, 1e-6, 1e-4, 1e-3, 1e-1):
        # inequality violated by delta, equality exact: eigenvalues (1+delta, -delta)
        ladder.append(("ineq", delta, F.from_blocks([R.hermitian_from([-delta, 1 + delta], V)])))
    if not para:
        for delta in (1e-7, 1e-6, 1e-4, 1e-3, 1e-1):
            x = good.copy()
            x[0] += delta          # trace defect sqrt(2)*delta, still positive definite
            ladder.append(("eq", delta * math.sqrt(2), x))
    n_rep, num_data = 3, [10, 100]
    for kind, delta, xbad in ladder:
        for where in ((0, 0), (2, 1)):
            results = []
            for rep in range(n_rep):
                seq = []
                for k in range(len(num_data)):
                    x = xbad if (rep, k) == where else good
                    seq.append(F.var_from_stacked(x, para))
                results.append(StandardQTomographyEstimationResult(seq, [0.0] * len(num_data), tmpl))
            ss = sim.StandardQTomographySimulationSetting(name="s", true_object=A.q_state(c, A.states_ref(2, seed)["mixed_generic"]), tester_objects=povms,
                                                          estimator=e, seed_data=1, n_rep=n_rep, num_data=num_data, schedules="all",
                                                          eps_proj_physical=1e-6, eps_truncate_imaginary_part=1e-6, **kw)
            sr = sim.SimulationResult(qtomography=qt, empi_dists_sequences=None, estimation_results=results, simulation_setting=ss)
            chk = StandardQTomographySimulationCheck(sr)
            with contextlib.redirect_stdout(io.StringIO()):
                ok, verdict = A.call(chk.execute_physicality_violation_check, show_detail=False)
            out.ops += 1
            site = "physicality_check:%s:para=%s" % (est, para)
            if not ok:
                out.fail(site + ":raises", "%s violation %g at %r: %s" % (kind, delta, where, A.fmt_exc(verdict)))
                continue
            thr = ineq_thr if kind == "ineq" else eq_thr
            enforced = enforce_ineq if kind == "ineq" else enforce_eq
            if delta == 0.0 or not enforced:
                expect = True
            elif delta >= 10 * thr:
                expect = False
            elif delta <= thr / 10:
                expect = True
            else:
                continue
            out.traces += 1
            out.count("physicality_verdict_%s" % str(bool(verdict)).lower())
            if bool(verdict) != expect:
                out.fail(site + ":wrong-verdict:%s" % kind, "%s constraint violated by %.3g (documented threshold %.3g, enforced by this estimator: %s) in repetition/num_data %r: check returned %r" % (
                    kind, delta, thr, enforced, where, verdict))
    out.outcome = "ok" if not out.fails else "fail"
    return out
