"""C02 shared plumbing: per-process system pool, target bases, comparators."""
import numpy as np

from mc import alphabet as A, refmodel as R
from mc.props import _c02_ref as F

TOL = 1e-9

_SYS = {}


class Sys:
    pass


def dense(x):
    if hasattr(x, "toarray"):
        x = x.toarray()
    return np.asarray(x)


def system(tag, seed, fresh=False):
    """(quara CompositeSystem, fast reference, target bases) cached per worker process"""
    key = (tag, seed)
    if not fresh and key in _SYS:
        return _SYS[key]
    from quara.objects import matrix_basis as mb
    s = Sys()
    s.tag = tag
    s.c = A.make_system(tag)
    s.ref = F.Ref(R.basis_mats(s.c))
    s.d, s.n = s.ref.d, s.ref.n
    s.id_first = bool(np.abs(s.ref.B[0] - np.eye(s.d) / np.sqrt(s.d)).max() < 1e-12)
    if not fresh:
        msgs = F.selfcheck(s.ref, seed)
        if msgs:
            raise AssertionError("harness: fast reference disagrees with mc/refmodel.py on %s: %r" % (tag, msgs))
    d = s.d
    # target bases: (name, library basis object, reference array).  Computational bases are rebuilt on the
    # reference side from their definition; library-provided Hermitian bases are read as data.
    t = []
    for mode in ("row_major", "column_major"):
        t.append(("comp_" + mode, s.c.comp_basis(mode=mode), F.comp_basis_ref(d, mode)))
    alts = []
    if d == 2:
        alts = [("npauli", mb.get_normalized_pauli_basis()), ("nherm", mb.get_normalized_hermitian_basis(2))]
    elif d == 3:
        alts = [("ngm", mb.get_normalized_gell_mann_basis()), ("nggm", mb.get_normalized_generalized_gell_mann_basis(1, 3)),
                ("nherm", mb.get_normalized_hermitian_basis(3))]
    elif d == 4:
        alts = [("npauli2", mb.get_normalized_pauli_basis(2)), ("nherm", mb.get_normalized_hermitian_basis(4))]
    elif d == 6:
        alts = [("nherm", mb.get_normalized_hermitian_basis(6))]
    elif d == 8:
        alts = [("npauli3", mb.get_normalized_pauli_basis(3))]
    for nm, obj in alts:
        t.append((nm, obj, np.array(R.basis_mats(obj))))
    if d <= 4:
        U = R.generic_unitary(d, seed, salt=6)
        rot = [U @ h @ U.conj().T for h in R.hermitian_basis_ref(d)]
        t.append(("rotated", mb.MatrixBasis(rot), np.array(rot)))
    # the same kinds of target handed over as SparseMatrixBasis objects (what CompositeSystem.basis() of another system returns)
    if d <= 4:
        cb = F.comp_basis_ref(d, "row_major")
        t.append(("sparse_comp_row_major", mb.SparseMatrixBasis([np.array(x) for x in cb]), np.array(cb)))
        t.append(("sparse_rotated", mb.SparseMatrixBasis([np.array(x) for x in rot]), np.array(rot)))
        if alts:
            nm0, obj0 = alts[-1]
            t.append(("sparse_" + nm0, mb.SparseMatrixBasis([np.array(x) for x in R.basis_mats(obj0)]), np.array(R.basis_mats(obj0))))
    s.targets = t
    if not fresh:
        _SYS[key] = s
    return s


def err_of(got, ref):
    got = dense(got)
    ref = np.asarray(ref)
    if got.shape != ref.shape:
        return None
    if got.size == 0:
        return 0.0
    return float(np.abs(got.astype(np.complex128) - ref).max())


def check(out, site, what, cfg, okval, ref, detail):
    """compare one library result with a reference array; returns the dense result or None"""
    ok, val = okval
    out.ops += 1
    if not ok:
        out.fail("%s:raises-%s:%s" % (site, type(val).__name__, cfg), "%s | %s" % (detail, A.fmt_exc(val)))
        return None
    try:
        got = dense(val)
    except Exception as e:  # noqa
        out.fail("%s:not-an-array:%s" % (site, cfg), "%s | %r" % (detail, e))
        return None
    e = err_of(got, ref)
    if e is None:
        out.fail("%s:shape:%s" % (site, cfg), "%s | shape %r, expected %r" % (detail, got.shape, np.asarray(ref).shape))
        return None
    scale = max(1.0, float(np.abs(ref).max()) if np.asarray(ref).size else 1.0)
    out.count("cmp_" + what.split("(")[0])
    if not (e <= TOL * scale):
        out.fail("%s:%s:%s" % (site, what, cfg), "%s | max abs deviation %.3e\n got=%s\n ref=%s" % (
            detail, e, np.array2string(got, precision=4, max_line_width=160, threshold=40),
            np.array2string(np.asarray(ref), precision=4, max_line_width=160, threshold=40)))
        return None          # a wrong value is reported once; it is not fed into follow-up comparisons
    return got


def check_list(out, site, what, cfg, okval, refs, detail):
    ok, val = okval
    out.ops += 1
    if not ok:
        out.fail("%s:raises-%s:%s" % (site, type(val).__name__, cfg), "%s | %s" % (detail, A.fmt_exc(val)))
        return None
    try:
        got = [dense(v) for v in val]
    except Exception as e:  # noqa
        out.fail("%s:not-a-list:%s" % (site, cfg), "%s | %r" % (detail, e))
        return None
    if len(got) != len(refs):
        out.fail("%s:length:%s" % (site, cfg), "%s | %d elements, expected %d" % (detail, len(got), len(refs)))
        return None
    for x, (g, r) in enumerate(zip(got, refs)):
        e = err_of(g, r)
        if e is None:
            out.fail("%s:shape:%s" % (site, cfg), "%s | element %d shape %r, expected %r" % (detail, x, g.shape, np.asarray(r).shape))
            return None
        if not (e <= TOL * max(1.0, float(np.abs(r).max()) if np.asarray(r).size else 1.0)):
            out.fail("%s:%s:%s" % (site, what, cfg), "%s | element %d max abs deviation %.3e\n got=%s\n ref=%s" % (
                detail, x, e, np.array2string(g, precision=4, threshold=40), np.array2string(np.asarray(r), precision=4, threshold=40)))
            out.count("cmp_" + what.split("(")[0])
            return None
    out.count("cmp_" + what.split("(")[0])
    return got


def lin_check(out, site, cfg, f, x, y, s, detail, aslist=False):
    """implementation-only affinity: f(x + s (y - x)) = (1 - s) f(x) + s f(y); with `aslist` f returns a list of arrays"""
    rs = []
    for arg in (x, y, x + s * (y - x)):
        ok, v = A.call(f, arg)
        out.ops += 1
        if not ok:
            return  # already reported by the formula check on the same inputs
        try:
            rs.append(np.array([dense(u) for u in v]) if aslist else dense(v))
        except Exception:  # noqa
            return
    fx, fy, fz = [np.asarray(r, dtype=np.complex128) for r in rs]
    if fx.shape != fz.shape or fy.shape != fz.shape:
        return
    want = (1 - s) * fx + s * fy
    e = float(np.abs(fz - want).max()) if fz.size else 0.0
    out.count("cmp_linearity")
    if not (e <= TOL * max(1.0, float(np.abs(want).max()) if want.size else 1.0)):
        out.fail("%s:linearity:%s" % (site, cfg), "%s | f(x+s(y-x)) deviates from (1-s)f(x)+s f(y) by %.3e" % (detail, e))


def is_complex(M):
    return bool(np.abs(np.asarray(M).imag).max(initial=0.0) > 1e-6)


def is_nonsym(M):
    M = np.asarray(M)
    return bool(M.ndim == 2 and M.shape[0] == M.shape[1] and np.abs(M - M.T).max(initial=0.0) > 1e-6)


def note(out, M):
    if is_complex(M):
        out.count("seen_complex")
    if is_nonsym(M):
        out.count("seen_nonsymmetric")


class Dig:
    def __init__(self):
        self.parts = []

    def add(self, x):
        if x is None:
            return
        try:
            a = np.asarray(x, dtype=np.complex128)
        except Exception:  # noqa
            return
        self.parts.append(np.round(a, 10) + 0.0)

    def hex(self):
        return A.digest(*self.parts) if self.parts else ""
