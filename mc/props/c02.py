"""C02 All representations of one object denote the same operator.

E1 (product enumerator) over type x system x basis x conversion on the COMPLETE basis of each conversion's input
space (every e_i of coefficient / HS / variable space, every element of a Hermitian basis for the Hermitian-input
helpers) plus generic real combinations with an implementation-only affinity check; the non-linear conversions
(Kraus, truncate_hs) over the gate / instrument alphabet and a threshold ladder; E2 (BFS) over the
presence/absence states of CompositeSystem's lazy tables.

Oracles: (i) defining formula (mc/props/_c02_ref.py, replayed against mc/refmodel.py at start-up),
(ii) pairwise agreement of alternative implementations, (iii) inverse pairs compose to the identity,
(iv) Kraus sets reproduce the map on every matrix unit.
"""
from mc.props import _c02_lin as L, _c02_gate as GT, _c02_nl as NL
from mc.props._c02_nl import kraus_names

ID = "C02"
RULE = ("one case = one block of inputs of one conversion group on one system; inside, every element of the complete "
        "basis of the input space (e_i / e_ab / Hermitian basis element / 0 and e_k of variable space) is one distinct "
        "evaluation, pushed through every implementation of the conversion, its inverse and every target basis; "
        "a case is non-trivial when it contains a genuinely complex or non-symmetric operator (all do, by construction "
        "of the Hermitian bases); Kraus / truncate / lazy-table cases are distinct (system, map) / (eps, atol) / table states")
ASSUMPTIONS = [
    "systems carry orthonormal Hermitian bases (normalised Pauli / Gell-Mann / generalised Gell-Mann / "
    "get_normalized_hermitian_basis with the identity not first, 2-qubit, qubit x qutrit; 3 qubits in thorough); "
    "unnormalised or non-Hermitian system bases are outside the property's quantifier",
    "target bases of convert_*: row- and column-major computational basis (rebuilt on the reference side), the "
    "library's other orthonormal Hermitian bases of the same dimension (read as data) and a generically rotated Hermitian basis",
    "linear conversions are decided on a complete basis + affinity on generic combinations; the Hermitian-input helpers "
    "(*_from_density_matrix, *_from_matri(x|ces), to_hs_from_choi*, to_var_from_choi) are only exercised on Hermitian input "
    "(they reject or silently truncate anything else)",
    "Kraus conversions and truncate_hs are covered on the stated alphabet only (8 gates, 2 scaled gates, all instrument "
    "elements, 3 non-CP maps per system; imaginary parts / fluctuations at 0, 1e-3, 0.1, 10, 1e3, 1e9 x eps)",
    "on_para_eq_constraint=True helpers are exercised only where the first basis element is I/sqrt(d)",
    "dense to_choi_from_hs / to_hs_from_choi / process matrix at dim 6 and all of dim 8 only in the thorough tier",
]
BOUNDS = {
    "quick": "systems Q1,Q1h,Q3,Q3g,Q3h,Q2 all paths, Q6 (qubit x qutrit) and D3,2 (qutrit x qubit) sparse+dict paths; POVM m in {2,3}; MProcess shapes "
             "(2),(3),(2,3),(3,2),(2,2,2); lazy-table BFS to its fixpoint (450 states) on Q1",
    "thorough": "adds Q6 dense paths + process matrix, 3 qubits (dim 8, function level), POVM m=4, "
                "lazy-table BFS to the fixpoint on Q3 as well",
}
EXHAUSTIVE = {"quick": True, "thorough": True}
CASE_TIMEOUT = 900
CHUNK = 1          # cases are 0.1 .. 20 s each: shard one by one

SMALL = ["Q1", "Q1h", "Q3", "Q3g", "Q3h", "Q2"]
DIM = {"Q1": 2, "Q1h": 2, "Q3": 3, "Q3g": 3, "Q3h": 3, "Q2": 4, "Q6": 6, "D3,2": 6, "D2,2,2": 8}
ID_FIRST = {"Q1", "Q3", "Q3g", "Q2", "Q6", "D3,2", "D2,2,2"}


def blocks(total, size):
    return [(lo, min(total, lo + size)) for lo in range(0, total, size)]


def paths_of(tag, thorough):
    """all = dense + dict + sparse + process matrix; nodense = dict + sparse; min = function level only"""
    if DIM[tag] <= 4 or (thorough and tag == "Q6"):
        return "all"
    return "nodense" if DIM[tag] == 6 else "min"


def families(tier, seed):
    thorough = tier == "thorough"
    systems = SMALL + ["Q6", "D3,2"] + (["D2,2,2"] if thorough else [])
    fams = []
    fams.append(("state", [{"sys": t} for t in systems]))
    fams.append(("povm", [{"sys": t, "m": m} for t in systems for m in ((2, 3, 4) if thorough else (2, 3))
                          if not (DIM[t] >= 6 and m == 4)]))
    fams.append(("povm_multi", [{"m": list(m)} for m in ((2, 2), (2, 3), (3, 2), (2, 3, 2), (2, 2, 3), (3, 2, 2), (2, 3, 4))]))
    hs_cases, choi_cases, var_cases = [], [], []
    for t in systems:
        n = DIM[t] ** 2
        paths = paths_of(t, thorough)
        size = 64 if n <= 16 else (16 if paths == "all" else 32)
        for lo, hi in blocks(n * n + 3, size):
            hs_cases.append({"sys": t, "lo": lo, "hi": hi, "paths": paths})
            choi_cases.append({"sys": t, "lo": lo, "hi": hi, "paths": paths})
        for flag in (True, False):
            if flag and t not in ID_FIRST:
                continue
            nv = n * (n - 1) if flag else n * n
            for lo, hi in blocks(nv + 3, 128):
                var_cases.append({"sys": t, "flag": flag, "lo": lo, "hi": hi})
    fams.append(("gate_hs", hs_cases))
    fams.append(("gate_choi", choi_cases))
    fams.append(("gate_var", var_cases))
    mp = []
    for t in systems:
        if t not in ID_FIRST:
            continue      # MProcess requires the identity-first orthonormal Hermitian basis
        paths = paths_of(t, thorough)
        for shape in ((2,), (3,), (2, 3), (3, 2), (2, 2, 2)):
            for kind in ("cp", "generic"):
                mp.append({"sys": t, "shape": list(shape), "kind": kind, "paths": paths})
    fams.append(("mprocess", mp))
    fams.append(("kraus", [{"sys": t, "name": nm} for t in systems for nm in kraus_names(DIM[t], seed)]))
    fams.append(("truncate", [{"eps": e, "atol": a} for e in (None, 1e-10, 1e-6) for a in (None, 1e-9)]))
    fams.append(("truncate_through", [{"sys": t, "eps": e} for t in ("Q1", "Q3h", "Q2") for e in (None, 1e-7)]))
    cache = [{"sys": "Q1", "depth": 64}]          # depth 64 > diameter: runs to the fixpoint (450 states)
    if thorough:
        cache.append({"sys": "Q3", "depth": 64})
    fams.append(("cache", cache))
    fams.append(("basis_sequence", [{"d": 2}, {"d": 3}]))
    fams.append(("layout", [{"sys": t} for t in ("Q1", "Q3", "Q2")]))
    return fams


def execute(family, params, seed):
    from mc.props import _c02_extra as X
    fn = {"basis_sequence": X.ex_basis_sequence, "layout": X.ex_layout, "state": L.ex_state, "povm": L.ex_povm, "povm_multi": L.ex_povm_multi, "gate_hs": GT.ex_gate_hs,
          "gate_choi": GT.ex_gate_choi, "gate_var": GT.ex_gate_var, "mprocess": GT.ex_mprocess, "kraus": NL.ex_kraus,
          "truncate": NL.ex_truncate, "truncate_through": NL.ex_truncate_through, "cache": NL.ex_cache}[family]
    return fn(params, seed)


def guards(summary):
    g = []
    info = summary["info"]
    need = ["cmp_formula", "cmp_alt-impl", "cmp_roundtrip", "cmp_linearity", "cmp_kraus_action", "cmp_comp-entries",
            "seen_complex", "seen_nonsymmetric", "rowcol_differ", "flag_True", "flag_False", "tuple_index",
            "multi_index", "multi_index_unequal", "mprocess_unequal_shape",
            "kraus_rank1", "kraus_rank_mid", "kraus_rank_full", "kraus_nonunital", "kraus_complex", "kraus_gauge",
            "kraus_noncp_empty", "trunc_kept_real", "trunc_raised", "trunc_complex_kept", "trunc_fluct_zeroed",
            "trunc_fluct_kept", "through_below", "through_raised", "cache_recomputed_after_delete"]
    for k in need:
        if info.get(k, 0) < 1:
            g.append("never observed: %s" % k)
    if info.get("cache_fixpoint", 0) != summary["families"].get("cache", 0):
        g.append("lazy-table BFS did not reach its fixpoint")
    if info.get("multi_setup_failed", 0):
        g.append("tensor-product POVM for the multi-index accessor could not be built")
    return g
